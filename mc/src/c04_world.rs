//! C04 driver of the real code: one light-world peer with the connection taps, operations
//! classified into {ok, refused by the language, engine error, other error, panic}, and the
//! statement-structure vocabulary.
use crate::c04_sql::*;
use crate::common::hash64;
use crate::light::LPeer;
use discret::verif::database::mutation_query::MutationQuery;
use discret::verif::database::query::{PreparedQueries, Query};
use discret::verif::database::query_language::mutation_parser::MutationParser;
use discret::verif::database::query_language::parameter::Parameters;
use discret::verif::database::query_language::query_parser::QueryParser;
use discret::verif::database::query_language::ParamValue;
use discret::verif::database::sqlite_database::WriteMessage;
use discret::verif::database::Error as DbError;
use std::collections::{BTreeMap, BTreeSet, HashMap};
use std::panic::{catch_unwind, AssertUnwindSafe};
use std::sync::Arc;

#[derive(Debug, Clone)]
pub enum Res<T> {
    Ok(T),
    /// the language (parser, parameter validation) refused the request
    Refused(String),
    /// SQLite reported an error
    Engine(String),
    Other(String),
    Panic(String),
}
impl<T> Res<T> {
    pub fn label(&self) -> &'static str {
        match self {
            Res::Ok(_) => "ok",
            Res::Refused(_) => "refused",
            Res::Engine(_) => "engine-error",
            Res::Other(_) => "other-error",
            Res::Panic(_) => "panic",
        }
    }
    pub fn msg(&self) -> String {
        match self {
            Res::Ok(_) => String::new(),
            Res::Refused(m) | Res::Engine(m) | Res::Other(m) | Res::Panic(m) => m.clone(),
        }
    }
}

fn classify<T>(e: DbError) -> Res<T> {
    match e {
        DbError::Database(x) => Res::Engine(x.to_string()),
        DbError::Parsing(x) => Res::Refused(x.to_string()),
        other => Res::Other(other.to_string()),
    }
}

pub fn params(list: &[(&str, ParamValue)]) -> Parameters {
    let mut p = Parameters::new();
    for (k, v) in list {
        p.params.insert(k.to_string(), v.clone());
    }
    p
}

/// normalised structures of every statement text seen while only benign values were used
#[derive(Default)]
pub struct Vocabulary {
    pub learning: bool,
    pub structures: BTreeSet<u64>,
}

pub struct World {
    pub peer: LPeer,
    pub tap: Box<Tap>,
    qcache: HashMap<String, (Arc<QueryParser>, Arc<PreparedQueries>)>,
    mcache: HashMap<String, Arc<MutationParser>>,
    /// statement texts already judged
    judged: BTreeMap<u64, Option<String>>,
    pub calls: u64,
    /// structures outside the vocabulary met by the last operation (set even when it failed)
    pub last_foreign: Vec<String>,
}

pub struct WriteOk {
    pub id: String,
    /// row changes of rowid tables (table, rowid, action) caused by the operation
    pub changes: Vec<(u8, i64, u8)>,
    /// structures of executed statements that are not in the vocabulary
    pub foreign: Vec<String>,
}
pub struct ReadOk {
    pub json: JV,
    pub changes: Vec<(u8, i64, u8)>,
    pub foreign: Vec<String>,
}

impl World {
    pub fn new(model: &str) -> Result<World, String> {
        let peer = LPeer::new(1, model)?;
        let tap = Tap::install(&peer.conn);
        Ok(World {
            peer,
            tap,
            qcache: HashMap::new(),
            mcache: HashMap::new(),
            judged: BTreeMap::new(),
            calls: 0,
            last_foreign: vec![],
        })
    }

    /// the data model changed: parsed requests are stale
    pub fn model_changed(&mut self) {
        self.qcache.clear();
        self.mcache.clear();
    }

    fn judge_text(&mut self, text: &str, vocab: &mut Vocabulary, foreign: &mut Vec<String>) {
        if text.starts_with("--") {
            // statements run by SQLite itself on behalf of a virtual table or a trigger
            return;
        }
        let h = hash64(&text);
        if let Some(j) = self.judged.get(&h) {
            if let Some(s) = j {
                foreign.push(s.clone());
            }
            return;
        }
        let st = sql_structure(text);
        let sh = hash64(&st);
        if vocab.learning {
            vocab.structures.insert(sh);
            self.judged.insert(h, None);
        } else if vocab.structures.contains(&sh) {
            self.judged.insert(h, None);
        } else {
            self.judged.insert(h, Some(st.clone()));
            foreign.push(st);
        }
    }

    fn judge_trace(&mut self, vocab: &mut Vocabulary, foreign: &mut Vec<String>) -> Vec<(u8, i64, u8)> {
        let (stmts, changes) = self.tap.drain();
        let mut done = BTreeSet::new();
        for h in stmts {
            if done.insert(h) {
                let t = self.tap.text(h);
                self.judge_text(&t, vocab, foreign);
            }
        }
        changes
    }

    /// a complete local mutation through the real phases: parse, execute, sign + rights, batch commit
    pub fn write(&mut self, text: &str, p: Parameters, cache: bool, vocab: &mut Vocabulary) -> Res<WriteOk> {
        self.calls += 1;
        self.last_foreign.clear();
        let _ = self.tap.drain();
        let parser = match self.mcache.get(text) {
            Some(p) => p.clone(),
            None => {
                let r = catch_unwind(AssertUnwindSafe(|| MutationParser::parse(text, &self.peer.model)));
                match r {
                    Err(_) => return Res::Panic("panic in MutationParser::parse".into()),
                    Ok(Err(e)) => return Res::Refused(e.to_string()),
                    Ok(Ok(p)) => {
                        let p = Arc::new(p);
                        if cache {
                            self.mcache.insert(text.to_string(), p.clone());
                        }
                        p
                    }
                }
            }
        };
        let mut p = p;
        let peer = &mut self.peer;
        let r = catch_unwind(AssertUnwindSafe(|| -> Result<String, DbError> {
            let mut q = MutationQuery::execute(&mut p, parser, &peer.conn)?;
            peer.auth.validate_mutation(&mut q)?;
            let mut buffer = vec![LPeer::mutation_message(q)];
            discret::verif::database::sqlite_database::BufferedDatabaseWriter::verif_process_batch_write(&mut buffer, &peer.conn)?;
            match buffer.pop() {
                Some(WriteMessage::Mutation(q, _)) => Ok(crate::world::b64(&q.mutate_entities[0].node_to_mutate.id)),
                _ => Ok(String::new()),
            }
        }));
        let mut foreign = vec![];
        let changes = self.judge_trace(vocab, &mut foreign);
        self.last_foreign = foreign.clone();
        match r {
            Err(_) => {
                // a panic inside a transaction would leave it open
                let _ = self.peer.conn.execute_batch("ROLLBACK");
                let _ = self.tap.drain();
                Res::Panic("panic in the mutation phases".into())
            }
            Ok(Err(e)) => classify(e),
            Ok(Ok(id)) => Res::Ok(WriteOk { id, changes, foreign }),
        }
    }

    /// parse, build and run a query; the generated SQL text is judged before it is executed
    pub fn read(&mut self, text: &str, p: Parameters, cache: bool, vocab: &mut Vocabulary) -> Res<ReadOk> {
        self.calls += 1;
        self.last_foreign.clear();
        let _ = self.tap.drain();
        let mut foreign = vec![];
        let (parser, prepared) = match self.qcache.get(text) {
            Some(x) => x.clone(),
            None => {
                let r = catch_unwind(AssertUnwindSafe(|| -> Result<(QueryParser, PreparedQueries), DbError> {
                    let parser = QueryParser::parse(text, &self.peer.model)?;
                    let prepared = PreparedQueries::build(&parser)?;
                    Ok((parser, prepared))
                }));
                match r {
                    Err(_) => return Res::Panic("panic in QueryParser::parse / PreparedQueries::build".into()),
                    Ok(Err(e)) => return classify(e),
                    Ok(Ok((a, b))) => {
                        let x = (Arc::new(a), Arc::new(b));
                        if cache {
                            self.qcache.insert(text.to_string(), x.clone());
                        }
                        x
                    }
                }
            }
        };
        for sq in &prepared.sql_queries {
            let t = sq.sql_query.clone();
            self.judge_text(&t, vocab, &mut foreign);
        }
        let conn = &self.peer.conn;
        let r = catch_unwind(AssertUnwindSafe(|| {
            let mut q = Query {
                parameters: p,
                parser,
                sql_queries: prepared,
            };
            q.read(conn)
        }));
        let changes = self.judge_trace(vocab, &mut foreign);
        foreign.sort();
        foreign.dedup();
        self.last_foreign = foreign.clone();
        match r {
            Err(_) => Res::Panic("panic in Query::read".into()),
            Ok(Err(e)) => classify(e),
            Ok(Ok(s)) => match parse_json(&s) {
                Ok(json) => Res::Ok(ReadOk { json, changes, foreign }),
                Err(e) => Res::Other(format!("query result is not JSON ({}): {}", e, s.chars().take(200).collect::<String>())),
            },
        }
    }

    /// `_node` content (harness side read, statement trace discarded)
    pub fn dump_nodes(&self, max_rowid: i64) -> Vec<Vec<crate::world::Sv>> {
        let r = self
            .peer
            .sql(&format!(
                "SELECT rowid, id, room_id, cdate, mdate, _entity, _json, _binary, verifying_key, _signature FROM _node WHERE rowid <= {} ORDER BY rowid",
                max_rowid
            ))
            .unwrap_or_default();
        let _ = self.tap.drain();
        r
    }
    pub fn max_rowid(&self) -> i64 {
        let r = self.peer.sql("SELECT ifnull(max(rowid),0) FROM _node").unwrap_or_default();
        let _ = self.tap.drain();
        r.first().and_then(|x| x.first()).and_then(|v| v.int()).unwrap_or(0)
    }
    pub fn count(&self, table: &str) -> i64 {
        let r = self.peer.sql(&format!("SELECT count(*) FROM {}", table)).unwrap_or_default();
        let _ = self.tap.drain();
        r.first().and_then(|x| x.first()).and_then(|v| v.int()).unwrap_or(-1)
    }
}
