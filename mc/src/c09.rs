//! C09 — the daily log is a function of the stored content, nothing else.
//!
//! Explicit-state search (depth first with snapshots, bounded by the number of writes) over the
//! REAL pipeline phases in the light world: local mutations / deletions are parsed, executed
//! (snapshot read), validated and signed by the real code, ingested batches are built with the real
//! `Node::filter_existing` + `RoomAuthorisations::validate_node` + `NodeDeletionEntry::build` +
//! `EdgeDeletionEntry::build`, every batch goes through the real `process_batch_write`
//! (marks = `DailyMutations::write`) and recomputation is the real `DailyLogsUpdate::compute`.
//!
//! Events (the alphabet):
//!   L  local write at clock day d (create / update / move to the other room / node delete /
//!      reference delete), executed against the current database and queued
//!   I  ingested message (new row / newer version same room / newer version other room / tombstone
//!      of the stored version / tombstone of a newer version / edge tombstone), built against the
//!      current database and queued
//!   R  recomputation request, queued like any other writer message
//!   C  k  commit the first k queued messages as ONE batch (so every split of the queue is explored)
//! A *barrier* is a state with an empty queue whose last batch was a lone recomputation request.
//!
//! Oracles: see `barrier_oracles` and `commit_invariant`.
use crate::common::*;
use crate::light::LPeer;
use crate::world::{b64, set_clock, DAY, T0};
use discret::verif::database::deletion::DeletionQuery;
use discret::verif::database::edge::{Edge, EdgeDeletionEntry};
use discret::verif::database::node::{Node, NodeDeletionEntry, NodeIdentifier, NodeToInsert};
use discret::verif::database::query_language::deletion_parser::DeletionParser;
use discret::verif::database::query_language::parameter::{Parameters, ParametersAdd};
use discret::verif::database::sqlite_database::WriteMessage;
use discret::verif::security::Uid;
use discret::verif_hooks;
use rusqlite::Connection;
use serde::{Deserialize, Serialize};
use serde_json::json;
use std::collections::{BTreeMap, BTreeSet, HashMap, HashSet};
use std::sync::Arc;
use std::time::Instant;
use tokio::sync::oneshot;

const MODEL: &str = "ns { P { name: String, qs: [ns.Q] nullable } Q { name: String } }";
const ENT_NAME: [&str; 2] = ["ns.P", "ns.Q"];
/// row slots: two rows of entity P (so that one cell can hold several signatures), one of entity Q
const SLOT_NAME: [&str; 3] = ["P0", "P1", "Q0"];
const SLOT_ENT: [usize; 3] = [0, 0, 1];
const NDAYS: u8 = 3;
const NSHARDS: usize = 16;

fn tick(d: u8) -> i64 {
    T0 + d as i64 * DAY + 3_600_000
}
/// harness' own day arithmetic (independent of date_utils)
fn day_of(ms: i64) -> i64 {
    ms - ms.rem_euclid(DAY)
}
fn day_idx(ms: i64) -> i64 {
    (day_of(ms) - T0) / DAY
}

// ---------------------------------------------------------------------------------------------
// events
// ---------------------------------------------------------------------------------------------

#[derive(Clone, Copy, Debug, PartialEq, Eq, Hash, PartialOrd, Ord, Serialize, Deserialize)]
pub enum LOp {
    Create,
    Update,
    Move,
    Delete,
    RefDelete,
}
#[derive(Clone, Copy, Debug, PartialEq, Eq, Hash, PartialOrd, Ord, Serialize, Deserialize)]
pub enum IOp {
    /// a row this peer never saw
    New,
    /// the stored row, updated by another device on day d1 (same room)
    Update,
    /// the stored row, moved to the other room by another device on day d1
    Move,
    /// tombstone of the stored version, deleted on day d1
    Tomb,
    /// tombstone of a version updated on d1 (never received) and deleted on d2
    UpdTomb,
    /// tombstone of the stored reference P->Q0, deleted on day d1
    EdgeTomb,
}

#[derive(Clone, Copy, Debug, PartialEq, Eq, Hash, PartialOrd, Ord, Serialize, Deserialize)]
pub enum Ev {
    L { op: LOp, slot: u8, room: u8, day: u8 },
    I { op: IOp, slot: u8, room: u8, d1: u8, d2: u8 },
    R,
    C { k: u8 },
}
impl Ev {
    fn is_write(&self) -> bool {
        matches!(self, Ev::L { .. } | Ev::I { .. })
    }
    fn short(&self) -> String {
        match self {
            Ev::L { op, slot, room, day } => match op {
                LOp::Create => format!("create({},R{})@d{}", SLOT_NAME[*slot as usize], room + 1, day),
                LOp::Update => format!("update({})@d{}", SLOT_NAME[*slot as usize], day),
                LOp::Move => format!("move({})@d{}", SLOT_NAME[*slot as usize], day),
                LOp::Delete => format!("delete({})@d{}", SLOT_NAME[*slot as usize], day),
                LOp::RefDelete => format!("refdelete({})@d{}", SLOT_NAME[*slot as usize], day),
            },
            Ev::I { op, slot, room, d1, d2 } => match op {
                IOp::New => format!("ingest-new({},R{},d{})", SLOT_NAME[*slot as usize], room + 1, d1),
                IOp::Update => format!("ingest-update({},d{})", SLOT_NAME[*slot as usize], d1),
                IOp::Move => format!("ingest-move({},d{})", SLOT_NAME[*slot as usize], d1),
                IOp::Tomb => format!("ingest-tomb({},d{})", SLOT_NAME[*slot as usize], d1),
                IOp::UpdTomb => format!("ingest-tomb-of-newer({},upd d{},del d{})", SLOT_NAME[*slot as usize], d1, d2),
                IOp::EdgeTomb => format!("ingest-edge-tomb({},d{})", SLOT_NAME[*slot as usize], d1),
            },
            Ev::R => "recompute".into(),
            Ev::C { k } => format!("commit({})", k),
        }
    }
}
fn path_str(p: &[Ev]) -> String {
    p.iter().map(|e| e.short()).collect::<Vec<_>>().join(" ; ")
}

// ---------------------------------------------------------------------------------------------
// raw database image (read with the harness' own SQL)
// ---------------------------------------------------------------------------------------------

type Bytes = Vec<u8>;

#[derive(Clone, Debug, PartialEq, Eq, Hash, PartialOrd, Ord)]
struct NodeRow {
    id: Bytes,
    room: Bytes,
    cdate: i64,
    mdate: i64,
    entity: String,
    json: Option<String>,
    vk: Bytes,
    sig: Bytes,
}
#[derive(Clone, Debug, PartialEq, Eq, Hash, PartialOrd, Ord)]
struct TombRow {
    room: Bytes,
    id: Bytes,
    mdate: i64,
    entity: String,
    ddate: i64,
    vk: Bytes,
    sig: Bytes,
}
#[derive(Clone, Debug, PartialEq, Eq, Hash, PartialOrd, Ord)]
struct EdgeRow {
    src: Bytes,
    src_entity: String,
    label: String,
    dest: Bytes,
    cdate: i64,
    vk: Bytes,
    sig: Bytes,
}
#[derive(Clone, Debug, PartialEq, Eq, Hash, PartialOrd, Ord)]
struct ETombRow {
    room: Bytes,
    src: Bytes,
    src_entity: String,
    dest: Bytes,
    label: String,
    cdate: i64,
    ddate: i64,
    vk: Bytes,
    sig: Bytes,
}
#[derive(Clone, Debug, PartialEq, Eq, Hash, PartialOrd, Ord)]
struct LogRow {
    room: Bytes,
    entity: String,
    date: i64,
    n: i64,
    daily: Option<Bytes>,
    history: Option<Bytes>,
    need: Option<i64>,
}
impl LogRow {
    fn dirty(&self) -> bool {
        self.need.unwrap_or(0) != 0
    }
}

#[derive(Clone, Debug, Default, PartialEq, Eq, Hash)]
struct Db {
    nodes: Vec<NodeRow>,
    tombs: Vec<TombRow>,
    edges: Vec<EdgeRow>,
    etombs: Vec<ETombRow>,
    logs: Vec<LogRow>,
}

fn read_db(conn: &Connection, ents: &[String; 2]) -> Result<Db, String> {
    let e = |x: rusqlite::Error| x.to_string();
    let mut db = Db::default();
    {
        let mut st = conn
            .prepare_cached("SELECT id, room_id, cdate, mdate, _entity, _json, verifying_key, _signature FROM _node WHERE _entity IN (?1, ?2) AND room_id IS NOT NULL")
            .map_err(e)?;
        let mut rows = st.query((&ents[0], &ents[1])).map_err(e)?;
        while let Some(r) = rows.next().map_err(e)? {
            db.nodes.push(NodeRow {
                id: r.get(0).map_err(e)?,
                room: r.get(1).map_err(e)?,
                cdate: r.get(2).map_err(e)?,
                mdate: r.get(3).map_err(e)?,
                entity: r.get(4).map_err(e)?,
                json: r.get(5).map_err(e)?,
                vk: r.get(6).map_err(e)?,
                sig: r.get(7).map_err(e)?,
            });
        }
    }
    {
        let mut st = conn
            .prepare_cached("SELECT room_id, id, mdate, entity, deletion_date, verifying_key, signature FROM _node_deletion_log")
            .map_err(e)?;
        let mut rows = st.query([]).map_err(e)?;
        while let Some(r) = rows.next().map_err(e)? {
            db.tombs.push(TombRow {
                room: r.get(0).map_err(e)?,
                id: r.get(1).map_err(e)?,
                mdate: r.get(2).map_err(e)?,
                entity: r.get(3).map_err(e)?,
                ddate: r.get(4).map_err(e)?,
                vk: r.get(5).map_err(e)?,
                sig: r.get(6).map_err(e)?,
            });
        }
    }
    {
        let mut st = conn
            .prepare_cached("SELECT src, src_entity, label, dest, cdate, verifying_key, signature FROM _edge WHERE src_entity IN (?1, ?2)")
            .map_err(e)?;
        let mut rows = st.query((&ents[0], &ents[1])).map_err(e)?;
        while let Some(r) = rows.next().map_err(e)? {
            db.edges.push(EdgeRow {
                src: r.get(0).map_err(e)?,
                src_entity: r.get(1).map_err(e)?,
                label: r.get(2).map_err(e)?,
                dest: r.get(3).map_err(e)?,
                cdate: r.get(4).map_err(e)?,
                vk: r.get(5).map_err(e)?,
                sig: r.get(6).map_err(e)?,
            });
        }
    }
    {
        let mut st = conn
            .prepare_cached("SELECT room_id, src, src_entity, dest, label, cdate, deletion_date, verifying_key, signature FROM _edge_deletion_log")
            .map_err(e)?;
        let mut rows = st.query([]).map_err(e)?;
        while let Some(r) = rows.next().map_err(e)? {
            db.etombs.push(ETombRow {
                room: r.get(0).map_err(e)?,
                src: r.get(1).map_err(e)?,
                src_entity: r.get(2).map_err(e)?,
                dest: r.get(3).map_err(e)?,
                label: r.get(4).map_err(e)?,
                cdate: r.get(5).map_err(e)?,
                ddate: r.get(6).map_err(e)?,
                vk: r.get(7).map_err(e)?,
                sig: r.get(8).map_err(e)?,
            });
        }
    }
    {
        let mut st = conn
            .prepare_cached("SELECT room_id, entity, date, entry_number, daily_hash, history_hash, need_recompute FROM _daily_log WHERE entity IN (?1, ?2)")
            .map_err(e)?;
        let mut rows = st.query((&ents[0], &ents[1])).map_err(e)?;
        while let Some(r) = rows.next().map_err(e)? {
            db.logs.push(LogRow {
                room: r.get(0).map_err(e)?,
                entity: r.get(1).map_err(e)?,
                date: r.get(2).map_err(e)?,
                n: r.get(3).map_err(e)?,
                daily: r.get(4).map_err(e)?,
                history: r.get(5).map_err(e)?,
                need: r.get(6).map_err(e)?,
            });
        }
    }
    db.nodes.sort();
    db.tombs.sort();
    db.edges.sort();
    db.etombs.sort();
    db.logs.sort();
    Ok(db)
}

type Cell = (Bytes, String, i64); // room, entity (short), day start

impl Db {
    /// the harness' own recomputation: per (room, entity, day) the signatures of the rows modified
    /// that day, the node tombstones and the reference tombstones dated that day, bytewise ordered
    fn cells(&self) -> BTreeMap<Cell, Vec<Bytes>> {
        let mut m: BTreeMap<Cell, Vec<Bytes>> = BTreeMap::new();
        for n in &self.nodes {
            m.entry((n.room.clone(), n.entity.clone(), day_of(n.mdate))).or_default().push(n.sig.clone());
        }
        for t in &self.tombs {
            m.entry((t.room.clone(), t.entity.clone(), day_of(t.ddate))).or_default().push(t.sig.clone());
        }
        for t in &self.etombs {
            m.entry((t.room.clone(), t.src_entity.clone(), day_of(t.ddate))).or_default().push(t.sig.clone());
        }
        for v in m.values_mut() {
            v.sort();
        }
        m
    }
    fn has_marks(&self) -> bool {
        self.logs.iter().any(|l| l.dirty())
    }
    /// content of one room: rows + tombstones (log tables and references excluded)
    fn room_content_hash(&self, room: &[u8]) -> u64 {
        let n: Vec<&NodeRow> = self.nodes.iter().filter(|x| x.room == room).collect();
        let t: Vec<&TombRow> = self.tombs.iter().filter(|x| x.room == room).collect();
        let e: Vec<&ETombRow> = self.etombs.iter().filter(|x| x.room == room).collect();
        hash64(&(room, n, t, e))
    }
    fn room_empty(&self, room: &[u8]) -> bool {
        !self.nodes.iter().any(|x| x.room == room)
            && !self.tombs.iter().any(|x| x.room == room)
            && !self.etombs.iter().any(|x| x.room == room)
    }
    fn content_hash(&self) -> u64 {
        hash64(&(&self.nodes, &self.tombs, &self.etombs))
    }
    fn room_log(&self, room: &[u8]) -> Vec<&LogRow> {
        self.logs.iter().filter(|x| x.room == room).collect()
    }
    fn room_log_hash(&self, room: &[u8]) -> u64 {
        hash64(&(room, self.room_log(room)))
    }
}

fn own_daily_hash(sigs: &[Bytes]) -> Option<Bytes> {
    if sigs.is_empty() {
        return None;
    }
    let mut h = blake3::Hasher::new();
    for s in sigs {
        h.update(s);
    }
    Some(h.finalize().as_bytes().to_vec())
}

/// cells whose stored summary is wrong. With `allow_marked` a cell that is marked for
/// recomputation is not judged (invariant "marked or accurate" after a commit); without it
/// (barrier) a remaining mark is itself a finding.
fn wrong_cells(db: &Db, allow_marked: bool) -> BTreeMap<Cell, &'static str> {
    let cells = db.cells();
    let mut bad = BTreeMap::new();
    let mut seen: BTreeSet<Cell> = BTreeSet::new();
    for l in &db.logs {
        let c: Cell = (l.room.clone(), l.entity.clone(), l.date);
        seen.insert(c.clone());
        if l.dirty() {
            if !allow_marked {
                bad.insert(c, "stale_mark");
            }
            continue;
        }
        let empty = vec![];
        let sigs = cells.get(&c).unwrap_or(&empty);
        if l.n != sigs.len() as i64 {
            bad.insert(c, "entry_number");
        } else if l.daily != own_daily_hash(sigs) {
            bad.insert(c, "daily_hash");
        }
    }
    for (c, sigs) in &cells {
        if !sigs.is_empty() && !seen.contains(c) {
            bad.insert(c.clone(), "missing_row");
        }
    }
    bad
}

// ---------------------------------------------------------------------------------------------
// world
// ---------------------------------------------------------------------------------------------

fn copy_db(src: &Connection, dst: &mut Connection) -> Result<(), String> {
    let b = rusqlite::backup::Backup::new(src, dst).map_err(|e| e.to_string())?;
    b.step(-1).map_err(|e| e.to_string())?;
    Ok(())
}

#[derive(Clone, Debug, Serialize, Deserialize)]
pub struct Bounds {
    pub slots: u8,
    pub max_writes: u8,
    pub max_pending: u8,
    pub ingest: bool,
    /// a write may be dated at most this many days after the clock day (local) / the stored version (ingested)
    #[serde(default = "three")]
    pub day_step: u8,
}
fn three() -> u8 {
    3
}
impl Bounds {
    /// the searches of a tier (run one after the other, results merged)
    fn passes(t: Tier) -> Vec<Bounds> {
        let mut v = match t {
            Tier::Quick => vec![Bounds { slots: 3, max_writes: 3, max_pending: 2, ingest: true, day_step: 3 }],
            Tier::Thorough => vec![
                // longer histories, writes one at a time, every placement of the recomputations
                Bounds { slots: 3, max_writes: 4, max_pending: 1, ingest: true, day_step: 3 },
                // up to three messages queued together (a recomputation can sit between two writes
                // built on the same snapshot), every split into batches
                Bounds { slots: 3, max_writes: 3, max_pending: 3, ingest: true, day_step: 3 },
            ],
        };
        let ov = |n: &str, v: &mut u8| {
            if let Ok(x) = std::env::var(n) {
                if let Ok(x) = x.parse() {
                    *v = x;
                }
            }
        };
        for b in v.iter_mut() {
            ov("C09_SLOTS", &mut b.slots);
            ov("C09_WRITES", &mut b.max_writes);
            ov("C09_QUEUE", &mut b.max_pending);
            ov("C09_DAYSTEP", &mut b.day_step);
        }
        v
    }
    fn for_tier(t: Tier) -> Bounds {
        let v = Self::passes(t);
        let i: usize = std::env::var("C09_PASS").ok().and_then(|x| x.parse().ok()).unwrap_or(0);
        v[i.min(v.len() - 1)].clone()
    }
}

/// a queued writer message and what the harness knows about it
struct PMsg {
    msg: WriteMessage,
    class: String,
    slot: Option<u8>,
    ev: Ev,
    /// hash of the database the message was built against
    built_on: u64,
}

/// decoded situation of one slot in the database
#[derive(Clone, Debug, Default)]
struct SlotState {
    node: Option<NodeRow>,
    dup: bool,
    tombs: usize,
    room: u8,
    cday: u8,
    mday: u8,
    has_edge: bool,
}

struct World {
    b: Bounds,
    peer: LPeer,
    fresh: LPeer,
    source: LPeer,
    pristine: Connection,
    rooms: [Uid; 2],
    ents: [String; 2],
    /// ids[slot][creation day]
    ids: Vec<Vec<Uid>>,
    versions: HashMap<(u8, u8, u8, u8, u8), Node>,
    pending: Vec<PMsg>,
    snaps: Vec<Connection>,
    fresh_cache: HashMap<u64, Arc<Db>>,
    // exploration
    seen: HashSet<u64>,
    /// states met at this level: entry states of the next one
    next: Vec<(u64, Vec<Ev>)>,
    collect_next: bool,
    out: Outcome,
    witnesses: BTreeMap<String, (usize, Vec<Ev>, String)>,
    viol_counts: BTreeMap<String, u64>,
    /// (room index, content hash, log hash) -> shortest path (barrier states that pass oracle i)
    groups: BTreeMap<(u8, u64, u64), Vec<Ev>>,
    transitions_total: u64,
    last_path: Vec<Ev>,
}

const ROOM_MUT: &str = r#"mutate { sys.Room { admin:[{verif_key:$adm}] authorisations:[{ name:"all" rights:[{entity:"*" mutate_self:true mutate_all:true}] users:[{verif_key:$adm}] }] } }"#;

fn kind_letter(k: u8) -> &'static str {
    match k {
        0 => "c",
        1 => "u",
        _ => "m",
    }
}

impl World {
    fn new(b: Bounds) -> Result<World, String> {
        // template: rooms are created once, every other peer is a byte copy of it
        verif_hooks::set_uid_namespace(9);
        set_clock(T0 - DAY + 1000);
        let mut tpl = LPeer::new(1, MODEL)?;
        let mut rooms: [Uid; 2] = [[0; 16]; 2];
        for r in rooms.iter_mut() {
            let mut p = Parameters::default();
            p.add("adm", b64(&tpl.key())).map_err(|e| e.to_string())?;
            let q = tpl.mutate(ROOM_MUT, p)?;
            *r = q.mutate_entities[0].node_to_mutate.id;
        }
        tpl.compute_daily_log()?;
        if rooms[0] == rooms[1] {
            return Err("room ids collide".into());
        }
        let mk = |tpl: &LPeer| -> Result<LPeer, String> {
            let mut p = LPeer::new(1, MODEL)?;
            copy_db(&tpl.conn, &mut p.conn)?;
            p.auth.rooms = tpl.auth.rooms.clone();
            Ok(p)
        };
        let peer = mk(&tpl)?;
        let fresh = mk(&tpl)?;
        let source = mk(&tpl)?;
        let mut pristine = Connection::open_in_memory().map_err(|e| e.to_string())?;
        copy_db(&tpl.conn, &mut pristine)?;
        let ents = [
            tpl.model.get_entity(ENT_NAME[0]).map_err(|e| e.to_string())?.short_name.clone(),
            tpl.model.get_entity(ENT_NAME[1]).map_err(|e| e.to_string())?.short_name.clone(),
        ];
        let mut snaps = vec![];
        for _ in 0..64 {
            snaps.push(Connection::open_in_memory().map_err(|e| e.to_string())?);
        }
        let mut w = World {
            b,
            peer,
            fresh,
            source,
            pristine,
            rooms,
            ents,
            ids: vec![],
            versions: HashMap::new(),
            pending: vec![],
            snaps,
            fresh_cache: HashMap::new(),
            seen: HashSet::new(),
            next: vec![],
            collect_next: true,
            out: Outcome::default(),
            witnesses: BTreeMap::new(),
            viol_counts: BTreeMap::new(),
            groups: BTreeMap::new(),
            transitions_total: 0,
            last_path: vec![],
        };
        // identifiers of every (slot, creation day): produced by the real creation path on the source
        for s in 0..SLOT_NAME.len() as u8 {
            let mut v = vec![];
            for d in 0..NDAYS {
                let n = w.version(s, d, 0, d, 0)?;
                v.push(n.id);
            }
            w.ids.push(v);
        }
        let initial = read_db(&w.peer.conn, &w.ents)?;
        if !initial.logs.is_empty() || !initial.nodes.is_empty() {
            return Err(format!("pristine world is not empty: {:?}", initial));
        }
        Ok(w)
    }

    fn room_idx(&self, room: &[u8]) -> Option<u8> {
        if room == self.rooms[0] {
            Some(0)
        } else if room == self.rooms[1] {
            Some(1)
        } else {
            None
        }
    }

    /// the row of `slot` as another device of the same user would hold it: created on `cday`, last
    /// written on `mday` by a create (0) / update (1) / move into `room` (2). Produced by running the
    /// real local operations on the source peer.
    fn version(&mut self, slot: u8, cday: u8, room: u8, mday: u8, kind: u8) -> Result<Node, String> {
        let key = (slot, cday, room, mday, kind);
        if let Some(n) = self.versions.get(&key) {
            return Ok(n.clone());
        }
        copy_db(&self.pristine, &mut self.source.conn)?;
        let croom = if kind == 2 { 1 - room } else { room };
        let rooms = self.rooms;
        let m = local_message(&mut self.source, &rooms, LOp::Create, slot, croom, cday, None, None)?;
        self.source.commit(&mut vec![m])?;
        let db = read_db(&self.source.conn, &self.ents)?;
        let id = db.nodes.get(0).ok_or("source: no row created")?.id.clone();
        let mut uid: Uid = [0; 16];
        uid.copy_from_slice(&id);
        if kind == 1 {
            let m = local_message(&mut self.source, &rooms, LOp::Update, slot, room, mday, Some(uid), None)?;
            self.source.commit(&mut vec![m])?;
        } else if kind == 2 {
            let m = local_message(&mut self.source, &rooms, LOp::Move, slot, room, mday, Some(uid), None)?;
            self.source.commit(&mut vec![m])?;
        } else if mday != cday {
            return Err("version: created rows have mday == cday".into());
        }
        let db = read_db(&self.source.conn, &self.ents)?;
        let r = db.nodes.get(0).ok_or("source: row vanished")?;
        let node = node_of(r);
        self.versions.insert(key, node.clone());
        Ok(node)
    }

    fn slot_of_id(&self, id: &[u8]) -> Option<u8> {
        for (s, v) in self.ids.iter().enumerate() {
            if v.iter().any(|x| x[..] == id[..]) {
                return Some(s as u8);
            }
        }
        None
    }

    fn decode(&self, db: &Db) -> Vec<SlotState> {
        let mut res = vec![SlotState::default(); SLOT_NAME.len()];
        for n in &db.nodes {
            if let Some(s) = self.slot_of_id(&n.id) {
                let st = &mut res[s as usize];
                if st.node.is_some() {
                    st.dup = true;
                    continue;
                }
                st.room = self.room_idx(&n.room).unwrap_or(0);
                st.cday = day_idx(n.cdate) as u8;
                st.mday = day_idx(n.mdate) as u8;
                st.node = Some(n.clone());
            }
        }
        for t in &db.tombs {
            if let Some(s) = self.slot_of_id(&t.id) {
                res[s as usize].tombs += 1;
            }
        }
        for e in &db.edges {
            if let Some(s) = self.slot_of_id(&e.src) {
                res[s as usize].has_edge = true;
            }
        }
        res
    }
}

fn node_of(r: &NodeRow) -> Node {
    let mut id: Uid = [0; 16];
    id.copy_from_slice(&r.id);
    let mut room: Uid = [0; 16];
    room.copy_from_slice(&r.room);
    Node {
        id,
        room_id: Some(room),
        cdate: r.cdate,
        mdate: r.mdate,
        _entity: r.entity.clone(),
        _json: r.json.clone(),
        _binary: None,
        verifying_key: r.vk.clone(),
        _signature: r.sig.clone(),
        _local_id: None,
    }
}
fn uid_of(b: &[u8]) -> Uid {
    let mut u: Uid = [0; 16];
    u.copy_from_slice(b);
    u
}

/// a local write: parse, execute against the current database, validate + sign — the message the
/// writer would receive. `id` = target row for everything but Create, `q0` = reference target.
#[allow(clippy::too_many_arguments)]
fn local_message(
    peer: &mut LPeer,
    rooms: &[Uid; 2],
    op: LOp,
    slot: u8,
    room: u8,
    day: u8,
    id: Option<Uid>,
    q0: Option<Uid>,
) -> Result<WriteMessage, String> {
    set_clock(tick(day));
    let ent = ENT_NAME[SLOT_ENT[slot as usize]];
    let mut p = Parameters::default();
    let pe = |e: discret::verif::database::query_language::Error| e.to_string();
    match op {
        LOp::Create | LOp::Update | LOp::Move => {
            let text = match op {
                LOp::Create => {
                    verif_hooks::set_uid_namespace(100 + slot as u64);
                    p.add("room", b64(&rooms[room as usize])).map_err(pe)?;
                    if let Some(q) = q0 {
                        p.add("q", b64(&q)).map_err(pe)?;
                        format!("mutate {{ {} {{ room_id:$room name:\"c\" qs:[{{id:$q}}] }} }}", ent)
                    } else {
                        format!("mutate {{ {} {{ room_id:$room name:\"c\" }} }}", ent)
                    }
                }
                LOp::Update => {
                    p.add("id", b64(&id.unwrap())).map_err(pe)?;
                    format!("mutate {{ {} {{ id:$id name:\"u\" }} }}", ent)
                }
                _ => {
                    p.add("id", b64(&id.unwrap())).map_err(pe)?;
                    p.add("room", b64(&rooms[room as usize])).map_err(pe)?;
                    format!("mutate {{ {} {{ id:$id room_id:$room name:\"m\" }} }}", ent)
                }
            };
            let parser = peer.parse_mutation(&text)?;
            let mut q = peer.execute(parser, &mut p)?;
            let r = peer.validate(&mut q)?;
            if !r.is_empty() {
                return Err("unexpected room mutation".into());
            }
            Ok(LPeer::mutation_message(q))
        }
        LOp::Delete | LOp::RefDelete => {
            p.add("id", b64(&id.unwrap())).map_err(pe)?;
            let text = if op == LOp::Delete {
                format!("delete {{ {} {{ $id }} }}", ent)
            } else {
                p.add("q", b64(&q0.unwrap())).map_err(pe)?;
                format!("delete {{ {} {{ $id qs[$q] }} }}", ent)
            };
            let parser = DeletionParser::parse(&text, &peer.model).map(Arc::new).map_err(|e| e.to_string())?;
            let mut q = DeletionQuery::build(&mut p, parser, &peer.conn).map_err(|e| e.to_string())?;
            peer.auth.validate_deletion(&mut q).map_err(|e| e.to_string())?;
            Ok(LPeer::deletion_message(q))
        }
    }
}

/// an ingested node batch, built as `synchronise_day` + `add_nodes` + the authorisation actor do:
/// `filter_existing` against the current database, node attached with the old rowid, entity name
/// resolved, `validate_node`. None when everything is filtered out.
fn nodes_message(peer: &LPeer, nodes: Vec<Node>) -> Result<Option<WriteMessage>, String> {
    let mut set: HashSet<NodeIdentifier> = HashSet::new();
    for n in &nodes {
        set.insert(NodeIdentifier { id: n.id, mdate: n.mdate, signature: n._signature.clone() });
    }
    let filtered: Vec<NodeToInsert> = Node::filter_existing(&mut set, &peer.conn).map_err(|e| e.to_string())?;
    let mut valid = vec![];
    for mut nti in filtered {
        let Some(n) = nodes.iter().find(|n| n.id == nti.id) else { continue };
        let mut n = n.clone();
        n._local_id = nti.old_local_id;
        nti.entity_name = peer.model.name_for(&n._entity);
        nti.node = Some(n);
        if peer.auth.validate_node(&nti) {
            valid.push(nti);
        }
    }
    if valid.is_empty() {
        return Ok(None);
    }
    // deterministic order inside the message (filter_existing drains a HashSet)
    valid.sort_by(|a, b| a.id.cmp(&b.id));
    let (tx, _rx) = oneshot::channel();
    Ok(Some(WriteMessage::Nodes(valid, vec![], tx)))
}

fn tomb_message(peer: &LPeer, entries: Vec<NodeDeletionEntry>) -> WriteMessage {
    let mut v = vec![];
    for mut e in entries {
        e.entity_name = peer.model.name_for(&e.entity);
        v.push(e);
    }
    let (tx, _rx) = oneshot::channel();
    WriteMessage::DeleteNodes(v, tx)
}
fn etomb_message(peer: &LPeer, entries: Vec<EdgeDeletionEntry>) -> WriteMessage {
    let mut v = vec![];
    for mut e in entries {
        e.entity_name = peer.model.name_for(&e.src_entity);
        v.push(e);
    }
    let (tx, _rx) = oneshot::channel();
    WriteMessage::DeleteEdges(v, tx)
}

fn rel(op_day: i64, row_day: i64) -> &'static str {
    if op_day == row_day {
        "same_day"
    } else if op_day > row_day {
        "later_day"
    } else {
        "earlier_day"
    }
}

impl World {
    /// events enabled in the current state (database image `db`, queue `self.pending`)
    fn enabled(&self, db: &Db, path: &[Ev]) -> Vec<Ev> {
        let mut evs = vec![];
        let slots = self.decode(db);
        let writes = path.iter().filter(|e| e.is_write()).count() as u8;
        let curday = path
            .iter()
            .filter_map(|e| if let Ev::L { day, .. } = e { Some(*day) } else { None })
            .max()
            .unwrap_or(0);
        let can_write = writes < self.b.max_writes && (self.pending.len() as u8) < self.b.max_pending;
        // symmetry: the two rooms are interchangeable until something is stored or queued; the two P
        // slots are interchangeable until the first one is used
        let queued_write0 = self.pending.iter().any(|p| p.ev.is_write());
        let virgin = db.nodes.is_empty() && db.tombs.is_empty() && db.etombs.is_empty() && db.logs.is_empty() && !queued_write0;
        let nrooms: u8 = if virgin { 1 } else { 2 };
        let p0_used = slots[0].node.is_some() || slots[0].tombs > 0 || self.pending.iter().any(|p| p.slot == Some(0));
        if can_write {
            for s in 0..self.b.slots {
                if s == 1 && !p0_used {
                    continue;
                }
                let st = &slots[s as usize];
                let pending_create = self.pending.iter().any(|p| {
                    p.slot == Some(s)
                        && matches!(p.ev, Ev::L { op: LOp::Create, .. } | Ev::I { op: IOp::New, .. })
                });
                let unused = st.node.is_none() && st.tombs == 0 && !pending_create;
                for day in curday..NDAYS.min(curday + self.b.day_step + 1) {
                    if unused {
                        for room in 0..nrooms {
                            evs.push(Ev::L { op: LOp::Create, slot: s, room, day });
                        }
                    }
                    if st.node.is_some() {
                        evs.push(Ev::L { op: LOp::Update, slot: s, room: st.room, day });
                        evs.push(Ev::L { op: LOp::Move, slot: s, room: 1 - st.room, day });
                        evs.push(Ev::L { op: LOp::Delete, slot: s, room: st.room, day });
                        if st.has_edge {
                            evs.push(Ev::L { op: LOp::RefDelete, slot: s, room: st.room, day });
                        }
                    }
                }
                if self.b.ingest {
                    if unused {
                        for d in 0..NDAYS {
                            for room in 0..nrooms {
                                evs.push(Ev::I { op: IOp::New, slot: s, room, d1: d, d2: d });
                            }
                        }
                    }
                    if st.node.is_some() {
                        for d in st.mday..NDAYS.min(st.mday + self.b.day_step + 1) {
                            evs.push(Ev::I { op: IOp::Update, slot: s, room: st.room, d1: d, d2: d });
                            evs.push(Ev::I { op: IOp::Move, slot: s, room: 1 - st.room, d1: d, d2: d });
                            evs.push(Ev::I { op: IOp::Tomb, slot: s, room: st.room, d1: d, d2: d });
                            if st.has_edge {
                                evs.push(Ev::I { op: IOp::EdgeTomb, slot: s, room: st.room, d1: d, d2: d });
                            }
                        }
                        for d1 in (st.mday + 1)..NDAYS.min(st.mday + self.b.day_step + 1) {
                            for d2 in d1..NDAYS {
                                evs.push(Ev::I { op: IOp::UpdTomb, slot: s, room: st.room, d1, d2 });
                            }
                        }
                    }
                }
            }
        }
        let queued_write = self.pending.iter().any(|p| p.ev.is_write());
        let last_is_r = matches!(self.pending.last().map(|p| p.ev), Some(Ev::R));
        if !last_is_r && (queued_write || db.has_marks()) && (self.pending.len() as u8) < self.b.max_pending + 1 {
            evs.push(Ev::R);
        }
        for k in 1..=self.pending.len() {
            evs.push(Ev::C { k: k as u8 });
        }
        evs
    }

    /// build the writer message of a write event against the current database. Ok(None): the event
    /// produces no message (everything filtered / nothing to do).
    fn build(&mut self, ev: Ev, db: &Db) -> Result<Option<PMsg>, String> {
        let slots = self.decode(db);
        let built_on = hash64(db);
        let rooms = self.rooms;
        match ev {
            Ev::L { op, slot, room, day } => {
                let st = &slots[slot as usize];
                let overlap = self.pending.iter().any(|p| p.slot == Some(slot));
                let (class, id, q0) = match op {
                    LOp::Create => {
                        // a P row references Q0 when Q0 is visible in the same room
                        let q = &slots[2];
                        let q0 = if SLOT_ENT[slot as usize] == 0 && q.node.is_some() && q.room == room {
                            Some(uid_of(&q.node.as_ref().unwrap().id))
                        } else {
                            None
                        };
                        ("create".to_string(), None, q0)
                    }
                    _ => {
                        let Some(n) = &st.node else { return Ok(None) };
                        let r = rel(day as i64, day_idx(n.mdate));
                        let name = match op {
                            LOp::Update => "update",
                            LOp::Move => "move",
                            LOp::Delete => "delete",
                            _ => "refdelete",
                        };
                        let q0 = if op == LOp::RefDelete {
                            let e = db.edges.iter().find(|e| e.src == n.id);
                            match e {
                                Some(e) => Some(uid_of(&e.dest)),
                                None => return Ok(None),
                            }
                        } else {
                            None
                        };
                        (format!("{}_{}", name, r), Some(uid_of(&n.id)), q0)
                    }
                };
                let msg = local_message(&mut self.peer, &rooms, op, slot, room, day, id, q0)?;
                if op == LOp::Create {
                    // the identifier must be the slot's: checked on the message
                    if let WriteMessage::Mutation(q, _) = &msg {
                        let got = q.mutate_entities[0].node_to_mutate.id;
                        if got != self.ids[slot as usize][day as usize] {
                            return Err(format!("create: unexpected id for {} day {}", SLOT_NAME[slot as usize], day));
                        }
                    }
                }
                // a message built while another message for the same row is still queued works on a
                // snapshot that will be outdated when it is written: one class per marking routine
                let class = if overlap {
                    if matches!(op, LOp::Delete | LOp::RefDelete) {
                        "stale_snapshot:local_deletion".to_string()
                    } else {
                        "stale_snapshot:local_mutation".to_string()
                    }
                } else {
                    class
                };
                Ok(Some(PMsg { msg, class, slot: Some(slot), ev, built_on }))
            }
            Ev::I { op, slot, room, d1, d2 } => {
                let st = slots[slot as usize].clone();
                let overlap = self.pending.iter().any(|p| p.slot == Some(slot));
                let key = crate::light::signing_key_for(1);
                let (class, msg) = match op {
                    IOp::New => {
                        let n = self.version(slot, d1, room, d1, 0)?;
                        ("ingest_new".to_string(), nodes_message(&self.peer, vec![n])?)
                    }
                    IOp::Update | IOp::Move => {
                        let Some(cur) = &st.node else { return Ok(None) };
                        let kind = if op == IOp::Update { 1 } else { 2 };
                        let n = self.version(slot, st.cday, room, d1, kind)?;
                        let r = if day_idx(cur.mdate) == d1 as i64 { "same_day" } else { "other_day" };
                        (
                            format!("ingest_{}_{}", if kind == 1 { "update" } else { "move" }, r),
                            nodes_message(&self.peer, vec![n])?,
                        )
                    }
                    IOp::Tomb => {
                        let Some(cur) = &st.node else { return Ok(None) };
                        let node = node_of(cur);
                        let e = NodeDeletionEntry::build(uid_of(&cur.room), &node, tick(d1), &key);
                        let r = rel(d1 as i64, day_idx(cur.mdate));
                        (format!("ingest_tomb_{}", r), Some(tomb_message(&self.peer, vec![e])))
                    }
                    IOp::UpdTomb => {
                        let Some(cur) = &st.node else { return Ok(None) };
                        let n = self.version(slot, st.cday, st.room, d1, 1)?;
                        let e = NodeDeletionEntry::build(uid_of(&cur.room), &n, tick(d2), &key);
                        let r = rel(d2 as i64, d1 as i64);
                        (format!("ingest_tomb_of_newer_version_{}", r), Some(tomb_message(&self.peer, vec![e])))
                    }
                    IOp::EdgeTomb => {
                        let Some(cur) = &st.node else { return Ok(None) };
                        let Some(e) = db.edges.iter().find(|e| e.src == cur.id) else { return Ok(None) };
                        let edge = Edge {
                            src: uid_of(&e.src),
                            src_entity: e.src_entity.clone(),
                            label: e.label.clone(),
                            dest: uid_of(&e.dest),
                            cdate: e.cdate,
                            verifying_key: e.vk.clone(),
                            signature: e.sig.clone(),
                        };
                        let t = EdgeDeletionEntry::build(uid_of(&cur.room), &edge, tick(d1), &key);
                        ("ingest_edge_tomb".to_string(), Some(etomb_message(&self.peer, vec![t])))
                    }
                };
                let Some(msg) = msg else { return Ok(None) };
                let class = if overlap {
                    match op {
                        IOp::New | IOp::Update | IOp::Move => "stale_snapshot:ingested_rows".to_string(),
                        IOp::Tomb | IOp::UpdTomb => "stale_snapshot:ingested_tombstone".to_string(),
                        IOp::EdgeTomb => "stale_snapshot:ingested_reference_tombstone".to_string(),
                    }
                } else {
                    class
                };
                Ok(Some(PMsg { msg, class, slot: Some(slot), ev, built_on }))
            }
            Ev::R => Ok(Some(PMsg {
                msg: LPeer::compute_message(),
                class: "recompute".into(),
                slot: None,
                ev,
                built_on: 0,
            })),
            Ev::C { .. } => Err("build: not a queued event".into()),
        }
    }

    /// apply one event to the live state. Returns (classes of the committed batch, batch was a lone
    /// recomputation) for a commit, None otherwise. Err = machinery. `Ok(Some(..))` with
    /// `error` set when the real batch function refused the batch.
    fn apply(&mut self, ev: Ev, db: &Db) -> Result<Applied, String> {
        match ev {
            Ev::C { k } => {
                let k = k as usize;
                if k == 0 || k > self.pending.len() {
                    return Err(format!("commit({}) with {} queued", k, self.pending.len()));
                }
                let batch: Vec<PMsg> = self.pending.drain(0..k).collect();
                let classes: Vec<String> = batch.iter().map(|p| p.class.clone()).collect();
                let mut buffer: Vec<WriteMessage> = batch.into_iter().map(|p| p.msg).collect();
                let error = self.peer.commit(&mut buffer).err();
                Ok(Applied::Commit { classes, error })
            }
            _ => match self.build(ev, db)? {
                Some(m) => {
                    self.pending.push(m);
                    Ok(Applied::Queued)
                }
                None => Ok(Applied::Nothing),
            },
        }
    }
}

enum Applied {
    Queued,
    Nothing,
    Commit { classes: Vec<String>, error: Option<String> },
}

// ---------------------------------------------------------------------------------------------
// oracles
// ---------------------------------------------------------------------------------------------

fn cell_name(w: &World, c: &Cell) -> String {
    format!(
        "(R{},{},d{})",
        w.room_idx(&c.0).map(|r| r + 1).unwrap_or(9),
        if c.1 == w.ents[0] { "P" } else { "Q" },
        day_idx(c.2)
    )
}

fn hx(b: &Option<Bytes>) -> String {
    match b {
        None => "NULL".into(),
        Some(b) => hex::encode(&b[0..4.min(b.len())]),
    }
}

fn log_table(w: &World, db: &Db) -> Vec<String> {
    db.logs
        .iter()
        .map(|l| {
            format!(
                "{} n={} daily={} history={} need={}",
                cell_name(w, &(l.room.clone(), l.entity.clone(), l.date)),
                l.n,
                hx(&l.daily),
                hx(&l.history),
                l.need.unwrap_or(0)
            )
        })
        .collect()
}

fn content_table(w: &World, db: &Db) -> Vec<String> {
    let mut v = vec![];
    for n in &db.nodes {
        v.push(format!(
            "row {} in R{} cdate=d{} mdate=d{} json={}",
            w.slot_of_id(&n.id).map(|s| SLOT_NAME[s as usize]).unwrap_or("?"),
            w.room_idx(&n.room).map(|r| r + 1).unwrap_or(9),
            day_idx(n.cdate),
            day_idx(n.mdate),
            n.json.clone().unwrap_or_default()
        ));
    }
    for t in &db.tombs {
        v.push(format!(
            "tombstone {} in R{} version mdate=d{} deleted=d{}",
            w.slot_of_id(&t.id).map(|s| SLOT_NAME[s as usize]).unwrap_or("?"),
            w.room_idx(&t.room).map(|r| r + 1).unwrap_or(9),
            day_idx(t.mdate),
            day_idx(t.ddate)
        ));
    }
    for t in &db.etombs {
        v.push(format!(
            "reference tombstone {}->Q0 in R{} deleted=d{}",
            w.slot_of_id(&t.src).map(|s| SLOT_NAME[s as usize]).unwrap_or("?"),
            w.room_idx(&t.room).map(|r| r + 1).unwrap_or(9),
            day_idx(t.ddate)
        ));
    }
    v
}

impl World {
    fn record(&mut self, key: String, path: &[Ev], what: impl FnOnce(&World) -> String) {
        *self.viol_counts.entry(key.clone()).or_insert(0) += 1;
        let better = match self.witnesses.get(&key) {
            None => true,
            Some((n, p, _)) => path.len() < *n || (path.len() == *n && path < &p[..]),
        };
        if better {
            let w = what(self);
            self.witnesses.insert(key, (path.len(), path.to_vec(), w));
        }
    }

    /// the log of a peer that stores the same rows and tombstones and received them in ONE
    /// synchronisation (real batch writer, the order `synchronise_day` uses: per day and entity the
    /// reference tombstones, the node tombstones, then the rows; one recomputation at the end).
    fn fresh_state(&mut self, db: &Db) -> Result<Arc<Db>, String> {
        let ch = db.content_hash();
        if let Some(f) = self.fresh_cache.get(&ch) {
            return Ok(f.clone());
        }
        copy_db(&self.pristine, &mut self.fresh.conn)?;
        let mut cells: BTreeSet<(Bytes, i64, String)> = BTreeSet::new();
        for (c, _) in db.cells() {
            cells.insert((c.0, c.2, c.1));
        }
        for (room, date, entity) in cells {
            let et: Vec<EdgeDeletionEntry> = db
                .etombs
                .iter()
                .filter(|t| t.room == room && t.src_entity == entity && day_of(t.ddate) == date)
                .map(|t| EdgeDeletionEntry {
                    room_id: uid_of(&t.room),
                    src: uid_of(&t.src),
                    src_entity: t.src_entity.clone(),
                    dest: uid_of(&t.dest),
                    label: t.label.clone(),
                    cdate: t.cdate,
                    deletion_date: t.ddate,
                    verifying_key: t.vk.clone(),
                    signature: t.sig.clone(),
                    entity_name: None,
                })
                .collect();
            if !et.is_empty() {
                let m = etomb_message(&self.fresh, et);
                self.fresh.commit(&mut vec![m])?;
                self.out.transitions += 1;
            }
            let nt: Vec<NodeDeletionEntry> = db
                .tombs
                .iter()
                .filter(|t| t.room == room && t.entity == entity && day_of(t.ddate) == date)
                .map(|t| NodeDeletionEntry {
                    room_id: uid_of(&t.room),
                    id: uid_of(&t.id),
                    entity: t.entity.clone(),
                    mdate: t.mdate,
                    deletion_date: t.ddate,
                    verifying_key: t.vk.clone(),
                    signature: t.sig.clone(),
                    entity_name: None,
                })
                .collect();
            if !nt.is_empty() {
                let m = tomb_message(&self.fresh, nt);
                self.fresh.commit(&mut vec![m])?;
                self.out.transitions += 1;
            }
            let nodes: Vec<Node> = db
                .nodes
                .iter()
                .filter(|n| n.room == room && n.entity == entity && day_of(n.mdate) == date)
                .map(node_of)
                .collect();
            if !nodes.is_empty() {
                if let Some(m) = nodes_message(&self.fresh, nodes)? {
                    self.fresh.commit(&mut vec![m])?;
                    self.out.transitions += 1;
                }
            }
        }
        self.fresh.compute_daily_log()?;
        self.out.transitions += 1;
        let f = Arc::new(read_db(&self.fresh.conn, &self.ents)?);
        self.fresh_cache.insert(ch, f.clone());
        Ok(f)
    }

    /// oracle (i) as an invariant after every batch: a cell is marked for recomputation or its stored
    /// summary equals the harness' recomputation. A cell that newly breaks is attributed to ONE
    /// message (the batch is replayed message by message: marks do not depend on the split), then
    /// followed to the next barrier (queue flushed, recomputation, real code) and reported there.
    /// `path` includes the commit event; `clean_at` is valid for the parent path.
    fn commit_invariant(
        &mut self,
        before: &Db,
        after: &Db,
        classes: &[String],
        path: &[Ev],
        clean_at: usize,
    ) -> Result<(bool, bool), String> {
        let was = wrong_cells(before, true);
        let now = wrong_cells(after, true);
        let fresh_bad: Vec<Cell> = now.keys().filter(|c| !was.contains_key(*c)).cloned().collect();
        self.out.evaluations += 1;
        if fresh_bad.is_empty() {
            return Ok((false, false));
        }
        let mut blame: BTreeMap<Cell, String> = BTreeMap::new();
        if classes.len() == 1 {
            for c in &fresh_bad {
                blame.insert(c.clone(), classes[0].clone());
            }
        } else {
            let parent = &path[..path.len() - 1];
            self.restore(parent, clean_at.min(parent.len()))?;
            let mut prev: BTreeSet<Cell> = was.keys().cloned().collect();
            let mut cur = before.clone();
            for cl in classes {
                self.apply(Ev::C { k: 1 }, &cur)?;
                self.out.transitions += 1;
                cur = read_db(&self.peer.conn, &self.ents)?;
                let wj: BTreeSet<Cell> = wrong_cells(&cur, true).keys().cloned().collect();
                for c in &fresh_bad {
                    if wj.contains(c) && !prev.contains(c) {
                        blame.insert(c.clone(), cl.clone());
                    }
                }
                prev = wj;
            }
            if &cur != after && !classes.iter().any(|c| c == "recompute") {
                self.out.count("split_batch_differs_from_batch");
            }
        }
        // follow to the barrier
        let mut full: Vec<Ev> = path.to_vec();
        let mut cur = after.clone();
        if !self.pending.is_empty() {
            let e = Ev::C { k: self.pending.len() as u8 };
            self.apply(e, &cur)?;
            full.push(e);
            cur = read_db(&self.peer.conn, &self.ents)?;
        }
        self.apply(Ev::R, &cur)?;
        full.push(Ev::R);
        self.apply(Ev::C { k: 1 }, &cur)?;
        full.push(Ev::C { k: 1 });
        self.out.transitions += 3;
        let end = read_db(&self.peer.conn, &self.ents)?;
        let at_barrier = wrong_cells(&end, false);
        let mut reported = false;
        for c in fresh_bad {
            if let Some(col) = at_barrier.get(&c) {
                let cls = blame.get(&c).cloned().unwrap_or_else(|| "unattributed".to_string());
                let key = format!("{}|{}|different-content", cls, col);
                let col = *col;
                let endc = end.clone();
                let fullc = full.clone();
                self.record(key, &full, move |w| {
                    format!(
                        "after [{}] and a recomputation barrier the log row {} is stale ({}): stored {:?}, content {:?}",
                        path_str(&fullc),
                        cell_name(w, &c),
                        col,
                        log_table(w, &endc),
                        content_table(w, &endc)
                    )
                });
                reported = true;
            } else {
                self.out.count("healed_before_barrier");
            }
        }
        // the live state moved: the caller restores
        Ok((true, reported))
    }

    /// oracles at a barrier (state `s`, reached from `p` by a lone recomputation)
    fn barrier_oracles(&mut self, p: &Db, s: &Db, path: &[Ev]) -> Result<Vec<String>, String> {
        let mut verdict: Vec<String> = vec![];
        self.out.evaluations += 1;
        // (i) stored counts and hashes equal the harness' recomputation, no mark left
        let bad = wrong_cells(s, false);
        let inherited = wrong_cells(p, true);
        for (c, col) in &bad {
            if inherited.contains_key(c) {
                verdict.push(format!("i:inherited:{}", col));
                continue;
            }
            verdict.push(format!("i:recompute:{}", col));
            let key = format!("recompute|{}|different-content", col);
            let (cc, colc) = (c.clone(), *col);
            self.record(key, path, |w| {
                format!(
                    "after [{}] the recomputation left the log row {} wrong ({}): stored {:?}, content {:?}",
                    path_str(path),
                    cell_name(w, &cc),
                    colc,
                    log_table(w, s),
                    content_table(w, s)
                )
            });
        }
        // (ii) same content => same log: compare with the peer that received this content in one go
        let f = self.fresh_state(s)?;
        if f.content_hash() != s.content_hash() {
            verdict.push("ii:fresh_content_differs".into());
            // the reference could not be built with the same content (for instance a duplicated row):
            // no comparison possible, counted
            self.out.count("fresh_peer_content_differs");
        } else {
            let fbad = wrong_cells(&f, false);
            for (c, col) in &fbad {
                verdict.push(format!("i:fresh:{}", col));
                let key = format!("fresh_sync|{}|different-content", col);
                let (cc, colc, fc) = (c.clone(), *col, f.clone());
                self.record(key, path, move |w| {
                    format!(
                        "a fresh peer that ingested the content of [{}] in one synchronisation has a wrong log row {} ({}): {:?}",
                        path_str(path),
                        cell_name(w, &cc),
                        colc,
                        log_table(w, &fc)
                    )
                });
            }
            for r in 0..2u8 {
                let room = self.rooms[r as usize].to_vec();
                let diffs = self.diff_room(p, s, &f, &room);
                for (key, detail, is_new) in diffs {
                    if !is_new {
                        verdict.push(format!("ii:inherited:{}", key));
                        continue;
                    }
                    verdict.push(format!("ii:{}", key));
                    let fc = f.clone();
                    self.record(key, path, move |w| {
                        format!(
                            "same rows and tombstones, different log ({}): after [{}] this peer has {:?}; a peer that received the same content in one synchronisation has {:?}; content {:?}",
                            detail,
                            path_str(path),
                            log_table(w, s),
                            log_table(w, &fc),
                            content_table(w, s)
                        )
                    });
                }
                // bookkeeping for the global grouping (ii) and the injectivity check (iii)
                if bad.is_empty() {
                    let k = (r, s.room_content_hash(&room), s.room_log_hash(&room));
                    self.note_group(k, path);
                }
                if fbad.is_empty() {
                    let k = (r, f.room_content_hash(&room), f.room_log_hash(&room));
                    let mut fp = path.to_vec();
                    fp.push(Ev::C { k: 0 }); // marker: "the fresh peer of this path"
                    self.note_group(k, &fp);
                }
            }
        }
        if verdict.is_empty() {
            verdict.push("ok".into());
        }
        verdict.sort();
        verdict.dedup();
        Ok(verdict)
    }

    fn note_group(&mut self, k: (u8, u64, u64), path: &[Ev]) {
        match self.groups.get(&k) {
            Some(p) if p.len() <= path.len() => {}
            _ => {
                self.groups.insert(k, path.to_vec());
            }
        }
    }

    /// differences between the room log of `s` and of the fresh peer `f`; each with a root-cause label
    /// computed from the pass that produced `s` out of `p`, and whether this pass created it
    fn diff_room(&self, p: &Db, s: &Db, f: &Db, room: &[u8]) -> Vec<(String, String, bool)> {
        let mut res = vec![];
        let sl = s.room_log(room);
        let fl = f.room_log(room);
        let pl = p.room_log(room);
        let cells = s.cells();
        // rows the pass selected, in its iteration order (entity, date)
        let mut selected: Vec<&LogRow> = vec![];
        let ents: BTreeSet<&String> = pl.iter().map(|l| &l.entity).collect();
        for e in ents {
            let chain: Vec<&&LogRow> = pl.iter().filter(|l| &l.entity == e).collect();
            let Some(first_dirty) = chain.iter().filter(|l| l.dirty()).map(|l| l.date).min() else { continue };
            let anchor = chain.iter().filter(|l| l.date < first_dirty).map(|l| l.date).max().unwrap_or(first_dirty);
            for l in chain {
                if l.date >= anchor {
                    selected.push(*l);
                }
            }
        }
        selected.sort_by(|a, b| (&a.entity, a.date).cmp(&(&b.entity, b.date)));
        let find = |v: &Vec<&LogRow>, e: &String, d: i64| -> Option<LogRow> {
            v.iter().find(|l| &l.entity == e && l.date == d).map(|l| (*l).clone())
        };
        let content_empty = |e: &String, d: i64| -> bool {
            cells.get(&(room.to_vec(), e.clone(), d)).map(|v| v.is_empty()).unwrap_or(true)
        };
        for l in &sl {
            let fr = find(&fl, &l.entity, l.date);
            let pr = find(&pl, &l.entity, l.date);
            let in_sel = selected.iter().any(|x| x.entity == l.entity && x.date == l.date);
            let was_dirty = pr.as_ref().map(|x| x.dirty()).unwrap_or(false);
            let name = cell_name(self, &(room.to_vec(), l.entity.clone(), l.date));
            match fr {
                None => {
                    let label = if content_empty(&l.entity, l.date) { "emptied_cell_kept" } else { "row_unknown_to_fresh_peer" };
                    res.push((
                        format!("recompute[{}]|row_set|same-content", label),
                        format!("row {} exists here only", name),
                        was_dirty,
                    ));
                }
                Some(fr) => {
                    if fr.n != l.n {
                        res.push((
                            "recompute|entry_number|same-content".to_string(),
                            format!("entry_number of {} differs", name),
                            was_dirty,
                        ));
                    } else if fr.daily != l.daily {
                        res.push((
                            "recompute|daily_hash|same-content".to_string(),
                            format!("daily_hash of {} differs", name),
                            was_dirty,
                        ));
                    }
                    if fr.history != l.history {
                        // created by this pass: the pass computed the row or changed its history
                        let changed = pr.as_ref().map(|x| x.history != l.history).unwrap_or(true);
                        let is_new = was_dirty || changed;
                        // shape of the pass for this chain, objective features of the state before the
                        // pass, one label by priority
                        let chain_p: Vec<&&LogRow> = pl.iter().filter(|x| x.entity == l.entity).collect();
                        let first_dirty = chain_p.iter().filter(|x| x.dirty()).map(|x| x.date).min();
                        let emptied = sl.iter().any(|x| x.entity == l.entity && x.n == 0);
                        let other_entity = sl.iter().any(|x| x.entity != l.entity);
                        let earlier_clean = first_dirty.map(|d| chain_p.iter().any(|x| !x.dirty() && x.date < d)).unwrap_or(false);
                        let later_clean = first_dirty.map(|d| chain_p.iter().any(|x| !x.dirty() && x.date > d)).unwrap_or(false);
                        let shape = if emptied {
                            "emptied_day_in_chain"
                        } else if other_entity {
                            "several_entities_in_room"
                        } else if earlier_clean {
                            "earlier_days_not_recomputed"
                        } else if later_clean {
                            "later_days_not_recomputed"
                        } else {
                            "whole_chain_recomputed"
                        };
                        let _ = in_sel;
                        res.push((
                            format!("recompute[{}]|history_hash|same-content", shape),
                            format!("history_hash of {} differs ({} here)", name, if l.history.is_none() { "NULL" } else { "a value" }),
                            is_new,
                        ));
                    }
                }
            }
        }
        for l in &fl {
            if find(&sl, &l.entity, l.date).is_none() {
                let name = cell_name(self, &(room.to_vec(), l.entity.clone(), l.date));
                // a missing row with content is reported by oracle (i); here: rows without content
                res.push((
                    "fresh_sync[row_only_on_fresh_peer]|row_set|same-content".to_string(),
                    format!("row {} exists on the fresh peer only", name),
                    true,
                ));
            }
        }
        res
    }
}

fn in_selected(sel: &[&LogRow], x: &LogRow) -> bool {
    sel.iter().any(|y| y.entity == x.entity && y.date == x.date)
}

// ---------------------------------------------------------------------------------------------
// exploration
// ---------------------------------------------------------------------------------------------

impl World {
    fn state_key(&self, db: &Db, path: &[Ev]) -> u64 {
        let curday = path
            .iter()
            .filter_map(|e| if let Ev::L { day, .. } = e { Some(*day) } else { None })
            .max()
            .unwrap_or(0);
        let pend: Vec<(Ev, u64)> = self.pending.iter().map(|p| (p.ev, p.built_on)).collect();
        hash64(&(db, curday, pend))
    }

    /// bring the live state back to the state after `path`, using the snapshot taken at the last
    /// prefix with an empty queue (`clean_at` = its length) and replaying the rest
    fn restore(&mut self, path: &[Ev], clean_at: usize) -> Result<(), String> {
        let (snaps, peer) = (&self.snaps, &mut self.peer);
        copy_db(&snaps[clean_at], &mut peer.conn)?;
        self.pending.clear();
        for ev in &path[clean_at..] {
            let db = read_db(&self.peer.conn, &self.ents)?;
            self.apply(*ev, &db)?;
            self.out.transitions += 1;
        }
        Ok(())
    }

    /// apply `ev` in the live state `db` (after `path`), run the oracles of the transition; returns
    /// the new database image, or None when the event did nothing
    fn step(&mut self, db: &Db, path: &mut Vec<Ev>, ev: Ev, clean_at: usize) -> Result<Option<Db>, String> {
        let applied = self.apply(ev, db)?;
        self.out.transitions += 1;
        self.transitions_total += 1;
        match applied {
            Applied::Nothing => {
                self.out.count("event:filtered_out");
                Ok(None)
            }
            Applied::Queued => {
                path.push(ev);
                Ok(Some(db.clone()))
            }
            Applied::Commit { classes, error } => {
                path.push(ev);
                if let Some(e) = error {
                    self.out.count(&format!("batch_refused:{}", classes.join("+")));
                    if self.out.notes.len() < 5 {
                        self.out.notes.push(format!("batch refused after [{}]: {}", path_str(path), e));
                    }
                }
                let after = read_db(&self.peer.conn, &self.ents)?;
                let lone_recompute = classes.len() == 1 && classes[0] == "recompute" && self.pending.is_empty();
                let mut verdict: Vec<String>;
                if lone_recompute {
                    verdict = self.barrier_oracles(db, &after, path)?;
                    self.out.count("barrier_states");
                } else {
                    let p2 = path.clone();
                    let (moved, reported) = self.commit_invariant(db, &after, &classes, &p2, clean_at)?;
                    verdict = vec![if reported {
                        "commit:stale".to_string()
                    } else if moved {
                        "commit:healed_before_barrier".to_string()
                    } else {
                        "commit:ok".to_string()
                    }];
                    if moved {
                        // the look-ahead moved the live state: bring it back
                        // (path[..] includes ev; the snapshot of the clean prefix is still valid)
                        let ca = clean_at.min(path.len());
                        self.restore(&p2, ca)?;
                    }
                }
                for v in &verdict {
                    self.out.count(&format!("verdict:{}", v.split('|').next().unwrap_or(v)));
                }
                let mut cls = classes.clone();
                cls.sort();
                verdict.sort();
                self.out.nontrivial(&(cls, verdict));
                Ok(Some(after))
            }
        }
    }

    /// explore everything reachable from the live state (`db`, after `path`) by recompute requests
    /// and commits only; every state met is handed to the next level (where writes are applied)
    fn closure(&mut self, db: &Db, path: &mut Vec<Ev>, clean_at: usize) -> Result<(), String> {
        let key = self.state_key(db, path);
        self.out.states.insert(key);
        if !self.seen.insert(key) {
            self.out.count("search:state_met_again");
            return Ok(());
        }
        self.out.count("search:states_expanded");
        if self.collect_next {
            self.next.push((key, path.clone()));
        }
        self.last_path = path.clone();
        let mut clean_at = clean_at;
        if self.pending.is_empty() {
            let (snaps, peer) = (&mut self.snaps, &self.peer);
            copy_db(&peer.conn, &mut snaps[path.len()])?;
            clean_at = path.len();
        }
        let evs: Vec<Ev> = self.enabled(db, path).into_iter().filter(|e| !e.is_write()).collect();
        let mut first = true;
        for ev in evs {
            if !first {
                self.restore(path, clean_at)?;
            }
            first = false;
            let n = path.len();
            if let Some(ndb) = self.step(db, path, ev, clean_at)? {
                if self.out.samples.len() < 2 && path.len() >= 6 && self.pending.is_empty() {
                    self.out.samples.push(json!(path_str(path)));
                }
                self.closure(&ndb, path, clean_at)?;
            }
            path.truncate(n);
        }
        Ok(())
    }

    /// one entry state of the current level: replay its path, apply every enabled write, explore the
    /// closure of each child
    fn expand_entry(&mut self, entry: &[Ev]) -> Result<(), String> {
        copy_db(&self.pristine, &mut self.peer.conn)?;
        self.pending.clear();
        let (snaps, peer) = (&mut self.snaps, &self.peer);
        copy_db(&peer.conn, &mut snaps[0])?;
        let mut clean_at = 0;
        let mut path: Vec<Ev> = vec![];
        for ev in entry {
            let db = read_db(&self.peer.conn, &self.ents)?;
            match self.apply(*ev, &db)? {
                Applied::Nothing => return Err(format!("entry path does not replay: [{}]", path_str(entry))),
                _ => {}
            }
            self.out.transitions += 1;
            path.push(*ev);
            if self.pending.is_empty() {
                let (snaps, peer) = (&mut self.snaps, &self.peer);
                copy_db(&peer.conn, &mut snaps[path.len()])?;
                clean_at = path.len();
            }
        }
        let db = read_db(&self.peer.conn, &self.ents)?;
        let evs: Vec<Ev> = self.enabled(&db, &path).into_iter().filter(|e| e.is_write()).collect();
        let mut first = true;
        for ev in evs {
            if !first {
                self.restore(&path, clean_at)?;
            }
            first = false;
            let n = path.len();
            if let Some(ndb) = self.step(&db, &mut path, ev, clean_at)? {
                self.closure(&ndb, &mut path, clean_at)?;
            }
            path.truncate(n);
        }
        Ok(())
    }
}

// ---------------------------------------------------------------------------------------------
// shard result files (groups and witnesses are merged by the parent)
// ---------------------------------------------------------------------------------------------

#[derive(Serialize, Deserialize, Default)]
struct ShardFile {
    next: Vec<(u64, Vec<Ev>)>,
    collect_next: bool,
    groups: Vec<((u8, u64, u64), Vec<Ev>)>,
    witnesses: Vec<(String, Vec<Ev>, String)>,
    counts: Vec<(String, u64)>,
}

fn shard_dir() -> String {
    std::env::var("C09_SHARD_DIR").unwrap_or_else(|_| "/tmp".into())
}

fn meta(passes: &[Bounds]) -> CheckMeta {
    let b = &passes[0];
    CheckMeta {
        prop: "C09",
        level: "model_checking",
        rule: "E-STATE, depth first with database snapshots, bounded by the number of writes and the queue length; recompute requests and commits are explicit events and free of the write bound, so every split of the queued messages into batches and every placement of a recomputation is explored. State = image of _node/_edge/both deletion logs/_daily_log + clock day + queued messages (with the image they were built on). Oracles: (i) after every batch a cell is marked or equals the harness' own count/blake3 over the ordered signatures, followed to the next barrier; at a barrier no mark and no wrong cell; (ii) at every barrier the room log equals the log of a fresh peer that ingested the same rows and tombstones in one synchronisation through the real batch writer (hence all states of one content group are compared with one reference), plus the direct grouping content -> logs; (iii) log -> content is injective over all barrier states. Non-trivial = distinct (classes of the committed batch, verdict vector).".into(),
        bounds: json!({"rooms": 2, "entities": 2, "row_slots": b.slots, "days": NDAYS, "searches": passes.iter().map(|b| json!({"max_writes": b.max_writes, "max_queued_writes": b.max_pending})).collect::<Vec<_>>(), "ingested_messages": b.ingest, "local_ops": ["create","update","move","delete","refdelete"], "ingest_ops": ["new","update","move","tomb","tomb_of_newer_version","edge_tomb"], "shards": NSHARDS}),
        assumptions: vec![
            "light world: the real phase functions are called in pipeline order by the harness (no actor, no thread); the full service is exercised by C03's cross-peer assertion".into(),
            "one identity (the same user on several devices) with wildcard rights in both rooms: rights never refuse a write".into(),
            "the clock is harness owned: every local write of a day happens at 01:00 of that day; local days never go backwards; ingested rows carry any day".into(),
            "content = _node rows + node tombstones + reference tombstones of the room; _edge rows are not part of the compared content (the log does not summarise them)".into(),
            "ingested tombstones skip validate_node_deletions (private, rights only)".into(),
        ],
        exhaustive_claim: true,
    }
}

fn run_shard(args: &Args, i: usize, n: usize) -> i32 {
    let b = Bounds::for_tier(args.tier);
    let level: usize = std::env::var("C09_LEVEL").ok().and_then(|x| x.parse().ok()).unwrap_or(0);
    let mut out_final: Outcome;
    let mut file = ShardFile::default();
    match World::new(b.clone()) {
        Err(e) => {
            out_final = Outcome::default();
            out_final.machinery_errors.push(format!("world: {}", e));
        }
        Ok(mut w) => {
            w.collect_next = level + 1 < b.max_writes as usize;
            let res: Result<(), String> = (|| {
                let fpath = format!("{}/c09-frontier-{}.bin", shard_dir(), level);
                let frontier: Vec<(u64, Vec<Ev>)> = bincode::deserialize(&std::fs::read(&fpath).map_err(|e| format!("{}: {}", fpath, e))?)
                    .map_err(|e| e.to_string())?;
                for (idx, (_k, entry)) in frontier.iter().enumerate() {
                    if idx % n != i {
                        continue;
                    }
                    w.expand_entry(entry)?;
                }
                Ok(())
            })();
            if let Err(e) = res {
                w.out.machinery_errors.push(format!("level {} shard {}: {} (last path [{}])", level, i, e, path_str(&w.last_path)));
            }
            if (i == 0 || i == n - 1) && !w.last_path.is_empty() {
                w.out.samples.push(json!(path_str(&w.last_path)));
            }
            w.out.outcomes.insert("search:fresh_peers_built".into(), w.fresh_cache.len() as u64);
            if std::env::var("C09_DEBUG").is_ok() {
                for (k, (_, p, _)) in &w.witnesses {
                    eprintln!("{:>6} {:<100} {}", w.viol_counts.get(k).copied().unwrap_or(0), k, path_str(p));
                }
            }
            file.next = std::mem::take(&mut w.next);
            file.groups = w.groups.iter().map(|(k, v)| (*k, v.clone())).collect();
            file.witnesses = w.witnesses.iter().map(|(k, (_, p, what))| (k.clone(), p.clone(), what.clone())).collect();
            file.counts = w.viol_counts.iter().map(|(k, v)| (k.clone(), *v)).collect();
            out_final = w.out;
        }
    }
    let path = format!("{}/c09-shard-{}-{}.bin", shard_dir(), level, i);
    if let Err(e) = std::fs::write(&path, bincode::serialize(&file).unwrap()) {
        out_final.machinery_errors.push(format!("cannot write {}: {}", path, e));
    }
    emit_shard_outcome(&out_final);
    0
}

/// re-run one recorded case twice and print what happens
fn replay(args: &Args, file: &str) -> i32 {
    let text = match std::fs::read_to_string(file) {
        Ok(t) => t,
        Err(e) => {
            eprintln!("machinery error: {}", e);
            return 2;
        }
    };
    let v: serde_json::Value = serde_json::from_str(&text).expect("json");
    let r = if v.get("replay").is_some() { &v["replay"] } else { &v };
    let events: Vec<Ev> = serde_json::from_value(r["events"].clone()).expect("events");
    let b: Bounds = serde_json::from_value(r["bounds"].clone()).unwrap_or_else(|_| Bounds::for_tier(args.tier));
    let mut prints: Vec<String> = vec![];
    for round in 0..2 {
        let mut w = match World::new(Bounds { max_writes: 99, max_pending: 99, ..b.clone() }) {
            Ok(w) => w,
            Err(e) => {
                eprintln!("machinery error: {}", e);
                return 2;
            }
        };
        let mut lines: Vec<String> = vec![];
        let res: Result<(), String> = (|| {
            let mut db = read_db(&w.peer.conn, &w.ents)?;
            let mut before_last = db.clone();
            for ev in &events {
                if let Ev::C { k: 0 } = ev {
                    continue;
                }
                let a = w.apply(*ev, &db)?;
                let d = match a {
                    Applied::Nothing => "no message (filtered out)".to_string(),
                    Applied::Queued => format!("queued as {}", w.pending.last().map(|p| p.class.clone()).unwrap_or_default()),
                    Applied::Commit { classes, error } => format!("batch [{}] {}", classes.join(", "), error.map(|e| format!("REFUSED {}", e)).unwrap_or("committed".into())),
                };
                lines.push(format!("  {:<40} {}", ev.short(), d));
                before_last = db;
                db = read_db(&w.peer.conn, &w.ents)?;
            }
            // bring to a barrier if the recorded case does not end on one
            if !w.pending.is_empty() || db.has_marks() {
                if !w.pending.is_empty() {
                    let k = w.pending.len() as u8;
                    w.apply(Ev::C { k }, &db)?;
                    db = read_db(&w.peer.conn, &w.ents)?;
                }
                w.apply(Ev::R, &db)?;
                w.apply(Ev::C { k: 1 }, &db)?;
                before_last = db;
                db = read_db(&w.peer.conn, &w.ents)?;
                lines.push("  (flushed the queue and recomputed)".into());
            }
            lines.push(format!("content: {:?}", content_table(&w, &db)));
            lines.push(format!("log    : {:?}", log_table(&w, &db)));
            let bad = wrong_cells(&db, false);
            for (c, col) in &bad {
                lines.push(format!("ORACLE (i): row {} wrong: {}", cell_name(&w, c), col));
            }
            let f = w.fresh_state(&db)?;
            lines.push(format!("fresh  : {:?}", log_table(&w, &f)));
            if std::env::var("C09_DEBUG").is_ok() {
                for (n, c) in [("subject", &w.peer.conn), ("fresh", &w.fresh.conn)] {
                    let rows = crate::world::sql_rows_conn(c, "SELECT hex(substr(room_id,1,3)), entity, date, entry_number, hex(substr(daily_hash,1,4)), hex(substr(history_hash,1,4)), need_recompute FROM _daily_log ORDER BY room_id, entity, date")?;
                    for r in rows {
                        lines.push(format!("   raw {} {:?}", n, r));
                    }
                }
            }
            if f.content_hash() != db.content_hash() {
                lines.push("fresh peer could not be given the same content".into());
            } else {
                for r in 0..2usize {
                    let room = w.rooms[r].to_vec();
                    for (key, detail, is_new) in w.diff_room(&before_last, &db, &f, &room) {
                        lines.push(format!("ORACLE (ii): {} [{}]{}", detail, key, if is_new { "" } else { " (inherited)" }));
                    }
                }
            }
            if bad.is_empty() && lines.iter().all(|l| !l.starts_with("ORACLE")) {
                lines.push("no difference".into());
            }
            Ok(())
        })();
        if let Err(e) = res {
            eprintln!("machinery error: {}", e);
            return 2;
        }
        println!("replay round {}:", round);
        for l in &lines {
            println!("{}", l);
        }
        prints.push(lines.join("\n"));
    }
    if prints[0] != prints[1] {
        eprintln!("machinery error: the two replay rounds differ");
        return 2;
    }
    println!("replay: both rounds identical");
    0
}

pub fn run(args: &Args) -> i32 {
    if let Some(p) = &args.replay {
        return replay(args, p);
    }
    if let Some((i, n)) = args.shard {
        return run_shard(args, i, n);
    }
    let start = Instant::now();
    let dir = scratch_root();
    let _g = ScratchGuard(dir.clone());
    let _ = std::fs::create_dir_all(&dir);
    std::env::set_var("C09_SHARD_DIR", dir.to_string_lossy().to_string());
    // breadth first by the number of writes: level j expands every distinct state that has used j
    // writes (each (state, write) pair is executed once), shards explore the commit / recompute
    // closures of the children and hand the states met to level j+1
    let mut out = Outcome::default();
    let mut groups: BTreeMap<(u8, u64, u64), Vec<Ev>> = BTreeMap::new();
    let mut witnesses: BTreeMap<String, (Vec<Ev>, String)> = BTreeMap::new();
    let mut counts: BTreeMap<String, u64> = BTreeMap::new();
    let passes = Bounds::passes(args.tier);
    let mut frontier: Vec<(u64, Vec<Ev>)> = vec![];
    for (pi, b) in passes.iter().enumerate() {
    std::env::set_var("C09_PASS", pi.to_string());
    frontier = vec![(0, vec![])];
    let mut known_states: HashSet<u64> = HashSet::new();
    for level in 0..b.max_writes as usize {
        let fpath = format!("{}/c09-frontier-{}.bin", dir.to_string_lossy(), level);
        if let Err(e) = std::fs::write(&fpath, bincode::serialize(&frontier).unwrap()) {
            out.machinery_errors.push(format!("cannot write {}: {}", fpath, e));
            break;
        }
        std::env::set_var("C09_LEVEL", level.to_string());
        out.outcomes.insert(format!("search:pass_{}:entry_states_level_{}", pi, level), frontier.len() as u64);
        let lo = run_sharded(args, NSHARDS);
        let failed = !lo.machinery_errors.is_empty();
        out.merge(lo);
        let mut next: BTreeMap<u64, Vec<Ev>> = BTreeMap::new();
        for i in 0..NSHARDS {
            let path = format!("{}/c09-shard-{}-{}.bin", dir.to_string_lossy(), level, i);
            match std::fs::read(&path).map_err(|e| e.to_string()).and_then(|b| bincode::deserialize::<ShardFile>(&b).map_err(|e| e.to_string())) {
                Ok(f) => {
                    for (k, p) in f.next {
                        if known_states.contains(&k) {
                            continue;
                        }
                        match next.get(&k) {
                            Some(q) if (q.len(), &q[..]) <= (p.len(), &p[..]) => {}
                            _ => {
                                next.insert(k, p);
                            }
                        }
                    }
                    for (k, p) in f.groups {
                        match groups.get(&k) {
                            Some(q) if (q.len(), &q[..]) <= (p.len(), &p[..]) => {}
                            _ => {
                                groups.insert(k, p);
                            }
                        }
                    }
                    for (k, p, what) in f.witnesses {
                        match witnesses.get(&k) {
                            Some((q, _)) if (q.len(), &q[..]) <= (p.len(), &p[..]) => {}
                            _ => {
                                witnesses.insert(k, (p, what));
                            }
                        }
                    }
                    for (k, c) in f.counts {
                        *counts.entry(k).or_insert(0) += c;
                    }
                }
                Err(e) => out.machinery_errors.push(format!("shard file {}: {}", path, e)),
            }
            let _ = std::fs::remove_file(&path);
        }
        let _ = std::fs::remove_file(&fpath);
        if failed {
            break;
        }
        known_states.extend(next.keys().copied());
        let mut v: Vec<(u64, Vec<Ev>)> = next.into_iter().collect();
        v.sort_by(|a, b| (a.1.len(), &a.1, a.0).cmp(&(b.1.len(), &b.1, b.0)));
        frontier = v;
    }
    }
    let _ = &frontier;
    // (ii) direct grouping: content -> set of logs; (iii) log -> set of contents
    let mut by_content: BTreeMap<(u8, u64), Vec<(u64, &Vec<Ev>)>> = BTreeMap::new();
    let mut by_log: BTreeMap<(u8, u64), Vec<(u64, &Vec<Ev>)>> = BTreeMap::new();
    for ((r, c, l), p) in &groups {
        by_content.entry((*r, *c)).or_default().push((*l, p));
        by_log.entry((*r, *l)).or_default().push((*c, p));
    }
    let multi = by_content.values().filter(|v| v.len() > 1).count();
    *out.outcomes.entry("groups:content".into()).or_insert(0) = by_content.len() as u64;
    *out.outcomes.entry("groups:content_with_several_logs".into()).or_insert(0) = multi as u64;
    *out.outcomes.entry("groups:logs".into()).or_insert(0) = by_log.len() as u64;
    let describe = |p: &Vec<Ev>| -> String {
        if let Some(Ev::C { k: 0 }) = p.last() {
            format!("fresh peer of [{}]", path_str(&p[..p.len() - 1]))
        } else {
            format!("[{}]", path_str(p))
        }
    };
    for ((_r, _l), v) in &by_log {
        if v.len() > 1 {
            let key = "collision|room_log|different-content".to_string();
            *counts.entry(key.clone()).or_insert(0) += 1;
            let mut both: Vec<Ev> = v[0].1.clone();
            both.retain(|e| !matches!(e, Ev::C { k: 0 }));
            let what = format!("two different contents of a room have the same log: {} and {}", describe(v[0].1), describe(v[1].1));
            witnesses.entry(key).or_insert((both, what));
        }
    }
    // every content group with several logs must have been reported by the per-state comparison
    if multi > 0 && !witnesses.keys().any(|k| k.ends_with("same-content")) {
        out.machinery_errors.push("content groups with several logs but no same-content finding".into());
    }
    out.violations.clear();
    for (k, (p, what)) in &witnesses {
        let n = counts.get(k).copied().unwrap_or(1);
        out.violations.push(Violation {
            key: k.clone(),
            what: what.clone(),
            replay: json!({"events": p, "bounds": passes[0], "path": path_str(p)}),
        });
        out.outcomes.insert(format!("viol:{}", k), n);
        if out.samples.len() < 12 {
            out.samples.push(json!({"known_key": k, "case": path_str(p)}));
        }
    }
    out.notes.push(format!(
        "content groups {} (with several logs: {}), distinct room logs {}",
        by_content.len(),
        multi,
        by_log.len()
    ));
    let m = meta(&passes);
    let code = finish(args, &m, &out, start);
    let mut keys: Vec<(&String, &u64)> = out.outcomes.iter().collect();
    keys.sort();
    for (k, v) in keys {
        println!("  {:<90} {}", k, v);
    }
    code
}
