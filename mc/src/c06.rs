//! C06 - "A signature binds exactly one row and only its author can produce it".
//!
//! Part A (E-SHAPE, digest injectivity). `c06_model.rs` holds a layout model of the four signed
//! digests. For EVERY row of a bounded domain per kind:
//!   * conformance, no hook: blake3 of the model's concatenation is signed with a harness key
//!     (ed25519-dalek directly), the signature is put in the real struct and the real `verify()`
//!     must accept it iff the model says the row is acceptable; the real `sign()` must produce the
//!     very same signature (ed25519 is deterministic: equal signature <=> equal digest); the real
//!     `verify()` must refuse the signature of a digest that differs in one bit; bincode of the real
//!     struct must be the model's wire rendering (the model has every field that is synchronised);
//!   * aliases: every row of every kind whose signed bytes are the same as this row's
//!     (`parses`: every presence pattern x every split between variable fields, no length bound on
//!     the alias) is replayed on the real code: real `sign()` of the row, signature copied to the
//!     alias, real `verify()` of the alias;
//!   * the real signatures of all rows are bucketed: two different rows of the domain with one real
//!     signature are a collision whatever the model says (hook free form of "bucket by digest").
//! Part B (full world, signing requests). On a real instance A: `Query::ProveIdentity(c)` through
//! the real `process_inbound` (no authentication, no room), with c = digest of a forged row naming
//! A as author (new row, new version of a row, reference, both deletion records) and control
//! challenges; the answer's signature is attached to the forged row, then the real `verify()` and
//! the real ingestion entry points of an honest member C are called. The other signing sites
//! (announce header, invitation) are bound to the model and searched for row aliases.
use crate::c06_model::*;
use crate::common::*;
use crate::light::{new_conn, APP_KEY};
use crate::rooms::{tick, URoom, Universe};
use crate::world::*;
use discret::verif::database::edge::{Edge, EdgeDeletionEntry};
use discret::verif::database::node::{Node, NodeDeletionEntry, NodeIdentifier, NodeToInsert};
use discret::verif::database::query_language::parameter::{Parameters, ParametersAdd};
use discret::verif::database::sqlite_database::Writeable;
use discret::verif::database::system_entities::Invite;
use discret::verif::network::AnnounceHeader;
use discret::verif::security::{
    derive_key, import_verifying_key, Ed25519SigningKey, HardwareFingerprint, SigningKey, Uid,
};
use discret::verif::synchronisation::peer_outbound_service::{
    InboundQueryService, RemotePeerHandle,
};
use discret::verif::synchronisation::{Answer, IdentityAnswer, Query, QueryProtocol};
use ed25519_dalek::Signer;
use serde_json::{json, Value};
use std::collections::{BTreeMap, BTreeSet, HashMap, HashSet};
use std::path::PathBuf;
use std::sync::atomic::AtomicBool;
use std::sync::Arc;
use std::time::Instant;
use tokio::sync::{mpsc, Mutex};

// ---------------------------------------------------------------------------------------------
// keys
// ---------------------------------------------------------------------------------------------

/// the identities of the harness: the key an instance started with `seed` derives, once as the
/// real signing key type and once as a plain ed25519-dalek key (model side: no discret code)
pub struct Keys {
    pub vk: Vec<Vec<u8>>,
    pub real: Vec<Ed25519SigningKey>,
    pub dalek: Vec<ed25519_dalek::SigningKey>,
}
impl Keys {
    pub fn new() -> Keys {
        let mut k = Keys {
            vk: vec![],
            real: vec![],
            dalek: vec![],
        };
        for seed in 1u8..=4 {
            let secret = derive_key(&format!("{} SIGNING_KEY", APP_KEY), &key_material(seed));
            let real = Ed25519SigningKey::create_from(&secret);
            let dalek = ed25519_dalek::SigningKey::from_bytes(&secret);
            let vk = real.export_verifying_key();
            assert_eq!(&vk[1..], dalek.verifying_key().as_bytes());
            k.vk.push(vk);
            k.real.push(real);
            k.dalek.push(dalek);
        }
        k
    }
    pub fn idx(&self, vk: &[u8]) -> Option<usize> {
        self.vk.iter().position(|k| k == vk)
    }
    /// model side signature of a 32 byte digest (or any message)
    pub fn model_sign(&self, i: usize, msg: &[u8]) -> Vec<u8> {
        self.dalek[i].sign(msg).to_bytes().to_vec()
    }
}

// ---------------------------------------------------------------------------------------------
// binding of model rows to the real structs
// ---------------------------------------------------------------------------------------------

fn txt(v: Option<&Vec<u8>>) -> String {
    String::from_utf8(v.cloned().unwrap_or_default()).expect("model rows hold UTF-8 text")
}
fn uid(v: Option<&Vec<u8>>) -> Uid {
    let mut u = [0u8; 16];
    u.copy_from_slice(v.expect("uid"));
    u
}
fn date(v: Option<&Vec<u8>>) -> i64 {
    let mut a = [0u8; 8];
    a.copy_from_slice(v.expect("date"));
    i64::from_le_bytes(a)
}

pub enum Real {
    N(Node),
    E(Edge),
    ND(NodeDeletionEntry),
    ED(EdgeDeletionEntry),
}

pub fn to_real(r: &Row, sig: Vec<u8>) -> Real {
    let key = r.get("key").cloned().unwrap_or_default();
    match r.kind {
        Kind::Node => Real::N(Node {
            id: uid(r.get("id")),
            room_id: r.get("room_id").map(|v| uid(Some(v))),
            cdate: date(r.get("cdate")),
            mdate: date(r.get("mdate")),
            _entity: txt(r.get("entity")),
            _json: r.get("json").map(|v| txt(Some(v))),
            _binary: r.get("binary").cloned(),
            verifying_key: key,
            _signature: sig,
            _local_id: None,
        }),
        Kind::Edge => Real::E(Edge {
            src: uid(r.get("src")),
            src_entity: txt(r.get("entity")),
            label: txt(r.get("label")),
            dest: uid(r.get("dest")),
            cdate: date(r.get("cdate")),
            verifying_key: key,
            signature: sig,
        }),
        Kind::NodeDel => Real::ND(NodeDeletionEntry {
            room_id: uid(r.get("room_id")),
            id: uid(r.get("id")),
            entity: txt(r.get("entity")),
            mdate: date(r.get("mdate")),
            deletion_date: date(r.get("deletion_date")),
            verifying_key: key,
            signature: sig,
            entity_name: None,
        }),
        Kind::EdgeDel => Real::ED(EdgeDeletionEntry {
            room_id: uid(r.get("room_id")),
            src: uid(r.get("src")),
            src_entity: txt(r.get("entity")),
            dest: uid(r.get("dest")),
            label: txt(r.get("label")),
            cdate: date(r.get("cdate")),
            deletion_date: date(r.get("deletion_date")),
            verifying_key: key,
            signature: sig,
            entity_name: None,
        }),
        _ => panic!("not a row kind"),
    }
}

pub fn node_row(n: &Node) -> Row {
    Row {
        kind: Kind::Node,
        vals: vec![
            Some(n.id.to_vec()),
            n.room_id.map(|r| r.to_vec()),
            Some(n.cdate.to_le_bytes().to_vec()),
            Some(n.mdate.to_le_bytes().to_vec()),
            Some(n._entity.as_bytes().to_vec()),
            n._json.as_ref().map(|j| j.as_bytes().to_vec()),
            n._binary.clone(),
            Some(n.verifying_key.clone()),
        ],
    }
}
pub fn edge_row(e: &Edge) -> Row {
    Row {
        kind: Kind::Edge,
        vals: vec![
            Some(e.src.to_vec()),
            Some(e.src_entity.as_bytes().to_vec()),
            Some(e.label.as_bytes().to_vec()),
            Some(e.dest.to_vec()),
            Some(e.cdate.to_le_bytes().to_vec()),
            Some(e.verifying_key.clone()),
        ],
    }
}
pub fn ndel_row(d: &NodeDeletionEntry) -> Row {
    Row {
        kind: Kind::NodeDel,
        vals: vec![
            Some(d.room_id.to_vec()),
            Some(d.id.to_vec()),
            Some(d.mdate.to_le_bytes().to_vec()),
            Some(d.entity.as_bytes().to_vec()),
            Some(d.deletion_date.to_le_bytes().to_vec()),
            Some(d.verifying_key.clone()),
        ],
    }
}
pub fn edel_row(d: &EdgeDeletionEntry) -> Row {
    Row {
        kind: Kind::EdgeDel,
        vals: vec![
            Some(d.room_id.to_vec()),
            Some(d.src.to_vec()),
            Some(d.src_entity.as_bytes().to_vec()),
            Some(d.label.as_bytes().to_vec()),
            Some(d.dest.to_vec()),
            Some(d.cdate.to_le_bytes().to_vec()),
            Some(d.deletion_date.to_le_bytes().to_vec()),
            Some(d.verifying_key.clone()),
        ],
    }
}

impl Real {
    pub fn verify(&self) -> Result<(), String> {
        match self {
            Real::N(n) => n.verify().map_err(|e| e.to_string()),
            Real::E(e) => e.verify().map_err(|e| e.to_string()),
            Real::ND(d) => d.verify().map_err(|e| e.to_string()),
            Real::ED(d) => d.verify().map_err(|e| e.to_string()),
        }
    }
    pub fn wire(&self) -> Vec<u8> {
        match self {
            Real::N(n) => bincode::serialize(n),
            Real::E(e) => bincode::serialize(e),
            Real::ND(d) => bincode::serialize(d),
            Real::ED(d) => bincode::serialize(d),
        }
        .expect("bincode")
    }
}

/// the signature the real code produces for this row with the key named in the row
pub fn real_sign(r: &Row, keys: &Keys) -> Result<Vec<u8>, String> {
    let ki = keys
        .idx(r.get("key").ok_or("no key")?)
        .ok_or("row key is not a harness identity")?;
    let k = &keys.real[ki];
    match to_real(r, vec![]) {
        Real::N(mut n) => {
            n.sign(k).map_err(|e| e.to_string())?;
            Ok(n._signature)
        }
        Real::E(mut e) => {
            e.sign(k).map_err(|e| e.to_string())?;
            Ok(e.signature)
        }
        Real::ND(d) => {
            let stub = Node {
                id: d.id,
                mdate: d.mdate,
                _entity: d.entity.clone(),
                ..Default::default()
            };
            Ok(NodeDeletionEntry::build(d.room_id, &stub, d.deletion_date, k).signature)
        }
        Real::ED(d) => {
            let stub = Edge {
                src: d.src,
                src_entity: d.src_entity.clone(),
                label: d.label.clone(),
                dest: d.dest,
                cdate: d.cdate,
                ..Default::default()
            };
            Ok(EdgeDeletionEntry::build(d.room_id, &stub, d.deletion_date, k).signature)
        }
    }
}

/// the model's idea of the synchronised form (bincode: arrays raw, Option = tag byte, strings and
/// byte vectors = u64 length + bytes, i64 little endian), in the declaration order of the structs
fn model_wire(r: &Row, sig: &[u8]) -> Vec<u8> {
    fn var(out: &mut Vec<u8>, v: &[u8]) {
        out.extend_from_slice(&(v.len() as u64).to_le_bytes());
        out.extend_from_slice(v);
    }
    fn opt(out: &mut Vec<u8>, v: Option<&Vec<u8>>, with_len: bool) {
        match v {
            None => out.push(0),
            Some(v) => {
                out.push(1);
                if with_len {
                    var(out, v)
                } else {
                    out.extend_from_slice(v)
                }
            }
        }
    }
    let g = |n: &str| r.get(n).cloned().unwrap_or_default();
    let mut o = vec![];
    match r.kind {
        Kind::Node => {
            o.extend(g("id"));
            opt(&mut o, r.get("room_id"), false);
            o.extend(g("cdate"));
            o.extend(g("mdate"));
            var(&mut o, &g("entity"));
            opt(&mut o, r.get("json"), true);
            opt(&mut o, r.get("binary"), true);
            var(&mut o, &g("key"));
            var(&mut o, sig);
        }
        Kind::Edge => {
            o.extend(g("src"));
            var(&mut o, &g("entity"));
            var(&mut o, &g("label"));
            o.extend(g("dest"));
            o.extend(g("cdate"));
            var(&mut o, &g("key"));
            var(&mut o, sig);
        }
        Kind::NodeDel => {
            o.extend(g("room_id"));
            o.extend(g("id"));
            var(&mut o, &g("entity"));
            o.extend(g("mdate"));
            o.extend(g("deletion_date"));
            var(&mut o, &g("key"));
            var(&mut o, sig);
        }
        Kind::EdgeDel => {
            o.extend(g("room_id"));
            o.extend(g("src"));
            var(&mut o, &g("entity"));
            o.extend(g("dest"));
            var(&mut o, &g("label"));
            o.extend(g("cdate"));
            o.extend(g("deletion_date"));
            var(&mut o, &g("key"));
            var(&mut o, sig);
        }
        _ => {}
    }
    o
}

/// write the signed row through the real write routine, read it back through the real read
/// routine (own SELECT in the served column order for the deletion logs), verify it as stored
fn stored_roundtrip(conn: &rusqlite::Connection, real: &Real) -> Result<(), String> {
    let e = |e: rusqlite::Error| format!("sql:{}", e);
    match real {
        Real::N(n) => {
            let mut w = n.clone();
            w.write(conn, false, &None, &None).map_err(e)?;
            let back = Node::get_with_entity(&n.id, &n._entity, conn)
                .map_err(e)?
                .ok_or("not_found_after_write")?;
            conn.execute("DELETE FROM _node", []).map_err(e)?;
            if !n.eq(&back) || back._signature != n._signature {
                return Err("read_back_differs".into());
            }
            back.verify().map_err(|_| "read_back_does_not_verify".to_string())?;
            // the same row written OVER a stored version of another author (the update branch of the write
            // routine): what is stored afterwards is this version, key and signature included
            let mut prev = n.clone();
            prev._local_id = None;
            prev.verifying_key = vec![7u8; n.verifying_key.len().max(1)];
            prev._signature = vec![9u8; 64];
            prev.mdate = n.mdate.wrapping_sub(1);
            prev.write(conn, false, &None, &None).map_err(e)?;
            let stored = Node::get_with_entity(&n.id, &n._entity, conn).map_err(e)?.ok_or("not_found_after_write")?;
            let mut w = n.clone();
            w._local_id = stored._local_id;
            w.write(conn, false, &None, &None).map_err(e)?;
            let back = Node::get_with_entity(&n.id, &n._entity, conn).map_err(e)?.ok_or("not_found_after_update")?;
            conn.execute("DELETE FROM _node", []).map_err(e)?;
            if !n.eq(&back) || back._signature != n._signature || back.verifying_key != n.verifying_key {
                return Err("read_back_differs_after_update_over_another_author".into());
            }
            back.verify().map_err(|_| "read_back_does_not_verify_after_update_over_another_author".to_string())
        }
        Real::E(ed) => {
            ed.write(conn).map_err(e)?;
            let back = Edge::get(&ed.src, &ed.label, &ed.dest, conn)
                .map_err(|e| format!("sql:{}", e))?
                .ok_or("not_found_after_write")?;
            conn.execute("DELETE FROM _edge", []).map_err(e)?;
            if !ed.eq(&back) || back.signature != ed.signature {
                return Err("read_back_differs".into());
            }
            back.verify().map_err(|_| "read_back_does_not_verify".to_string())
        }
        Real::ND(d) => {
            let mut w = to_real(&ndel_row(d), d.signature.clone());
            if let Real::ND(w) = &mut w {
                w.write(conn).map_err(e)?;
            }
            let back = read_node_deletions(conn)?;
            conn.execute("DELETE FROM _node_deletion_log", []).map_err(e)?;
            if back.len() != 1 || ndel_row(&back[0]) != ndel_row(d) || back[0].signature != d.signature {
                return Err("read_back_differs".into());
            }
            back[0].verify().map_err(|_| "read_back_does_not_verify".to_string())
        }
        Real::ED(d) => {
            let mut w = to_real(&edel_row(d), d.signature.clone());
            if let Real::ED(w) = &mut w {
                w.write(conn).map_err(e)?;
            }
            let back = read_edge_deletions(conn)?;
            conn.execute("DELETE FROM _edge_deletion_log", []).map_err(e)?;
            if back.len() != 1 || edel_row(&back[0]) != edel_row(d) || back[0].signature != d.signature {
                return Err("read_back_differs".into());
            }
            back[0].verify().map_err(|_| "read_back_does_not_verify".to_string())
        }
    }
}

fn read_node_deletions(conn: &rusqlite::Connection) -> Result<Vec<NodeDeletionEntry>, String> {
    let rows = sql_rows_conn(
        conn,
        "SELECT room_id, id, entity, mdate, deletion_date, verifying_key, signature FROM _node_deletion_log ORDER BY 1,2,3,4,5",
    )?;
    rows.iter().map(|r| ndel_from_sv(r)).collect()
}
fn read_edge_deletions(conn: &rusqlite::Connection) -> Result<Vec<EdgeDeletionEntry>, String> {
    let rows = sql_rows_conn(
        conn,
        "SELECT room_id, src, src_entity, dest, label, cdate, deletion_date, verifying_key, signature FROM _edge_deletion_log ORDER BY 1,2,3,4,5,6,7",
    )?;
    rows.iter().map(|r| edel_from_sv(r)).collect()
}

fn sv_uid(v: &Sv) -> Result<Uid, String> {
    let b = v.blob().ok_or("uid column is not a blob")?;
    if b.len() != 16 {
        return Err("uid column is not 16 bytes".into());
    }
    let mut u = [0u8; 16];
    u.copy_from_slice(b);
    Ok(u)
}
fn sv_blob(v: &Sv) -> Result<Vec<u8>, String> {
    v.blob().cloned().ok_or("blob expected".to_string())
}
fn sv_text(v: &Sv) -> Result<String, String> {
    v.text().map(|s| s.to_string()).ok_or("text expected".to_string())
}
fn sv_int(v: &Sv) -> Result<i64, String> {
    v.int().ok_or("integer expected".to_string())
}
fn node_from_sv(r: &[Sv]) -> Result<Node, String> {
    Ok(Node {
        id: sv_uid(&r[0])?,
        room_id: match &r[1] {
            Sv::Null => None,
            v => Some(sv_uid(v)?),
        },
        cdate: sv_int(&r[2])?,
        mdate: sv_int(&r[3])?,
        _entity: sv_text(&r[4])?,
        _json: match &r[5] {
            Sv::Null => None,
            v => Some(sv_text(v)?),
        },
        _binary: match &r[6] {
            Sv::Null => None,
            v => Some(sv_blob(v)?),
        },
        verifying_key: sv_blob(&r[7])?,
        _signature: sv_blob(&r[8])?,
        _local_id: None,
    })
}
fn edge_from_sv(r: &[Sv]) -> Result<Edge, String> {
    Ok(Edge {
        src: sv_uid(&r[0])?,
        src_entity: sv_text(&r[1])?,
        label: sv_text(&r[2])?,
        dest: sv_uid(&r[3])?,
        cdate: sv_int(&r[4])?,
        verifying_key: sv_blob(&r[5])?,
        signature: sv_blob(&r[6])?,
    })
}
fn ndel_from_sv(r: &[Sv]) -> Result<NodeDeletionEntry, String> {
    Ok(NodeDeletionEntry {
        room_id: sv_uid(&r[0])?,
        id: sv_uid(&r[1])?,
        entity: sv_text(&r[2])?,
        mdate: sv_int(&r[3])?,
        deletion_date: sv_int(&r[4])?,
        verifying_key: sv_blob(&r[5])?,
        signature: sv_blob(&r[6])?,
        entity_name: None,
    })
}
fn edel_from_sv(r: &[Sv]) -> Result<EdgeDeletionEntry, String> {
    Ok(EdgeDeletionEntry {
        room_id: sv_uid(&r[0])?,
        src: sv_uid(&r[1])?,
        src_entity: sv_text(&r[2])?,
        dest: sv_uid(&r[3])?,
        label: sv_text(&r[4])?,
        cdate: sv_int(&r[5])?,
        deletion_date: sv_int(&r[6])?,
        verifying_key: sv_blob(&r[7])?,
        signature: sv_blob(&r[8])?,
        entity_name: None,
    })
}

// ---------------------------------------------------------------------------------------------
// Part A: bounded domains
// ---------------------------------------------------------------------------------------------

/// alphabet of the variable length fields: a letter and the three characters that delimit the
/// JSON string literal of an object
pub const SIGMA: [u8; 4] = [b'a', b'"', b'{', b'}'];
/// json texts added to SIGMA^<=L: objects whose literal needs every escape class
pub const JSON_EXTRA: [&str; 9] = [
    "{\"a\":1}",
    "{\"a\":\"\\\"\"}",
    "{\"a\":\"\\\\\"}",
    "{\n}",
    "{\t\"a\":\r\n1}",
    "{\"\u{e9}\":\"\u{fc}\"}",
    "{\"a\":\"\\u0001\"}",
    "{\"a\":\"\u{7f}\"}",
    " {} ",
];
pub const BINARY_EXTRA: [&[u8]; 3] = [&[0xff], &[0x00, 0x80], b"\"{}\""];
pub const ENTITY_EXTRA: [&[u8]; 1] = [b"a\"{}\""];

fn fixed_uid(name: &str, which: usize) -> Vec<u8> {
    if which == 0 {
        // looks like a real identifier: arbitrary bytes
        blake3::hash(format!("c06 uid {}", name).as_bytes()).as_bytes()[..16].to_vec()
    } else {
        // printable: can be absorbed by a text field of another layout
        vec![name.as_bytes()[0]; 16]
    }
}
fn fixed_date(name: &str, which: usize) -> Vec<u8> {
    let k = name.as_bytes()[0] as i64;
    if which == 0 {
        (T0 + DAY + k * 1000).to_le_bytes().to_vec()
    } else {
        k.to_le_bytes().to_vec()
    }
}

pub fn build_domains(tier: Tier, keys: &Keys) -> Vec<Domain> {
    let l_node = tier.pick(2, 3);
    let l_other = tier.pick(2, 4);
    let l_edel = tier.pick(2, 3);
    let some = |v: Vec<Vec<u8>>| -> Vec<Option<Vec<u8>>> { v.into_iter().map(Some).collect() };
    let two_uids = |n: &str| vec![Some(fixed_uid(n, 0)), Some(fixed_uid(n, 1))];
    let two_dates = |n: &str| vec![Some(fixed_date(n, 0)), Some(fixed_date(n, 1))];
    let two_keys = || vec![Some(keys.vk[0].clone()), Some(keys.vk[1].clone())];

    let mut entity = strings_upto(&SIGMA, l_node);
    entity.extend(ENTITY_EXTRA.iter().map(|e| e.to_vec()));
    let mut json: Vec<Option<Vec<u8>>> = vec![None];
    json.extend(some(strings_upto(&SIGMA, l_node)));
    json.extend(JSON_EXTRA.iter().map(|j| Some(j.as_bytes().to_vec())));
    let mut binary: Vec<Option<Vec<u8>>> = vec![None];
    binary.extend(some(strings_upto(&SIGMA, l_node)));
    binary.extend(BINARY_EXTRA.iter().map(|b| Some(b.to_vec())));

    let node = Domain::new(
        Kind::Node,
        vec![
            two_uids("id"),
            vec![Some(fixed_uid("room_id", 0)), None, Some(fixed_uid("room_id", 1))],
            two_dates("cdate"),
            two_dates("mdate"),
            some(entity),
            json,
            binary,
            two_keys(),
        ],
    );
    let edge = Domain::new(
        Kind::Edge,
        vec![
            two_uids("src"),
            some(strings_upto(&SIGMA, l_other)),
            some(strings_upto(&SIGMA, l_other)),
            two_uids("dest"),
            two_dates("cdate"),
            two_keys(),
        ],
    );
    let ndel = Domain::new(
        Kind::NodeDel,
        vec![
            two_uids("room_id"),
            two_uids("id"),
            two_dates("mdate"),
            some(strings_upto(&SIGMA, l_other)),
            two_dates("deletion_date"),
            two_keys(),
        ],
    );
    let edel = Domain::new(
        Kind::EdgeDel,
        vec![
            two_uids("room_id"),
            two_uids("src"),
            some(strings_upto(&SIGMA, l_edel)),
            some(strings_upto(&SIGMA, l_edel)),
            two_uids("dest"),
            two_dates("cdate"),
            two_dates("deletion_date"),
            two_keys(),
        ],
    );
    vec![node, edge, ndel, edel]
}

pub struct Space {
    pub domains: Vec<Domain>,
    pub offsets: Vec<u64>,
    pub total: u64,
}
impl Space {
    pub fn new(domains: Vec<Domain>) -> Space {
        let mut offsets = vec![];
        let mut total = 0;
        for d in &domains {
            offsets.push(total);
            total += d.size();
        }
        Space {
            domains,
            offsets,
            total,
        }
    }
    pub fn decode(&self, g: u64) -> (Row, usize) {
        let mut k = 0;
        while k + 1 < self.domains.len() && g >= self.offsets[k + 1] {
            k += 1;
        }
        self.domains[k].row(g - self.offsets[k])
    }
}

#[derive(Clone)]
struct Witness {
    rank: (usize, u64),
    what: String,
    replay: Value,
}

#[derive(Default)]
struct Acc {
    out: Outcome,
    /// (first 8 bytes of the real signature, global index) of every acceptable row
    sigs: Vec<(u64, u64)>,
    wit: BTreeMap<String, Witness>,
    samples: Vec<(u64, Value)>,
}
impl Acc {
    fn violation(&mut self, key: String, rank: (usize, u64), what: String, replay: Value) {
        self.out.count(&format!("viol:{}", key));
        match self.wit.get(&key) {
            Some(w) if w.rank <= rank => {}
            _ => {
                self.wit.insert(key, Witness { rank, what, replay });
            }
        }
    }
}

fn presence_and_lengths(r: &Row) -> Vec<i32> {
    let l = layout(r.kind);
    let mut v = vec![];
    for (def, val) in l.iter().zip(&r.vals) {
        if def.optional || matches!(def.ty, Ty::Str | Ty::Bytes | Ty::JsonStr) {
            v.push(val.as_ref().map(|x| x.len() as i32).unwrap_or(-1));
        }
    }
    v
}

/// every alias of `r` the real code accepts under the signature of `r`: (finding key, alias)
fn verified_aliases(
    r: &Row,
    sig_of_r: &[u8],
    out: &mut Outcome,
) -> Vec<(String, Row)> {
    let bytes = r.concat();
    let mut cands = vec![];
    for k in ROW_KINDS {
        parses(&bytes, k, &mut cands);
    }
    let mut res = vec![];
    let mut found_self = false;
    // simplest alias first; one real replay per (row, boundary pair): the other aliases of the same
    // pair differ only by how many more bytes are shifted and are counted, not replayed
    cands.sort_by_key(|c| c.total_len());
    let mut replayed: BTreeSet<String> = BTreeSet::new();
    for r2 in cands {
        if r2 == *r {
            found_self = true;
            continue;
        }
        out.evaluations += 1;
        if !r2.acceptable() {
            out.count("A:alias_the_code_cannot_accept");
            continue;
        }
        let key = finding_key(r, &r2);
        if replayed.contains(&key) {
            out.count("A:alias_same_boundaries_as_a_replayed_one");
            continue;
        }
        out.transitions += 1;
        match to_real(&r2, sig_of_r.to_vec()).verify() {
            Ok(()) => {
                replayed.insert(key.clone());
                res.push((key, r2))
            }
            Err(_) => out.count("A:alias_refused_by_real_verify"),
        }
    }
    if !found_self {
        out.machinery_errors
            .push(format!("the alias generator does not regenerate {}", r.describe()));
    }
    res
}

fn eval_row(g: u64, r: &Row, a_idx: usize, keys: &Keys, conn: &rusqlite::Connection, acc: &mut Acc, want_sample: bool) {
    acc.out.evaluations += 1;
    let kind = r.kind.name();
    let accept_m = r.acceptable();
    let ki = keys.idx(r.get("key").unwrap()).expect("domain keys are harness identities");
    let d = r.digest();
    let sig_m = keys.model_sign(ki, &d);
    let real = to_real(r, sig_m.clone());
    let v = real.verify();
    acc.out.transitions += 1;
    let one = |r: &Row| json!({"part": "A-conformance", "row": r.to_json()});
    let rank = (r.total_len(), g);
    let mut verdict: Vec<String> = vec![];

    if real.wire() != model_wire(r, &sig_m) {
        acc.violation(
            format!("A:conformance:{}:synchronised-form-differs-from-model", kind),
            rank,
            format!("bincode of the real struct is not the model's field list for {}", r.describe()),
            one(r),
        );
        verdict.push("wire".into());
    }

    if !accept_m {
        // a row the model says the code refuses: it must refuse both to verify and to sign it
        if v.is_ok() {
            acc.violation(
                format!("A:conformance:{}:verify-accepts-row-the-model-rejects", kind),
                rank,
                format!("real verify() accepts {}", r.describe()),
                one(r),
            );
            verdict.push("accepts-rejected".into());
        }
        acc.out.transitions += 1;
        if real_sign(r, keys).is_ok() {
            acc.violation(
                format!("A:conformance:{}:sign-accepts-row-the-model-rejects", kind),
                rank,
                format!("real sign() accepts {}", r.describe()),
                one(r),
            );
            verdict.push("signs-rejected".into());
        }
        acc.out.count("A:row_refused_by_code_and_model");
        verdict.push("refused".into());
    } else {
        if let Err(e) = &v {
            acc.violation(
                format!("A:conformance:{}:verify-rejects-model-digest", kind),
                rank,
                format!("real verify() refuses the signature of the model digest of {} ({})", r.describe(), e),
                one(r),
            );
            verdict.push("verify-rejects".into());
        }
        // negative control: the signature of a digest that differs in one bit
        let mut d2 = d;
        d2[0] ^= 1;
        acc.out.transitions += 1;
        if to_real(r, keys.model_sign(ki, &d2)).verify().is_ok() {
            acc.violation(
                format!("A:conformance:{}:verify-accepts-signature-of-another-digest", kind),
                rank,
                format!("real verify() accepts a signature of another digest for {}", r.describe()),
                one(r),
            );
            verdict.push("verify-accepts-any".into());
        }
        acc.out.transitions += 1;
        let sig_r = match real_sign(r, keys) {
            Ok(s) => {
                if s != sig_m {
                    acc.violation(
                        format!("A:conformance:{}:sign-digest-differs-from-model", kind),
                        rank,
                        format!("real sign() does not sign the model digest of {}", r.describe()),
                        one(r),
                    );
                    verdict.push("sign-differs".into());
                }
                let mut p = [0u8; 8];
                p.copy_from_slice(&s[..8]);
                acc.sigs.push((u64::from_le_bytes(p), g));
                s
            }
            Err(e) => {
                acc.violation(
                    format!("A:conformance:{}:sign-refuses-acceptable-row", kind),
                    rank,
                    format!("real sign() refuses {} ({})", r.describe(), e),
                    one(r),
                );
                verdict.push("sign-refuses".into());
                sig_m.clone()
            }
        };
        // stored exactly as signed (once per combination of variable fields)
        if a_idx == 0 {
            acc.out.transitions += 1;
            if let Err(sym) = stored_roundtrip(conn, &to_real(r, sig_r.clone())) {
                let sym: String = sym.chars().take(40).collect();
                acc.violation(
                    format!("A:stored:{}:{}", kind, sym),
                    rank,
                    format!("written through the real write routine and read back: {} for {}", sym, r.describe()),
                    json!({"part": "A-stored", "row": r.to_json()}),
                );
                verdict.push(format!("stored:{}", sym));
            } else {
                acc.out.count("A:stored_row_verifies");
            }
        }
        // aliases
        let aliases = verified_aliases(r, &sig_r, &mut acc.out);
        if aliases.is_empty() {
            acc.out.count("A:row_has_no_alias");
            verdict.push("unique".into());
        } else {
            acc.out.count("A:row_has_verified_alias");
            let mut ks = BTreeSet::new();
            for (key, r2) in aliases {
                let rank2 = (r.total_len() + r2.total_len(), g);
                acc.violation(
                    key.clone(),
                    rank2,
                    format!(
                        "the signature the real code makes for {} verifies (real verify()) on the different row {}",
                        r.describe(),
                        r2.describe()
                    ),
                    json!({"part": "A", "signed": r.to_json(), "other": r2.to_json()}),
                );
                ks.insert(key);
            }
            verdict.extend(ks);
        }
    }
    let class = (kind, presence_and_lengths(r), a_idx);
    acc.out.state(&(class, &verdict));
    acc.out.nontrivial(&(kind, &verdict));
    if want_sample {
        acc.samples.push((g, json!({"part": "A", "index": g, "row": r.describe(), "verdict": verdict})));
    }
}

fn part_a(args: &Args, keys: &Keys, out: &mut Outcome) -> Value {
    let space = Space::new(build_domains(args.tier, keys));
    let threads = ncpu().clamp(1, 16) as u64;
    let sample_at: BTreeSet<u64> = [0, space.total / 4, space.total / 2, 3 * space.total / 4, space.total - 1]
        .into_iter()
        .collect();
    let mut accs: Vec<Acc> = vec![];
    std::thread::scope(|s| {
        let mut hs = vec![];
        for t in 0..threads {
            let space = &space;
            let sample_at = &sample_at;
            hs.push(s.spawn(move || {
                let mut acc = Acc::default();
                let conn = new_conn();
                let mut g = t;
                while g < space.total {
                    let (r, a) = space.decode(g);
                    eval_row(g, &r, a, keys, &conn, &mut acc, sample_at.contains(&g));
                    g += threads;
                }
                acc
            }));
        }
        for h in hs {
            match h.join() {
                Ok(a) => accs.push(a),
                Err(_) => out.machinery_errors.push("a part A worker panicked".into()),
            }
        }
    });
    let mut sigs: Vec<(u64, u64)> = vec![];
    let mut wit: BTreeMap<String, Witness> = BTreeMap::new();
    let mut samples: Vec<(u64, Value)> = vec![];
    for a in accs {
        out.merge(a.out);
        sigs.extend(a.sigs);
        samples.extend(a.samples);
        for (k, w) in a.wit {
            match wit.get(&k) {
                Some(x) if x.rank <= w.rank => {}
                _ => {
                    wit.insert(k, w);
                }
            }
        }
    }
    samples.sort_by_key(|s| s.0);
    for (_, s) in samples {
        out.sample(s);
    }

    // buckets of real signatures: collisions inside the domain, whatever the model says
    sigs.sort();
    let mut i = 0;
    let mut bucket_pairs = 0u64;
    while i < sigs.len() {
        let mut j = i + 1;
        while j < sigs.len() && sigs[j].0 == sigs[i].0 {
            j += 1;
        }
        if j - i > 1 {
            let (base, _) = space.decode(sigs[i].1);
            let sig = match real_sign(&base, keys) {
                Ok(s) => s,
                Err(_) => {
                    i = j;
                    continue;
                }
            };
            for other in &sigs[i + 1..j] {
                let (r2, _) = space.decode(other.1);
                if r2 == base {
                    continue;
                }
                out.evaluations += 1;
                out.transitions += 1;
                if to_real(&r2, sig.clone()).verify().is_err() {
                    continue; // equal prefixes only
                }
                bucket_pairs += 1;
                out.count("A:domain_pair_with_one_real_signature");
                let key = finding_key(&base, &r2);
                let mut again = vec![];
                parses(&base.concat(), r2.kind, &mut again);
                if !again.contains(&r2) {
                    out.count("A:domain_pair_not_explained_by_the_model");
                }
                let rank = (base.total_len() + r2.total_len(), sigs[i].1.min(other.1));
                if !wit.contains_key(&key) {
                    out.count(&format!("viol:{}", key));
                }
                if wit.get(&key).map(|w| w.rank > rank).unwrap_or(true) {
                    wit.insert(
                        key,
                        Witness {
                            rank,
                            what: format!(
                                "one real signature for the two rows {} and {}",
                                base.describe(),
                                r2.describe()
                            ),
                            replay: json!({"part": "A", "signed": base.to_json(), "other": r2.to_json()}),
                        },
                    );
                }
            }
        }
        i = j;
    }
    for (k, w) in wit {
        out.violations.push(Violation {
            key: k,
            what: w.what,
            replay: w.replay,
        });
    }
    let sizes: Vec<Value> = space
        .domains
        .iter()
        .map(|d| json!({"kind": d.kind.name(), "rows": d.size(), "fixed_assignments": d.fixed_assignments.len()}))
        .collect();
    json!({
        "alphabet": SIGMA.iter().map(|c| (*c as char).to_string()).collect::<Vec<_>>(),
        "max_len_node_fields": args.tier.pick(2, 3),
        "max_len_edge_and_node_deletion_fields": args.tier.pick(2, 4),
        "max_len_edge_deletion_fields": args.tier.pick(2, 3),
        "json_extra": JSON_EXTRA,
        "binary_extra": BINARY_EXTRA.iter().map(hex::encode).collect::<Vec<_>>(),
        "entity_extra": ENTITY_EXTRA.iter().map(|e| String::from_utf8_lossy(e).to_string()).collect::<Vec<_>>(),
        "fixed_fields": "two values each (identifier-like bytes / printable bytes); assignments: all first, each field alone at its other value(s), all last, all last with an optional identifier absent",
        "domains": sizes,
        "alias_search": "all rows of all 4 kinds with the same signed bytes, unbounded length",
        "domain_pairs_with_one_real_signature": bucket_pairs,
    })
}

// ---------------------------------------------------------------------------------------------
// Part B: signing requests on a running instance
// ---------------------------------------------------------------------------------------------

#[derive(Clone, Copy, PartialEq, Eq, Debug, Hash)]
pub enum Forged {
    NodeNew,
    NodeUpdate,
    EdgeNew,
    NodeDeletion,
    EdgeDeletion,
}
impl Forged {
    pub const ALL: [Forged; 5] = [
        Forged::NodeNew,
        Forged::NodeUpdate,
        Forged::EdgeNew,
        Forged::NodeDeletion,
        Forged::EdgeDeletion,
    ];
    pub fn name(&self) -> &'static str {
        match self {
            Forged::NodeNew => "node_new",
            Forged::NodeUpdate => "node_new_version",
            Forged::EdgeNew => "edge",
            Forged::NodeDeletion => "node_deletion",
            Forged::EdgeDeletion => "edge_deletion",
        }
    }
    pub fn from_name(s: &str) -> Option<Forged> {
        Forged::ALL.into_iter().find(|f| f.name() == s)
    }
}

struct BWorld {
    u: Universe,
    room: URoom,
    p1: Node,
    q2: Node,
    e1: Edge,
}

async fn all_nodes(p: &FPeer) -> Result<Vec<Node>, String> {
    let rows = p
        .sql("SELECT id, room_id, cdate, mdate, _entity, _json, _binary, verifying_key, _signature FROM _node ORDER BY _entity, id")
        .await?;
    rows.iter().map(|r| node_from_sv(r)).collect()
}
async fn all_edges(p: &FPeer) -> Result<Vec<Edge>, String> {
    let rows = p
        .sql("SELECT src, src_entity, label, dest, cdate, verifying_key, signature FROM _edge ORDER BY src, label, dest")
        .await?;
    rows.iter().map(|r| edge_from_sv(r)).collect()
}
async fn all_node_deletions(p: &FPeer) -> Result<Vec<NodeDeletionEntry>, String> {
    let rows = p
        .sql("SELECT room_id, id, entity, mdate, deletion_date, verifying_key, signature FROM _node_deletion_log ORDER BY 1,2,3,4,5")
        .await?;
    rows.iter().map(|r| ndel_from_sv(r)).collect()
}
async fn all_edge_deletions(p: &FPeer) -> Result<Vec<EdgeDeletionEntry>, String> {
    let rows = p
        .sql("SELECT room_id, src, src_entity, dest, label, cdate, deletion_date, verifying_key, signature FROM _edge_deletion_log ORDER BY 1,2,3,4,5,6,7")
        .await?;
    rows.iter().map(|r| edel_from_sv(r)).collect()
}

async fn b_world(root: &PathBuf) -> Result<BWorld, String> {
    discret::verif_hooks::set_uid_namespace(0xC06);
    set_clock(tick(0));
    let u = Universe::start(root).await?;
    // A (0) administrates the room, C (2) is a member with every right, B (1) and D (3) are strangers
    let room = u
        .create_room(
            0,
            tick(0),
            &[(vec![("ns.P", true, true), ("ns.Q", true, true)], vec![2], vec![])],
        )
        .await?;
    transfer_room_def(&u.peers[2], &u.peers[0], room.id).await?;
    set_clock(tick(4));
    let mut p = Parameters::default();
    p.add("room", b64(&room.id)).map_err(|e| e.to_string())?;
    u.peers[0]
        .mutate(
            "mutate { ns.P { room_id:$room name:\"genuine\" qs:[{name:\"sub1\"},{name:\"sub2\"}] } }",
            Some(p),
        )
        .await?;
    u.peers[0].barrier().await;
    set_clock(tick(5));
    let st = pull(&u.peers[2], &u.peers[0], room.id, PullOpts::default()).await;
    if !st.ok {
        return Err(format!("C cannot pull the room from A: {:?}", st.error));
    }
    let nodes = all_nodes(&u.peers[0]).await?;
    let ps: Vec<&Node> = nodes.iter().filter(|n| n._entity == u.p_short).collect();
    let qs: Vec<&Node> = nodes.iter().filter(|n| n._entity == u.q_short).collect();
    if ps.len() != 1 || qs.len() != 2 {
        return Err(format!("fixture: {} P rows, {} Q rows", ps.len(), qs.len()));
    }
    let edges = all_edges(&u.peers[0]).await?;
    let e1 = edges
        .iter()
        .find(|e| e.src == ps[0].id && e.dest == qs[0].id)
        .ok_or("fixture: no reference P->Q")?
        .clone();
    let at_c = all_nodes(&u.peers[2]).await?;
    if !at_c.iter().any(|n| n.id == ps[0].id) || !at_c.iter().any(|n| n.id == qs[1].id) {
        return Err("fixture: C did not receive the genuine rows".into());
    }
    Ok(BWorld {
        p1: ps[0].clone(),
        q2: qs[1].clone(),
        e1,
        u,
        room,
    })
}

/// what a stranger gets from the instance for `challenge`: the real serving routine, nobody
/// authenticated on the connection, no room allowed
async fn prove_identity(victim: &FPeer, challenge: Vec<u8>) -> Result<IdentityAnswer, String> {
    let (tx, mut rx) = mpsc::channel::<Answer>(4);
    let mut handle = RemotePeerHandle {
        allowed_room: HashSet::new(),
        db: victim.db.clone(),
        verifying_key: victim.verifying_key.clone(),
        reply: tx,
    };
    let remote_key = Arc::new(Mutex::new(Vec::new()));
    let conn_ready = Arc::new(AtomicBool::new(false));
    let fingerprint = HardwareFingerprint {
        id: [7u8; 16],
        name: "mc".to_string(),
    };
    InboundQueryService::process_inbound(
        QueryProtocol {
            id: 1,
            query: Query::ProveIdentity(challenge),
        },
        &mut handle,
        &remote_key,
        &conn_ready,
        &fingerprint,
    )
    .await
    .map_err(|e| format!("process_inbound: {}", e))?;
    let a = rx.recv().await.ok_or("no answer to ProveIdentity")?;
    if !a.success {
        return Err("ProveIdentity answered with an error".into());
    }
    bincode::deserialize::<IdentityAnswer>(&a.serialized).map_err(|e| e.to_string())
}

enum ForgedRow {
    N(Node),
    E(Edge),
    ND(NodeDeletionEntry),
    ED(EdgeDeletionEntry),
}
impl ForgedRow {
    fn row(&self) -> Row {
        match self {
            ForgedRow::N(n) => node_row(n),
            ForgedRow::E(e) => edge_row(e),
            ForgedRow::ND(d) => ndel_row(d),
            ForgedRow::ED(d) => edel_row(d),
        }
    }
}

fn forge(w: &BWorld, f: Forged) -> ForgedRow {
    let victim = w.u.keys[0].clone();
    let when = tick(6);
    match f {
        Forged::NodeNew => ForgedRow::N(Node {
            id: [0xF0; 16],
            room_id: Some(w.room.id),
            cdate: when,
            mdate: when,
            _entity: w.u.p_short.clone(),
            _json: Some(json!({ w.u.p_name.clone(): "forged" }).to_string()),
            verifying_key: victim,
            ..Default::default()
        }),
        Forged::NodeUpdate => {
            let mut n = w.p1.clone();
            n.mdate = when;
            n._json = Some(json!({ w.u.p_name.clone(): "tampered" }).to_string());
            n._signature = vec![];
            n.verifying_key = victim;
            ForgedRow::N(n)
        }
        Forged::EdgeNew => ForgedRow::E(Edge {
            src: w.p1.id,
            src_entity: w.u.p_short.clone(),
            label: w.u.p_q.clone(),
            dest: w.q2.id,
            cdate: when,
            verifying_key: victim,
            signature: vec![],
        }),
        Forged::NodeDeletion => ForgedRow::ND(NodeDeletionEntry {
            room_id: w.room.id,
            id: w.q2.id,
            entity: w.u.q_short.clone(),
            mdate: w.q2.mdate,
            deletion_date: when,
            verifying_key: victim,
            signature: vec![],
            entity_name: None,
        }),
        Forged::EdgeDeletion => ForgedRow::ED(EdgeDeletionEntry {
            room_id: w.room.id,
            src: w.e1.src,
            src_entity: w.e1.src_entity.clone(),
            dest: w.e1.dest,
            label: w.e1.label.clone(),
            cdate: w.e1.cdate,
            deletion_date: when,
            verifying_key: victim,
            signature: vec![],
            entity_name: None,
        }),
    }
}

fn hexlit(b: &[u8]) -> String {
    format!("x'{}'", hex::encode(b))
}

async fn count(p: &FPeer, sql: &str) -> Result<i64, String> {
    let r = p.sql(sql).await?;
    r.first()
        .and_then(|r| r.first())
        .and_then(|v| v.int())
        .ok_or("count".to_string())
}

/// the steps `synchronise_day` performs on what a serving peer sent, on the honest member `c`
async fn ingest(c: &FPeer, room: Uid, row: &ForgedRow, sig: &[u8]) -> Result<String, String> {
    match row {
        ForgedRow::N(n) => {
            let mut n = n.clone();
            n._signature = sig.to_vec();
            let mut ids = HashSet::new();
            ids.insert(NodeIdentifier {
                id: n.id,
                mdate: n.mdate,
                signature: n._signature.clone(),
            });
            let filtered = c.db.filter_existing_node(ids).await.map_err(|e| e.to_string())?;
            if filtered.is_empty() {
                return Ok("not_requested(existing row wins)".into());
            }
            let nodes = match c.services.signature_verification.verify_nodes(vec![n.clone()]).await {
                Ok(n) => n,
                Err(e) => return Ok(format!("refused_by_signature_check({})", e)),
            };
            let mut map: HashMap<Uid, NodeToInsert> = filtered.into_iter().map(|t| (t.id, t)).collect();
            let mut to_insert = vec![];
            for mut node in nodes {
                if let Some(mut nti) = map.remove(&node.id) {
                    node._local_id = nti.old_local_id;
                    nti.node = Some(node);
                    to_insert.push(nti);
                }
            }
            let rejected = c.db.add_nodes(room, to_insert).await.map_err(|e| e.to_string())?;
            c.barrier().await;
            let stored = count(
                c,
                &format!(
                    "SELECT count(*) FROM _node WHERE id = {} AND mdate = {} AND _signature = {}",
                    hexlit(&n.id),
                    n.mdate,
                    hexlit(sig)
                ),
            )
            .await?;
            Ok(if rejected.is_empty() && stored == 1 {
                "stored".into()
            } else {
                format!("rejected({} ids, stored {})", rejected.len(), stored)
            })
        }
        ForgedRow::E(e) => {
            let mut e = e.clone();
            e.signature = sig.to_vec();
            let edges = match c.services.signature_verification.verify_edges(vec![e.clone()]).await {
                Ok(v) => v,
                Err(er) => return Ok(format!("refused_by_signature_check({})", er)),
            };
            let rejected = c.db.add_edges(room, edges).await.map_err(|e| e.to_string())?;
            c.barrier().await;
            let stored = count(
                c,
                &format!(
                    "SELECT count(*) FROM _edge WHERE src = {} AND dest = {} AND signature = {}",
                    hexlit(&e.src),
                    hexlit(&e.dest),
                    hexlit(sig)
                ),
            )
            .await?;
            Ok(if rejected.is_empty() && stored == 1 {
                "stored".into()
            } else {
                format!("rejected({} ids, stored {})", rejected.len(), stored)
            })
        }
        ForgedRow::ND(d) => {
            let mut d = match to_real(&ndel_row(d), sig.to_vec()) {
                Real::ND(d) => d,
                _ => unreachable!(),
            };
            d.entity_name = None;
            let id = d.id;
            let before = count(c, &format!("SELECT count(*) FROM _node WHERE id = {}", hexlit(&id))).await?;
            let log = match c.services.signature_verification.verify_node_log(vec![d]).await {
                Ok(v) => v,
                Err(er) => return Ok(format!("refused_by_signature_check({})", er)),
            };
            let res = c.db.delete_nodes(log).await;
            c.barrier().await;
            let after = count(c, &format!("SELECT count(*) FROM _node WHERE id = {}", hexlit(&id))).await?;
            Ok(if before == 1 && after == 0 {
                "row_deleted".into()
            } else {
                format!("rejected(before {}, after {}, {:?})", before, after, res.err().map(|e| e.to_string()))
            })
        }
        ForgedRow::ED(d) => {
            let d = match to_real(&edel_row(d), sig.to_vec()) {
                Real::ED(d) => d,
                _ => unreachable!(),
            };
            let q = format!(
                "SELECT count(*) FROM _edge WHERE src = {} AND dest = {}",
                hexlit(&d.src),
                hexlit(&d.dest)
            );
            let before = count(c, &q).await?;
            let log = match c.services.signature_verification.verify_edge_log(vec![d]).await {
                Ok(v) => v,
                Err(er) => return Ok(format!("refused_by_signature_check({})", er)),
            };
            let res = c.db.delete_edges(log).await;
            c.barrier().await;
            let after = count(c, &q).await?;
            Ok(if before == 1 && after == 0 {
                "reference_deleted".into()
            } else {
                format!("rejected(before {}, after {}, {:?})", before, after, res.err().map(|e| e.to_string()))
            })
        }
    }
}

/// every stored row of the four signed tables must verify as stored
async fn stored_rows_verify(p: &FPeer, out: &mut Outcome) -> Result<(), String> {
    let bad = |out: &mut Outcome, table: &str, what: String, row: Value| {
        out.violation(
            format!("B:stored:{}:does-not-verify", table),
            what,
            json!({"part": "B-stored", "row": row}),
        );
    };
    for n in all_nodes(p).await? {
        out.transitions += 1;
        match n.verify() {
            Ok(()) => out.count("B:stored_row_verifies"),
            Err(e) => bad(out, "_node", format!("a stored row does not verify: {} ({})", node_row(&n).describe(), e), node_row(&n).to_json()),
        }
    }
    for e in all_edges(p).await? {
        out.transitions += 1;
        match e.verify() {
            Ok(()) => out.count("B:stored_row_verifies"),
            Err(er) => bad(out, "_edge", format!("a stored reference does not verify: {} ({})", edge_row(&e).describe(), er), edge_row(&e).to_json()),
        }
    }
    for d in all_node_deletions(p).await? {
        out.transitions += 1;
        match d.verify() {
            Ok(()) => out.count("B:stored_row_verifies"),
            Err(er) => bad(out, "_node_deletion_log", format!("a stored deletion record does not verify: {} ({})", ndel_row(&d).describe(), er), ndel_row(&d).to_json()),
        }
    }
    for d in all_edge_deletions(p).await? {
        out.transitions += 1;
        match d.verify() {
            Ok(()) => out.count("B:stored_row_verifies"),
            Err(er) => bad(out, "_edge_deletion_log", format!("a stored deletion record does not verify: {} ({})", edel_row(&d).describe(), er), edel_row(&d).to_json()),
        }
    }
    Ok(())
}

fn attach_and_verify(row: &ForgedRow, sig: &[u8]) -> Result<(), String> {
    to_real(&row.row(), sig.to_vec()).verify()
}

/// the requests of part B, in simplest first order
const CHALLENGES: [&str; 9] = [
    "row_digest",
    "len0",
    "len1",
    "len31",
    "len33",
    "len64",
    "unrelated32",
    "announce_header_hash",
    "invitation_hash",
];

/// one world per forged row kind; `only` restricts to one request (replay)
async fn part_b_case(root: &PathBuf, f: Forged, only: Option<&str>, out: &mut Outcome, verbose: bool) -> Result<(), String> {
    let w = b_world(root).await?;
    let a = &w.u.peers[0];
    let c = &w.u.peers[2];
    set_clock(tick(7));
    let row = forge(&w, f);
    let mrow = row.row();
    let digest = mrow.digest();
    if !mrow.acceptable() {
        return Err("forged row is not acceptable".into());
    }

    // the instance's own signing sites, as the code calls them
    let mut hb = fixed_uid("endpoint_id", 0);
    hb.extend_from_slice(blake3::hash(b"c06 certificate").as_bytes());
    let arow = Row {
        kind: Kind::Announce,
        vals: vec![Some(hb[..16].to_vec()), Some(hb[16..].to_vec())],
    };
    hb.extend_from_slice(&0u64.to_le_bytes());
    let header: AnnounceHeader = bincode::deserialize(&hb).map_err(|e| e.to_string())?;
    let (_k, announce_sig) = a.db.sign(header.hash().to_vec()).await; // peer_manager.rs:124
    let invite = Invite::create(b64(&a.private_room), None, APP_KEY.to_string(), &a.db)
        .await
        .map_err(|e| format!("Invite::create: {}", e))?
        .0;
    let irow = Row {
        kind: Kind::Invite,
        vals: vec![Some(invite.invite_id.to_vec()), Some(invite.application.as_bytes().to_vec())],
    };

    let mut run_req = Vec::new();
    for ch in CHALLENGES {
        run_req.push(format!("prove_identity:{}", ch));
    }
    run_req.push("announce_header".into());
    run_req.push("invitation".into());
    run_req.push("attacker_key".into());

    for req in run_req {
        if let Some(o) = only {
            if o != req.as_str() {
                continue;
            }
        }
        out.evaluations += 1;
        let mut verdict: Vec<String> = vec![];
        let sig: Vec<u8> = if let Some(ch) = req.strip_prefix("prove_identity:") {
            let mut challenge = match ch {
                "row_digest" => digest.to_vec(),
                "len0" => vec![],
                "len1" => digest[..1].to_vec(),
                "len31" => digest[..31].to_vec(),
                "len33" => digest.to_vec(),
                "len64" => digest.to_vec(),
                "unrelated32" => blake3::hash(b"c06 unrelated challenge").as_bytes().to_vec(),
                "announce_header_hash" => header.hash().to_vec(),
                "invitation_hash" => invite.hash(),
                _ => unreachable!(),
            };
            if ch == "len33" {
                challenge.push(0);
            }
            if ch == "len64" {
                challenge.extend_from_slice(&digest);
            }
            out.transitions += 1;
            let ans = prove_identity(a, challenge.clone()).await?;
            if ans.peer.verifying_key != a.verifying_key {
                return Err("ProveIdentity answered with another identity".into());
            }
            // is the answer a signature of the bare challenge (what the protocol's client checks)?
            let bare = import_verifying_key(&a.verifying_key)
                .map_err(|e| e.to_string())?
                .verify(&challenge, &ans.chall_signature)
                .is_ok();
            verdict.push(if bare { "signs_bare_challenge".into() } else { "does_not_sign_bare_challenge".into() });
            ans.chall_signature
        } else if req == "announce_header" {
            // model binding: the signed message is blake3(endpoint id | certificate hash)
            if arow.digest() != header.hash() {
                out.violation("B:conformance:announce_header:hash-differs-from-model", "AnnounceHeader::hash is not the modelled digest", json!({"part":"B","forged":f.name(),"request":req}));
            }
            let mut aliases = vec![];
            for k in ROW_KINDS {
                parses(&arow.concat(), k, &mut aliases);
            }
            verdict.push(format!("row_aliases_of_signed_bytes:{}", aliases.len()));
            for r2 in aliases {
                out.transitions += 1;
                if r2.acceptable() && to_real(&r2, announce_sig.clone()).verify().is_ok() {
                    out.violation(
                        format!("B:announce_header>{}", r2.kind.name()),
                        format!("the signature of an announce header verifies as the row {}", r2.describe()),
                        json!({"part":"B","forged":f.name(),"request":req}),
                    );
                }
            }
            announce_sig.clone()
        } else if req == "invitation" {
            let ok = import_verifying_key(&a.verifying_key)
                .map_err(|e| e.to_string())?
                .verify(&irow.digest(), &invite.invite_sign)
                .is_ok();
            if !ok || irow.digest().to_vec() != invite.hash() {
                out.violation("B:conformance:invitation:hash-differs-from-model", "the invitation signature is not over the modelled digest", json!({"part":"B","forged":f.name(),"request":req}));
            }
            let mut aliases = vec![];
            for k in ROW_KINDS {
                parses(&irow.concat(), k, &mut aliases);
            }
            verdict.push(format!("row_aliases_of_signed_bytes:{}", aliases.len()));
            for r2 in aliases {
                out.transitions += 1;
                if r2.acceptable() && to_real(&r2, invite.invite_sign.clone()).verify().is_ok() {
                    out.violation(
                        format!("B:invitation>{}", r2.kind.name()),
                        format!("the signature of an invitation verifies as the row {}", r2.describe()),
                        json!({"part":"B","forged":f.name(),"request":req}),
                    );
                }
            }
            invite.invite_sign.clone()
        } else {
            // control: the attacker signs the digest with its own key, the row still names A
            Keys::new().model_sign(1, &digest)
        };

        out.transitions += 1;
        let v = attach_and_verify(&row, &sig);
        let req_class = req.split(':').next().unwrap().to_string();
        if v.is_ok() {
            verdict.push("verifies_as_row_of_the_victim".into());
            let ing = ingest(c, w.room.id, &row, &sig).await?;
            out.transitions += 1;
            verdict.push(format!("honest_member:{}", ing.split('(').next().unwrap()));
            out.count(&format!("B:forged_{}:honest_member:{}", f.name(), ing.split('(').next().unwrap()));
            out.violation(
                format!("B:{}>{}", req_class, f.name()),
                format!(
                    "a stranger obtains through {} a signature that the real verify() accepts on a {} naming the instance's user as author (row: {}); real ingestion by an honest room member: {}",
                    req, f.name(), mrow.describe(), ing
                ),
                json!({"part": "B", "forged": f.name(), "request": req}),
            );
        } else {
            verdict.push("not_valid_for_the_forged_row".into());
            out.count("B:signature_not_valid_for_the_forged_row");
        }
        if verbose {
            println!("  forged={} request={} -> {:?}", f.name(), req, verdict);
        }
        out.state(&(f, &req, &verdict));
        out.nontrivial(&(req_class, &verdict));
        if f == Forged::NodeNew && (req.ends_with("row_digest") || req == "invitation") {
            out.sample(json!({"part": "B", "forged": f.name(), "request": req, "verdict": verdict}));
        }
    }
    stored_rows_verify(a, out).await?;
    stored_rows_verify(c, out).await?;
    Ok(())
}

fn part_b(out: &mut Outcome) {
    let root = scratch_root();
    let _g = ScratchGuard(root.clone());
    let rt = runtime();
    for f in Forged::ALL {
        let r = rt.block_on(part_b_case(&root, f, None, out, false));
        if let Err(e) = r {
            out.machinery_errors.push(format!("part B {}: {}", f.name(), e));
        }
    }
}

// ---------------------------------------------------------------------------------------------
// part C: every row and reference contained in a room definition is signature-checked on receipt
// ---------------------------------------------------------------------------------------------

/// the contained items of a room definition, addressed by (list, index path)
fn room_items(rn: &discret::verif::database::room_node::RoomNode) -> Vec<(String, Vec<usize>)> {
    let mut v = vec![("room-row".to_string(), vec![])];
    for i in 0..rn.admin_nodes.len() {
        v.push(("admin-entry".into(), vec![i]));
    }
    for i in 0..rn.admin_edges.len() {
        v.push(("admin-reference".into(), vec![i]));
    }
    for i in 0..rn.auth_edges.len() {
        v.push(("group-reference".into(), vec![i]));
    }
    for (g, a) in rn.auth_nodes.iter().enumerate() {
        v.push(("group-row".into(), vec![g]));
        for i in 0..a.user_nodes.len() {
            v.push(("user-entry".into(), vec![g, i]));
        }
        for i in 0..a.user_edges.len() {
            v.push(("user-reference".into(), vec![g, i]));
        }
        for i in 0..a.right_nodes.len() {
            v.push(("right-entry".into(), vec![g, i]));
        }
        for i in 0..a.right_edges.len() {
            v.push(("right-reference".into(), vec![g, i]));
        }
        for i in 0..a.user_admin_nodes.len() {
            v.push(("user-admin-entry".into(), vec![g, i]));
        }
        for i in 0..a.user_admin_edges.len() {
            v.push(("user-admin-reference".into(), vec![g, i]));
        }
    }
    v
}

enum ItemMut<'a> {
    N(&'a mut Node),
    E(&'a mut Edge),
}

fn room_item_mut<'a>(rn: &'a mut discret::verif::database::room_node::RoomNode, list: &str, path: &[usize]) -> ItemMut<'a> {
    match list {
        "room-row" => ItemMut::N(&mut rn.node),
        "admin-entry" => ItemMut::N(&mut rn.admin_nodes[path[0]].node),
        "admin-reference" => ItemMut::E(&mut rn.admin_edges[path[0]]),
        "group-reference" => ItemMut::E(&mut rn.auth_edges[path[0]]),
        "group-row" => ItemMut::N(&mut rn.auth_nodes[path[0]].node),
        "user-entry" => ItemMut::N(&mut rn.auth_nodes[path[0]].user_nodes[path[1]].node),
        "user-reference" => ItemMut::E(&mut rn.auth_nodes[path[0]].user_edges[path[1]]),
        "right-entry" => ItemMut::N(&mut rn.auth_nodes[path[0]].right_nodes[path[1]].node),
        "right-reference" => ItemMut::E(&mut rn.auth_nodes[path[0]].right_edges[path[1]]),
        "user-admin-entry" => ItemMut::N(&mut rn.auth_nodes[path[0]].user_admin_nodes[path[1]].node),
        "user-admin-reference" => ItemMut::E(&mut rn.auth_nodes[path[0]].user_admin_edges[path[1]]),
        _ => unreachable!(),
    }
}

const ROOM_TAMPERS: [&str; 4] = ["signature-bit-flipped", "content-changed-after-signing", "key-replaced", "date-changed-after-signing"];

async fn part_c_run(root: &PathBuf, out: &mut Outcome, only: Option<(&str, &str)>) -> Result<(), String> {
    use crate::rooms::REvent;
    use discret::verif::signature_verification_service::SignatureVerificationService;
    set_clock(tick(0));
    let u = Universe::start(root).await?;
    // a definition with every list populated: two administrators, two groups, users, rights, user administrators
    let mut room = u
        .create_room(
            0,
            tick(0),
            &[
                (vec![("ns.P", true, false), ("ns.Q", true, true)], vec![1, 2], vec![1]),
                (vec![("*", true, false)], vec![3], vec![2, 3]),
            ],
        )
        .await?;
    if !u.apply_event(&mut room, &REvent::AddAdmin { key: 1, enabled: true }, 0, tick(4)).await? {
        return Err("part C: honest event refused".into());
    }
    let export = u.peers[0].db.get_room_node(room.id).await.map_err(|e| e.to_string())?.ok_or("part C: no export")?;
    let export: discret::verif::database::room_node::RoomNode = bincode::deserialize(&bincode::serialize(&export).map_err(|e| e.to_string())?).map_err(|e| e.to_string())?;
    // the honest definition passes, directly and through the service of a receiving instance
    out.evaluations += 1;
    if let Err(e) = SignatureVerificationService::room_check(export.clone()) {
        out.violation("C:room-definition:honest:refused".to_string(), format!("the honest room definition fails its signature check: {}", e), json!({"part": "C", "item": "honest"}));
    }
    let other_key = u.keys[3].clone();
    let items = room_items(&export);
    let mut lists: BTreeSet<String> = BTreeSet::new();
    for (list, path) in &items {
        lists.insert(list.clone());
        for tamper in ROOM_TAMPERS {
            if let Some((l, t)) = only {
                if l != list || t != tamper {
                    continue;
                }
            }
            let mut x = export.clone();
            match room_item_mut(&mut x, list, path) {
                ItemMut::N(n) => match tamper {
                    "signature-bit-flipped" => n._signature[7] ^= 0x10,
                    "content-changed-after-signing" => {
                        let mut v: Value = serde_json::from_str(n._json.as_deref().unwrap_or("{}")).unwrap_or(json!({}));
                        v["32"] = json!("changed after signing");
                        n._json = Some(v.to_string());
                    }
                    "key-replaced" => n.verifying_key = other_key.clone(),
                    _ => n.mdate += 1,
                },
                ItemMut::E(e) => match tamper {
                    "signature-bit-flipped" => e.signature[7] ^= 0x10,
                    "content-changed-after-signing" => e.dest[0] ^= 1,
                    "key-replaced" => e.verifying_key = other_key.clone(),
                    _ => e.cdate += 1,
                },
            }
            out.evaluations += 1;
            out.transitions += 2;
            let direct = SignatureVerificationService::room_check(x.clone()).is_ok();
            let service = u.peers[1].services.signature_verification.verify_room_node(x).await.is_ok();
            let verdict = if direct || service { "accepted" } else { "refused" };
            out.count(&format!("C:{}:{}", list, verdict));
            out.state(&("C", list, tamper, verdict));
            out.nontrivial(&("C", list, verdict));
            if direct || service {
                out.violation(
                    format!("C:room-definition:{}:{}:accepted", list, tamper),
                    format!("a room definition whose {} (position {:?}) is {} passes the signature check of a receiving instance (direct: {}, service: {})", list, path, tamper, direct, service),
                    json!({"part": "C", "item": list, "tamper": tamper}),
                );
            }
        }
    }
    if only.is_none() && lists.len() != 11 {
        out.machinery_errors.push(format!("part C: the fixture definition populates {} of 11 lists", lists.len()));
    }
    Ok(())
}

fn part_c(out: &mut Outcome, only: Option<(&str, &str)>) {
    let root = scratch_root();
    let _g = ScratchGuard(root.clone());
    let rt = runtime();
    if let Err(e) = rt.block_on(part_c_run(&root, out, only)) {
        out.machinery_errors.push(format!("part C: {}", e));
    }
}

// ---------------------------------------------------------------------------------------------
// replay, run
// ---------------------------------------------------------------------------------------------

fn replay(path: &str) -> i32 {
    let text = match std::fs::read_to_string(path) {
        Ok(t) => t,
        Err(e) => {
            eprintln!("machinery error: {}", e);
            return 2;
        }
    };
    let v: Value = serde_json::from_str(&text).expect("json");
    let r = if v.get("replay").is_some() { &v["replay"] } else { &v };
    let keys = Keys::new();
    let part = r["part"].as_str().unwrap_or("");
    let mut lines = vec![];
    for round in 0..2 {
        let line = match part {
            "A" => {
                let signed = Row::from_json(&r["signed"]).expect("row");
                let other = Row::from_json(&r["other"]).expect("row");
                let sig = real_sign(&signed, &keys);
                match sig {
                    Ok(sig) => {
                        let own = to_real(&signed, sig.clone()).verify();
                        let oth = to_real(&other, sig.clone()).verify();
                        format!(
                            "signed {} | signature {}.. | verify(signed)={:?} | other {} | rows differ={} | verify(other with the same signature)={:?} | key={}",
                            signed.describe(), &hex::encode(&sig[..6]), own, other.describe(), signed != other, oth, finding_key(&signed, &other)
                        )
                    }
                    Err(e) => format!("real sign() refuses {}: {}", signed.describe(), e),
                }
            }
            "A-conformance" | "A-stored" => {
                let row = Row::from_json(&r["row"]).expect("row");
                let mut acc = Acc::default();
                let conn = new_conn();
                eval_row(0, &row, 0, &keys, &conn, &mut acc, false);
                format!("{} -> {:?}", row.describe(), acc.wit.keys().collect::<Vec<_>>())
            }
            "B" => {
                let f = Forged::from_name(r["forged"].as_str().unwrap_or("")).expect("forged kind");
                let req = r["request"].as_str().unwrap_or("").to_string();
                let root = scratch_root();
                let _g = ScratchGuard(root.clone());
                let rt = runtime();
                let mut out = Outcome::default();
                match rt.block_on(part_b_case(&root, f, Some(&req), &mut out, true)) {
                    Ok(()) => format!(
                        "violations: {:?}",
                        out.violations.iter().map(|v| format!("{} :: {}", v.key, v.what)).collect::<Vec<_>>()
                    ),
                    Err(e) => format!("machinery error: {}", e),
                }
            }
            "C" => {
                let mut out = Outcome::default();
                part_c(&mut out, Some((r["item"].as_str().unwrap_or(""), r["tamper"].as_str().unwrap_or(""))));
                format!("violations: {:?} errors: {:?}", out.violations.iter().map(|v| format!("{} :: {}", v.key, v.what)).collect::<Vec<_>>(), out.machinery_errors)
            }
            other => format!("unknown replay part {:?}", other),
        };
        println!("replay round {}: {}", round, line);
        lines.push(line);
    }
    if lines[0] != lines[1] {
        eprintln!("machinery error: the two replay rounds differ");
        return 2;
    }
    0
}

pub fn run(args: &Args) -> i32 {
    if let Some(p) = &args.replay {
        return replay(p);
    }
    let start = Instant::now();
    let keys = Keys::new();
    let mut out = Outcome::default();
    let only_a = args.extra.iter().any(|e| e == "--only-a");
    let only_b = args.extra.iter().any(|e| e == "--only-b");
    let mut bounds_a = json!(null);
    if !only_b {
        bounds_a = part_a(args, &keys, &mut out);
    }
    let t_a = start.elapsed().as_secs_f64();
    if !only_a {
        part_b(&mut out);
    }
    if !only_a && !only_b {
        part_c(&mut out, None);
    }
    out.notes.push(format!("part A {:.1}s, part B {:.1}s", t_a, start.elapsed().as_secs_f64() - t_a));
    // every evaluation ran the real sign()/verify()/serving code: there is no separate model run
    out.traces_validated = out.evaluations;
    let mut hist: Vec<String> = out.outcomes.iter().map(|(k, v)| format!("{}={}", k, v)).collect();
    hist.sort();
    for h in &hist {
        println!("  {}", h);
    }
    let meta = CheckMeta {
        prop: "C06",
        level: "model_checking",
        rule: "E-SHAPE. Part A: every row of the bounded domain of each of the 4 signed kinds (mixed radix index); per row: conformance of the layout model with the real sign()/verify() (signature of the model digest must verify, real sign() must give the same signature, signature of a 1-bit different digest must not verify, bincode = model field list, written and read back through the real routines still verifies), then ALL rows of all kinds with the same signed bytes (any length) replayed on the real code, then buckets of the real signatures over the whole domain. Part B: forged row kind x request; states = distinct (kind, presence/length pattern, fixed assignment, verdict) resp. (forged kind, request, verdict); non-trivial = distinct (kind, verdict) resp. (request class, verdict)".into(),
        bounds: json!({
            "part_a": bounds_a,
            "part_b": {
                "forged_rows": Forged::ALL.iter().map(|f| f.name()).collect::<Vec<_>>(),
                "prove_identity_challenges": CHALLENGES,
                "other_signing_sites": ["announce_header (AnnounceHeader::hash signed as in peer_manager.rs)", "invitation (Invite::create)", "control: attacker's own key"],
                "worlds": 5
            }
        }),
        assumptions: vec![
            "blake3 is collision resistant and ed25519 unforgeable: equal signed bytes <=> equal digest <=> one signature; the model digest is bound to the real one only through sign()/verify() results".into(),
            "ed25519 signatures are deterministic (equal real signatures <=> equal real digests under one key)".into(),
            "a row counts only if the real sign() accepts the signed row and the real verify() accepts the alias (entity not empty, json an object, reference below 1 KiB)".into(),
            "announce headers and invitations sign bytes chosen by the instance (endpoint id, certificate hash, invitation id, application name), not by a peer: they are bound to the model and searched for row aliases with the instance's actual values only".into(),
            "ProveIdentity is driven through InboundQueryService::process_inbound directly (no QUIC transport); the honest member's ingestion is the sequence of calls synchronise_day makes (filter_existing_node, verify_*, add_*/delete_*)".into(),
        ],
        exhaustive_claim: true,
    };
    finish(args, &meta, &out, start)
}
