//! C16 — concurrent mutations of one row do not lose acknowledged changes.
//!
//! E-SCHED. Mutations m1..mn (n=2 quick, 3 thorough) on ONE row, kinds from a fixed catalogue, labelled in
//! validation order (the authorisation actor and the writer are FIFO, so validation order = commit order).
//! Atomic steps: R_i (`MutationQuery::execute`, the snapshot read), V_i (`validate_mutation`, sign + rights),
//! C_b (`process_batch_write` of batch b, a FIFO group of validated mutations). Every linear extension of
//! R_i < V_i < C(i), V_1 < .. < V_n, C_1 < .. < C_k, for every batch partition, is run on the real phase
//! functions in the light world. Oracle: the final row + references must be the result of one of the
//! serial executions (all orders) of the acknowledged mutations, computed with the same functions.
//! Realisability / conformance: every schedule class (batch partition + number of commits that precede
//! each read) is forced on the real `GraphDatabaseService` (2 reader threads) with the two gates of
//! `discret::verif_hooks` and must end in the same state as the light world.
use crate::common::*;
use crate::light::*;
use crate::world::*;
use discret::verif::database::edge::Edge;
use discret::verif::database::graph_database::DbMessage;
use discret::verif::database::node::Node;
use discret::verif::database::query_language::data_model_parser::DataModel;
use discret::verif::database::query_language::mutation_parser::MutationParser;
use discret::verif::database::query_language::parameter::{Parameters, ParametersAdd};
use discret::verif::database::sqlite_database::{WriteMessage, Writeable};
use discret::verif::security::Uid;
use discret::verif_hooks;
use rusqlite::Connection;
use serde::{Deserialize, Serialize};
use serde_json::{json, Value};
use std::collections::BTreeMap;
use std::sync::atomic::{AtomicBool, AtomicUsize, Ordering};
use std::sync::{Arc, Mutex};
use std::time::{Duration, Instant};
use tokio::sync::oneshot;

pub const MODEL: &str =
    "c16 { P { f:String, g:String, h:String, q:c16.Q nullable, qs:[c16.Q] nullable, es:[c16.Q] nullable } Q { name:String } }";
const READER_GATE: &str = "reader.after_execute";
const WRITER_GATE: &str = "writer.before_batch";

// ------------------------------------------------------------------------------------------------
// alphabet
// ------------------------------------------------------------------------------------------------

#[derive(Clone, Copy, PartialEq, Eq, Hash, PartialOrd, Ord, Debug, Serialize, Deserialize)]
pub enum Kind {
    SetF,
    SetG,
    SetF2,
    AddRef,
    ReplRef,
    ReplRef2,
    Move,
    /// clears a reference list that is already empty: assigns nothing, so it must not write the row
    ClearEmpty,
}
pub const KINDS: [Kind; 8] = [
    Kind::SetF,
    Kind::SetG,
    Kind::SetF2,
    Kind::AddRef,
    Kind::ReplRef,
    Kind::ReplRef2,
    Kind::Move,
    Kind::ClearEmpty,
];
impl Kind {
    pub fn name(&self) -> &'static str {
        match self {
            Kind::SetF => "setF",
            Kind::SetG => "setG",
            Kind::SetF2 => "setF2",
            Kind::AddRef => "addRef",
            Kind::ReplRef => "replRef",
            Kind::ReplRef2 => "replRef2",
            Kind::Move => "moveRoom",
            Kind::ClearEmpty => "clearEmptyRef",
        }
    }
    pub fn idx(&self) -> usize {
        KINDS.iter().position(|k| k == self).unwrap()
    }
    pub fn text(&self) -> &'static str {
        match self {
            Kind::SetF => "mutate { c16.P { id:$id f:\"fone\" } }",
            Kind::SetG => "mutate { c16.P { id:$id g:\"gone\" } }",
            Kind::SetF2 => "mutate { c16.P { id:$id f:\"ftwo\" } }",
            Kind::AddRef => "mutate { c16.P { id:$id qs:[{id:$q1}] } }",
            Kind::ReplRef => "mutate { c16.P { id:$id q:{id:$q1} } }",
            Kind::ReplRef2 => "mutate { c16.P { id:$id q:{id:$q2} } }",
            Kind::Move => "mutate { c16.P { id:$id room_id:$r2 h:\"hone\" } }",
            Kind::ClearEmpty => "mutate { c16.P { id:$id es:null } }",
        }
    }
    /// does the mutation write the row itself (a reference change re-signs it; clearing nothing does not)
    pub fn writes_row(&self) -> bool {
        !matches!(self, Kind::ClearEmpty)
    }
    /// parts of the row this kind assigns (what the serial result owes to it)
    pub fn owns(&self) -> &'static [&'static str] {
        match self {
            Kind::SetF | Kind::SetF2 => &["f"],
            Kind::SetG => &["g"],
            Kind::AddRef => &["qs"],
            Kind::ClearEmpty => &[],
            Kind::ReplRef | Kind::ReplRef2 => &["q"],
            Kind::Move => &["room", "h"],
        }
    }
}
const NODE_PARTS: [&str; 4] = ["f", "g", "h", "room"];
const PARTS: [&str; 7] = ["f", "g", "h", "room", "q", "qs", "sig"];

fn kinds_name(kinds: &[Kind]) -> String {
    kinds.iter().map(|k| k.name()).collect::<Vec<_>>().join("+")
}

/// ordered tuples of distinct kinds, pairs first (simplest first)
pub fn tuples(n: usize) -> Vec<Vec<Kind>> {
    let mut res: Vec<Vec<Kind>> = vec![vec![]];
    for _ in 0..n {
        let mut next = vec![];
        for t in &res {
            for k in KINDS {
                if !t.contains(&k) {
                    let mut t2 = t.clone();
                    t2.push(k);
                    next.push(t2);
                }
            }
        }
        res = next;
    }
    res
}

/// batch index of every label for each composition of n (FIFO groups)
pub fn partitions(n: usize) -> Vec<Vec<usize>> {
    let mut res = vec![];
    for mask in 0..(1u32 << (n - 1)) {
        // bit i set = batch boundary between label i and i+1
        let mut b = vec![0usize; n];
        for i in 1..n {
            b[i] = b[i - 1] + ((mask >> (i - 1)) & 1) as usize;
        }
        res.push(b);
    }
    // fewer batches last? simplest first = one mutation per batch first (the natural sequential shape)
    res.sort_by_key(|b| std::cmp::Reverse(*b.last().unwrap()));
    res
}

#[derive(Clone, Copy, PartialEq, Eq, Hash, PartialOrd, Ord, Debug, Serialize, Deserialize)]
pub enum Step {
    R(usize),
    V(usize),
    C(usize),
}
fn steps_name(steps: &[Step]) -> String {
    steps
        .iter()
        .map(|s| match s {
            Step::R(i) => format!("R{}", i + 1),
            Step::V(i) => format!("V{}", i + 1),
            Step::C(b) => format!("C{}", b + 1),
        })
        .collect::<Vec<_>>()
        .join(" ")
}

/// all linear extensions of the pipeline's partial order for the batch assignment `b`
pub fn extensions(b: &[usize]) -> Vec<Vec<Step>> {
    let n = b.len();
    let k = b[n - 1] + 1;
    let mut res = vec![];
    let mut cur: Vec<Step> = vec![];
    // state: which reads are done, number of validations done, number of commits done
    fn rec(
        n: usize,
        k: usize,
        b: &[usize],
        read: &mut Vec<bool>,
        vdone: usize,
        cdone: usize,
        cur: &mut Vec<Step>,
        res: &mut Vec<Vec<Step>>,
    ) {
        if cdone == k {
            res.push(cur.clone());
            return;
        }
        for i in 0..n {
            if !read[i] {
                read[i] = true;
                cur.push(Step::R(i));
                rec(n, k, b, read, vdone, cdone, cur, res);
                cur.pop();
                read[i] = false;
            }
        }
        if vdone < n && read[vdone] {
            cur.push(Step::V(vdone));
            rec(n, k, b, read, vdone + 1, cdone, cur, res);
            cur.pop();
        }
        // commit of batch `cdone`: all its members validated
        let last_member = (0..n).filter(|i| b[*i] == cdone).max().unwrap();
        if vdone > last_member {
            cur.push(Step::C(cdone));
            rec(n, k, b, read, vdone, cdone + 1, cur, res);
            cur.pop();
        }
    }
    let mut read = vec![false; n];
    rec(n, k, b, &mut read, 0, 0, &mut cur, &mut res);
    // a read after the last commit is impossible (R_i < V_i < C(i)), so every extension is complete
    res
}

/// number of commits that precede each read
pub fn read_pattern(n: usize, steps: &[Step]) -> Vec<usize> {
    let mut r = vec![0; n];
    let mut c = 0;
    for s in steps {
        match s {
            Step::R(i) => r[*i] = c,
            Step::C(_) => c += 1,
            _ => {}
        }
    }
    r
}

/// order of the reads (labels, first read first)
pub fn read_order(steps: &[Step]) -> Vec<usize> {
    steps
        .iter()
        .filter_map(|s| match s {
            Step::R(i) => Some(*i),
            _ => None,
        })
        .collect()
}

/// Schedule class: what a schedule can influence. Batch of every label, number of commits that precede
/// every read, order of the reads (= order of the dates the mutations carry).
#[derive(Clone, Debug, PartialEq, Eq, Hash, PartialOrd, Ord, Serialize, Deserialize)]
pub struct Class {
    pub b: Vec<usize>,
    pub r: Vec<usize>,
    pub order: Vec<usize>,
}
impl Class {
    pub fn of(b: &[usize], steps: &[Step]) -> Class {
        Class { b: b.to_vec(), r: read_pattern(b.len(), steps), order: read_order(steps) }
    }
    /// same batches and commits-before-reads, reads in label order inside every window
    pub fn canonical(&self) -> Class {
        let mut order: Vec<usize> = (0..self.b.len()).collect();
        order.sort_by_key(|i| (self.r[*i], *i));
        Class { b: self.b.clone(), r: self.r.clone(), order }
    }
    pub fn name(&self) -> String {
        format!(
            "batches={} commits-before-read={} read-order={}",
            self.b.iter().map(|x| (x + 1).to_string()).collect::<Vec<_>>().join(""),
            self.r.iter().map(|x| x.to_string()).collect::<Vec<_>>().join(""),
            self.order.iter().map(|x| (x + 1).to_string()).collect::<Vec<_>>().join("")
        )
    }
}

// ------------------------------------------------------------------------------------------------
// fixture and canonical state (shared by both worlds)
// ------------------------------------------------------------------------------------------------

#[derive(Clone, Debug)]
pub struct Fix {
    pub r1: Uid,
    pub r2: Uid,
    pub q: [Uid; 3],
    pub p_short: String,
    pub f: String,
    pub g: String,
    pub h: String,
    pub lq: String,
    pub lqs: String,
}

fn names_of(model: &DataModel) -> Result<(String, String, String, String, String, String), String> {
    let p = model.get_entity("c16.P").map_err(|e| e.to_string())?;
    let sn = |n: &str| -> Result<String, String> {
        Ok(p.get_field(n).map_err(|e| e.to_string())?.short_name.clone())
    };
    Ok((p.short_name.clone(), sn("f")?, sn("g")?, sn("h")?, sn("q")?, sn("qs")?))
}

fn room_text() -> &'static str {
    "mutate { sys.Room { admin:[{verif_key:$k}] authorisations:[{ name:\"g\" rights:[{entity:\"c16.P\" mutate_self:true mutate_all:true},{entity:\"c16.Q\" mutate_self:true mutate_all:true}] users:[{verif_key:$k}] }] } }"
}
const NEW_ROW: &str =
    "mutate { c16.P { room_id:$r1 f:\"fzero\" g:\"gzero\" h:\"hzero\" q:{id:$q0} qs:[{id:$q0}] } }";

fn p1(k: &str, v: String) -> Parameters {
    let mut p = Parameters::default();
    p.add(k, v).unwrap();
    p
}
fn new_row_params(fix: &Fix) -> Parameters {
    let mut p = Parameters::default();
    p.add("r1", b64(&fix.r1)).unwrap();
    p.add("q0", b64(&fix.q[0])).unwrap();
    p
}
fn kind_params(kind: Kind, fix: &Fix, id: &Uid) -> Parameters {
    let mut p = Parameters::default();
    p.add("id", b64(id)).unwrap();
    match kind {
        Kind::AddRef | Kind::ReplRef => p.add("q1", b64(&fix.q[1])).unwrap(),
        Kind::ReplRef2 => p.add("q2", b64(&fix.q[2])).unwrap(),
        Kind::Move => p.add("r2", b64(&fix.r2)).unwrap(),
        _ => {}
    }
    p
}

/// canonical, id free end state of the row and its references
#[derive(Clone, Debug, PartialEq, Eq, Hash, PartialOrd, Ord, Serialize, Deserialize)]
pub struct St {
    pub room: String,
    pub f: String,
    pub g: String,
    pub h: String,
    pub q: Vec<String>,
    pub qs: Vec<String>,
    /// "ok" or what does not verify
    pub sig: String,
}
impl St {
    fn part(&self, p: &str) -> String {
        match p {
            "room" => self.room.clone(),
            "f" => self.f.clone(),
            "g" => self.g.clone(),
            "h" => self.h.clone(),
            "q" => self.q.join(","),
            "qs" => self.qs.join(","),
            _ => self.sig.clone(),
        }
    }
    fn show(&self) -> String {
        format!(
            "room={} f={} g={} h={} q=[{}] qs=[{}] sig={}",
            self.room,
            self.f,
            self.g,
            self.h,
            self.q.join(","),
            self.qs.join(","),
            self.sig
        )
    }
}

/// read the row through the real accessors, check the stored signatures
pub fn read_state(conn: &Connection, fix: &Fix, id: &Uid) -> Result<(St, i64), String> {
    let node = Node::get_with_entity(id, &fix.p_short, conn)
        .map_err(|e| e.to_string())?
        .ok_or("row vanished".to_string())?;
    let mut sig = "ok".to_string();
    if node.verify().is_err() {
        sig = "node-signature-invalid".to_string();
    }
    let room = match &node.room_id {
        Some(r) if *r == fix.r1 => "R1".to_string(),
        Some(r) if *r == fix.r2 => "R2".to_string(),
        Some(_) => "other".to_string(),
        None => "none".to_string(),
    };
    let json: Value = match &node._json {
        Some(j) => serde_json::from_str(j).map_err(|e| e.to_string())?,
        None => json!({}),
    };
    let field = |short: &str| -> String {
        match json.get(short) {
            Some(Value::String(s)) => s.clone(),
            Some(v) => v.to_string(),
            None => "<absent>".to_string(),
        }
    };
    let qname = |u: &Uid| -> String {
        match fix.q.iter().position(|x| x == u) {
            Some(i) => format!("Q{}", i),
            None => "Q?".to_string(),
        }
    };
    let mut refs = |label: &str| -> Result<Vec<String>, String> {
        let edges = Edge::get_edges(id, label, conn).map_err(|e| e.to_string())?;
        let mut v = vec![];
        for e in &edges {
            if e.verify().is_err() {
                sig = "edge-signature-invalid".to_string();
            }
            v.push(qname(&e.dest));
        }
        v.sort();
        Ok(v)
    };
    let q = refs(&fix.lq)?;
    let qs = refs(&fix.lqs)?;
    Ok((
        St {
            room,
            f: field(&fix.f),
            g: field(&fix.g),
            h: field(&fix.h),
            q,
            qs,
            sig,
        },
        node.mdate,
    ))
}

// ------------------------------------------------------------------------------------------------
// light world
// ------------------------------------------------------------------------------------------------

pub struct Light {
    pub lp: LPeer,
    pub fix: Fix,
    pub parsers: Vec<Arc<MutationParser>>,
    /// serial result of a sequence of kinds (None = some mutation of the sequence is refused)
    pub serial_cache: BTreeMap<Vec<Kind>, Option<St>>,
    pub runs: i64,
    pub transitions: u64,
}

fn id_of(q: &discret::verif::database::mutation_query::MutationQuery) -> Uid {
    q.mutate_entities[0].node_to_mutate.id
}

impl Light {
    pub fn new() -> Result<Light, String> {
        set_clock(T0);
        let mut lp = LPeer::new(1, MODEL)?;
        let key = b64(&lp.key());
        let r1 = id_of(&lp.mutate(room_text(), p1("k", key.clone()))?);
        let r2 = id_of(&lp.mutate(room_text(), p1("k", key.clone()))?);
        set_clock(T0 + 1000);
        let mut q = [r1; 3];
        for (i, slot) in q.iter_mut().enumerate() {
            let mut p = Parameters::default();
            p.add("r", b64(&r1)).unwrap();
            p.add("n", format!("target{}", i)).unwrap();
            *slot = id_of(&lp.mutate("mutate { c16.Q { room_id:$r name:$n } }", p)?);
        }
        let (p_short, f, g, h, lq, lqs) = names_of(&lp.model)?;
        let fix = Fix { r1, r2, q, p_short, f, g, h, lq, lqs };
        let mut parsers = vec![];
        for k in KINDS {
            parsers.push(lp.parse_mutation(k.text())?);
        }
        Ok(Light {
            lp,
            fix,
            parsers,
            serial_cache: BTreeMap::new(),
            runs: 0,
            transitions: 0,
        })
    }

    fn next_base(&mut self) -> i64 {
        self.runs += 1;
        T0 + 10_000 + self.runs * 10_000
    }

    fn new_row(&mut self, base: i64) -> Result<Uid, String> {
        set_clock(base);
        let p = new_row_params(&self.fix);
        let q = self.lp.mutate(NEW_ROW, p)?;
        Ok(id_of(&q))
    }

    /// the mutations one after another, each one complete before the next starts
    pub fn serial(&mut self, seq: &[Kind]) -> Result<Option<St>, String> {
        if let Some(s) = self.serial_cache.get(seq) {
            return Ok(s.clone());
        }
        let base = self.next_base();
        let id = self.new_row(base)?;
        let mut res = None;
        let mut refused = false;
        for (pos, k) in seq.iter().enumerate() {
            set_clock(base + (pos as i64 + 1) * 1000);
            let p = kind_params(*k, &self.fix, &id);
            self.transitions += 3;
            if self.lp.mutate(k.text(), p).is_err() {
                refused = true;
                break;
            }
        }
        if !refused {
            res = Some(read_state(&self.lp.conn, &self.fix, &id)?.0);
        }
        self.serial_cache.insert(seq.to_vec(), res.clone());
        Ok(res)
    }

    /// one schedule on the real phase functions
    pub fn run(&mut self, kinds: &[Kind], b: &[usize], steps: &[Step]) -> Result<RunResult, String> {
        let n = kinds.len();
        let base = self.next_base();
        let id = self.new_row(base)?;
        let mut pending: Vec<Option<discret::verif::database::mutation_query::MutationQuery>> =
            (0..n).map(|_| None).collect();
        let mut dates = vec![0i64; n];
        let mut acked = vec![false; n];
        let mut errors: Vec<Option<String>> = vec![None; n];
        let mut rpos = 0i64;
        for s in steps {
            self.transitions += 1;
            match s {
                Step::R(i) => {
                    rpos += 1;
                    dates[*i] = base + rpos * 1000;
                    set_clock(dates[*i]);
                    let mut p = kind_params(kinds[*i], &self.fix, &id);
                    match self.lp.execute(self.parsers[kinds[*i].idx()].clone(), &mut p) {
                        Ok(q) => pending[*i] = Some(q),
                        Err(e) => errors[*i] = Some(format!("execute: {}", e)),
                    }
                }
                Step::V(i) => {
                    set_clock(dates[*i]);
                    if let Some(q) = pending[*i].as_mut() {
                        match self.lp.validate(q) {
                            Ok(rooms) if rooms.is_empty() => {}
                            Ok(_) => return Err("unexpected room mutation".into()),
                            Err(e) => {
                                errors[*i] = Some(format!("validate: {}", e));
                                pending[*i] = None;
                            }
                        }
                    }
                }
                Step::C(batch) => {
                    let members: Vec<usize> =
                        (0..n).filter(|i| b[*i] == *batch && pending[*i].is_some()).collect();
                    let mut buffer: Vec<WriteMessage> = members
                        .iter()
                        .map(|i| LPeer::mutation_message(pending[*i].take().unwrap()))
                        .collect();
                    if buffer.is_empty() {
                        continue;
                    }
                    match self.lp.commit(&mut buffer) {
                        Ok(()) => {
                            for i in &members {
                                acked[*i] = true;
                            }
                        }
                        Err(e) => {
                            let _ = self.lp.conn.execute("ROLLBACK", []);
                            for i in &members {
                                errors[*i] = Some(format!("write: {}", e));
                            }
                        }
                    }
                }
            }
        }
        let (state, mdate) = read_state(&self.lp.conn, &self.fix, &id)?;
        let last_writer = dates.iter().position(|d| *d == mdate);
        Ok(RunResult { acked, errors, state, last_writer })
    }
}

#[derive(Clone, Debug, PartialEq, Eq)]
pub struct RunResult {
    pub acked: Vec<bool>,
    pub errors: Vec<Option<String>>,
    pub state: St,
    /// label of the mutation whose date the stored row carries (None = the creation)
    pub last_writer: Option<usize>,
}

// ------------------------------------------------------------------------------------------------
// oracle
// ------------------------------------------------------------------------------------------------

fn permutations(items: &[usize]) -> Vec<Vec<usize>> {
    if items.len() <= 1 {
        return vec![items.to_vec()];
    }
    let mut res = vec![];
    for i in 0..items.len() {
        let mut rest = items.to_vec();
        let x = rest.remove(i);
        for mut p in permutations(&rest) {
            p.insert(0, x);
            res.push(p);
        }
    }
    res
}

pub struct Verdict {
    pub ok: bool,
    /// (key, description)
    pub findings: Vec<(String, String)>,
    pub serial: Vec<(String, St)>,
}

/// final state must be one of the serial outcomes of the acknowledged mutations
pub fn judge(
    light: &mut Light,
    kinds: &[Kind],
    cl: &Class,
    res: &RunResult,
) -> Result<Verdict, String> {
    let (b, r) = (&cl.b, &cl.r);
    let acked: Vec<usize> = (0..kinds.len()).filter(|i| res.acked[*i]).collect();
    let mut serial = vec![];
    for p in permutations(&acked) {
        let seq: Vec<Kind> = p.iter().map(|i| kinds[*i]).collect();
        if let Some(s) = light.serial(&seq)? {
            serial.push((kinds_name(&seq), s));
        }
    }
    if serial.iter().any(|(_, s)| *s == res.state) {
        return Ok(Verdict { ok: true, findings: vec![], serial });
    }
    // attribution: compare with the serial execution in commit order
    let vseq: Vec<Kind> = acked.iter().map(|i| kinds[*i]).collect();
    let reference = light.serial(&vseq)?;
    let mut findings = vec![];
    let unexplained = |part: &str, why: &str| -> (String, String) {
        (
            format!(
                "unexplained:{} kinds={} {}",
                part,
                kinds_name(kinds),
                cl.name()
            ),
            format!(
                "{} of the final row is not what any serial order gives and the stale-read pattern does not explain it ({}); final: {}",
                part,
                why,
                res.state.show()
            ),
        )
    };
    match reference {
        None => findings.push(unexplained("row", "serial execution in commit order is refused")),
        Some(refs) => {
            let mut lost: BTreeMap<(usize, usize), Vec<&str>> = BTreeMap::new();
            for part in PARTS {
                if refs.part(part) == res.state.part(part) {
                    continue;
                }
                let owners: Vec<usize> = acked
                    .iter()
                    .copied()
                    .filter(|i| kinds[*i].owns().contains(&part))
                    .collect();
                if NODE_PARTS.contains(&part) {
                    // the last owner's assignment is missing: some later acknowledged mutation must have
                    // read the row before the owner's batch was committed and written it back whole
                    match owners.last() {
                        Some(o) => {
                            // later acknowledged mutations that had read the row before the owner's commit; one
                            // that writes the row is the culprit, a mutation that assigns nothing only if no other is
                            let stale: Vec<usize> = acked.iter().copied().filter(|w| *w > *o && r[*w] <= b[*o]).collect();
                            let w = stale.iter().copied().find(|w| kinds[*w].writes_row()).or(stale.first().copied());
                            match w {
                                Some(w) => lost.entry((*o, w)).or_default().push(part),
                                None => findings.push(unexplained(part, "no later stale writer")),
                            }
                        }
                        None => findings.push(unexplained(part, "no acknowledged mutation assigns it")),
                    }
                } else if part == "q" || part == "qs" {
                    // two owners with different targets, the later one computed from references read before the
                    // earlier one was committed; prefer the latest such pair
                    let mut found = false;
                    for o2 in owners.iter().rev() {
                        for o1 in owners.iter().rev() {
                            // the later one must not have seen the earlier one's target at all: when the same
                            // assignment was also issued (and committed) before its read, the target was there to be
                            // replaced and this explanation does not apply
                            let first_commit_of_target = acked
                                .iter()
                                .copied()
                                .filter(|o| kinds[*o] == kinds[*o1])
                                .map(|o| b[o])
                                .min()
                                .unwrap_or(b[*o1]);
                            if o1 < o2 && kinds[*o1] != kinds[*o2] && r[*o2] <= b[*o1] && r[*o2] <= first_commit_of_target && !found {
                                found = true;
                                findings.push((
                                    format!(
                                        "mixed-references:{} first={} stale-second={}",
                                        part,
                                        kinds[*o1].name(),
                                        kinds[*o2].name()
                                    ),
                                    format!(
                                        "{} and {} both computed their reference change from the same old references: {} holds [{}] instead of [{}]",
                                        kinds[*o1].name(),
                                        kinds[*o2].name(),
                                        part,
                                        res.state.part(part),
                                        refs.part(part)
                                    ),
                                ));
                            }
                        }
                    }
                    if !found {
                        findings.push(unexplained(part, "no pair of stale reference writers"));
                    }
                } else {
                    findings.push(unexplained(part, "stored signature does not verify"));
                }
            }
            for ((o, w), parts) in &lost {
                let detail: Vec<String> = parts
                    .iter()
                    .map(|p| format!("{} is {} instead of {}", p, res.state.part(p), refs.part(p)))
                    .collect();
                findings.push((
                    format!(
                        "lost-update victim={}({}) stale-writer={}",
                        kinds[*o].name(),
                        parts.join("+"),
                        kinds[*w].name()
                    ),
                    format!(
                        "{} was acknowledged, then {} (which had read the row before that commit) wrote its old copy of the row back: {}",
                        kinds[*o].name(),
                        kinds[*w].name(),
                        detail.join(", ")
                    ),
                ));
            }
            if findings.is_empty() {
                findings.push(unexplained("row", "differs from every serial outcome"));
            }
        }
    }
    Ok(Verdict { ok: false, findings, serial })
}

// ------------------------------------------------------------------------------------------------
// full world: forcing a schedule class with the two gates
// ------------------------------------------------------------------------------------------------

#[derive(Clone, Debug, PartialEq, Eq, Serialize, Deserialize)]
pub enum Act {
    /// a no-op write that keeps the writer busy so that the next validated mutations share one buffer
    Plug,
    /// issue mutation i; held = through `mutate` with the reader gate closed (parks after execute)
    Issue(usize, bool),
    Release(usize),
    StepPlug,
    StepBatch(Vec<usize>),
}

/// Way to obtain the class from the real pipeline with at most one reader parked at a time.
/// Err = needs two parked readers.
pub fn plan(cl: &Class) -> Result<Vec<Act>, String> {
    #[derive(PartialEq, Clone, Copy)]
    enum S {
        New,
        Held,
        Done,
    }
    let (b, r) = (&cl.b, &cl.r);
    let n = b.len();
    let k = b[n - 1] + 1;
    let mut st = vec![S::New; n];
    let mut acts: Vec<Act> = vec![];
    let mut pre = false;
    // park every read of this window that comes before `upto` in the read order (None = all of them)
    fn park_before(
        window: &[usize],
        upto: Option<usize>,
        st: &mut Vec<S>,
        acts: &mut Vec<Act>,
    ) -> Result<(), String> {
        for j in window {
            if Some(*j) == upto {
                break;
            }
            if st[*j] == S::New {
                acts.push(Act::Issue(*j, true));
                st[*j] = S::Held;
                if st.iter().filter(|s| **s == S::Held).count() > 1 {
                    return Err("needs two parked readers".into());
                }
            }
        }
        Ok(())
    }
    fn validate(
        i: usize,
        c: usize,
        r: &[usize],
        window: &[usize],
        st: &mut Vec<S>,
        acts: &mut Vec<Act>,
    ) -> Result<(), String> {
        match st[i] {
            S::Held => acts.push(Act::Release(i)),
            S::New => {
                if r[i] != c {
                    return Err("read pattern out of range".into());
                }
                park_before(window, Some(i), st, acts)?;
                acts.push(Act::Issue(i, false));
            }
            S::Done => return Err("plan: validated twice".into()),
        }
        st[i] = S::Done;
        Ok(())
    }
    for c in 0..k {
        let members: Vec<usize> = (0..n).filter(|i| b[*i] == c).collect();
        let window: Vec<usize> = cl.order.iter().copied().filter(|i| r[*i] == c).collect();
        if !pre {
            let plug = members.len() > 1;
            if plug {
                acts.push(Act::Plug);
            }
            for i in &members {
                validate(*i, c, r, &window, &mut st, &mut acts)?;
            }
            if plug {
                acts.push(Act::StepPlug);
            }
        }
        // batch c is now parked in front of the writer; the next batch may pile up behind it when all
        // its reads are due
        pre = false;
        if c + 1 < k {
            let next: Vec<usize> = (0..n).filter(|i| b[*i] == c + 1).collect();
            if next.iter().all(|i| r[*i] <= c) {
                for i in &next {
                    validate(*i, c, r, &window, &mut st, &mut acts)?;
                }
                pre = true;
            }
        }
        park_before(&window, None, &mut st, &mut acts)?;
        acts.push(Act::StepBatch(members));
    }
    if st.iter().any(|s| *s != S::Done) {
        return Err("plan: incomplete".into());
    }
    Ok(acts)
}

struct Noop;
impl Writeable for Noop {
    fn write(&mut self, _c: &Connection) -> Result<(), rusqlite::Error> {
        Ok(())
    }
}

pub struct Full {
    pub peer: FPeer,
    pub fix: Fix,
    pub runs: i64,
    pub retries: u64,
}

type Acks = Arc<Mutex<Vec<Option<Result<(), String>>>>>;

async fn poll_until<F: Fn() -> bool>(what: &str, cond: F) -> Result<(), String> {
    let t = Instant::now();
    loop {
        if cond() {
            return Ok(());
        }
        if t.elapsed() > Duration::from_secs(10) {
            return Err(format!("timeout waiting for {}", what));
        }
        tokio::task::yield_now().await;
        std::thread::sleep(Duration::from_micros(40));
    }
}

/// let every actor of the service run until nothing is ready
async fn settle() {
    tokio::time::sleep(Duration::from_millis(1)).await;
}

fn hits(name: &str) -> u64 {
    verif_hooks::fault_hits().get(name).copied().unwrap_or(0)
}

impl Full {
    pub async fn start(root: &std::path::PathBuf) -> Result<Full, String> {
        verif_hooks::open_gate(READER_GATE);
        verif_hooks::open_gate(WRITER_GATE);
        set_clock(T0);
        let config = discret::verif::configuration::Configuration {
            parallelism: 2,
            ..small_config()
        };
        let dir = root.join(format!("c16-{}", std::process::id()));
        let peer = FPeer::start_in("c16", 1, MODEL, dir, config).await?;
        let key = peer.key_b64();
        let mk = |q: discret::verif::database::mutation_query::MutationQuery| id_of(&q);
        let r1 = mk(peer.db.mutate_raw(room_text(), Some(p1("k", key.clone()))).await.map_err(|e| e.to_string())?);
        let r2 = mk(peer.db.mutate_raw(room_text(), Some(p1("k", key.clone()))).await.map_err(|e| e.to_string())?);
        peer.barrier().await;
        set_clock(T0 + 1000);
        let mut q = [r1; 3];
        for (i, slot) in q.iter_mut().enumerate() {
            let mut p = Parameters::default();
            p.add("r", b64(&r1)).unwrap();
            p.add("n", format!("target{}", i)).unwrap();
            *slot = mk(peer
                .db
                .mutate_raw("mutate { c16.Q { room_id:$r name:$n } }", Some(p))
                .await
                .map_err(|e| e.to_string())?);
        }
        peer.barrier().await;
        let dm_json = peer.db.datamodel().await.map_err(|e| e.to_string())?;
        let model: DataModel = serde_json::from_str(&dm_json).map_err(|e| e.to_string())?;
        let (p_short, f, g, h, lq, lqs) = names_of(&model)?;
        Ok(Full {
            peer,
            fix: Fix { r1, r2, q, p_short, f, g, h, lq, lqs },
            runs: 0,
            retries: 0,
        })
    }

    /// both reader threads are inside harness closures = every closure queued before has completed,
    /// including its hand-over to the authorisation actor
    async fn pool_barrier(&self, free_threads: usize) -> Result<(), String> {
        let arrived = Arc::new(AtomicUsize::new(0));
        let release = Arc::new(AtomicBool::new(false));
        for _ in 0..free_threads {
            let a = arrived.clone();
            let r = release.clone();
            self.peer
                .db
                .db
                .reader
                .send_async(Box::new(move |_c| {
                    a.fetch_add(1, Ordering::SeqCst);
                    while !r.load(Ordering::SeqCst) {
                        std::thread::sleep(Duration::from_micros(20));
                    }
                }))
                .await
                .map_err(|e| e.to_string())?;
        }
        let a = arrived.clone();
        let res = poll_until("reader pool barrier", move || a.load(Ordering::SeqCst) == free_threads).await;
        release.store(true, Ordering::SeqCst);
        res
    }

    async fn state_of(&self, id: Uid) -> Result<(St, i64), String> {
        let (tx, rx) = oneshot::channel();
        let fix = self.fix.clone();
        self.peer
            .db
            .db
            .reader
            .send_async(Box::new(move |conn| {
                let _ = tx.send(read_state(conn, &fix, &id));
            }))
            .await
            .map_err(|e| e.to_string())?;
        rx.await.map_err(|e| e.to_string())?
    }

    /// let the parked writer process exactly one buffer
    async fn step_writer(&self) -> Result<(), String> {
        poll_until("writer parked", || verif_hooks::gate_status(WRITER_GATE).0 == 1).await?;
        let (_, passed) = verif_hooks::gate_status(WRITER_GATE);
        verif_hooks::open_gate(WRITER_GATE);
        // no await here: the buffer task cannot hand over another buffer before the gate is closed again
        let t = Instant::now();
        while verif_hooks::gate_status(WRITER_GATE).1 != passed + 1 {
            if t.elapsed() > Duration::from_secs(10) {
                verif_hooks::close_gate(WRITER_GATE);
                return Err("timeout: writer did not pass its gate".into());
            }
            std::thread::sleep(Duration::from_micros(20));
        }
        verif_hooks::close_gate(WRITER_GATE);
        Ok(())
    }

    /// Force the class (b, r) on the service. `callers` = every mutation through the `mutate` message of
    /// concurrent callers (only when no reader has to be parked), otherwise pipelined mutation streams and
    /// `mutate` for the parked one.
    pub async fn force(
        &mut self,
        kinds: &[Kind],
        cl: &Class,
        callers: bool,
    ) -> Result<RunResult, String> {
        let acts = plan(cl)?;
        let mut last = String::new();
        for _attempt in 0..4 {
            match self.force_once(kinds, &acts, callers).await {
                Ok(Some(res)) => return Ok(res),
                Ok(None) => {
                    self.retries += 1;
                    last = "batch composition not as planned".into();
                }
                Err(e) => {
                    verif_hooks::open_gate(READER_GATE);
                    verif_hooks::open_gate(WRITER_GATE);
                    return Err(e);
                }
            }
        }
        Err(format!("could not force {}: {}", cl.name(), last))
    }

    /// Ok(None) = the pipeline grouped the writes differently from the plan (nothing is compared then)
    async fn force_once(
        &mut self,
        kinds: &[Kind],
        acts: &[Act],
        callers: bool,
    ) -> Result<Option<RunResult>, String> {
        let n = kinds.len();
        self.runs += 1;
        let base = T0 + 10_000 + self.runs * 10_000;
        verif_hooks::open_gate(READER_GATE);
        verif_hooks::open_gate(WRITER_GATE);
        set_clock(base);
        let q = self
            .peer
            .db
            .mutate_raw(NEW_ROW, Some(new_row_params(&self.fix)))
            .await
            .map_err(|e| format!("new row: {}", e))?;
        let id = id_of(&q);
        self.peer.barrier().await;

        let has_hold = acts.iter().any(|a| matches!(a, Act::Issue(_, true)));
        if has_hold && callers {
            return Err("callers variant needs an open reader gate".into());
        }
        verif_hooks::close_gate(WRITER_GATE);
        if has_hold {
            verif_hooks::close_gate(READER_GATE);
        }
        let acks: Acks = Arc::new(Mutex::new((0..n).map(|_| None).collect()));
        let mut dates = vec![0i64; n];
        let mut issued = 0i64;
        let mut held = 0usize;
        let mut streams = vec![];
        let mut plug_done: Option<oneshot::Receiver<()>> = None;
        let mut grouped_ok = true;

        for act in acts {
            match act {
                Act::Plug => {
                    let w = self.peer.db.db.writer.clone();
                    let (tx, rx) = oneshot::channel();
                    tokio::spawn(async move {
                        let _ = w.write(Box::new(Noop)).await;
                        let _ = tx.send(());
                    });
                    plug_done = Some(rx);
                    poll_until("plug parked", || verif_hooks::gate_status(WRITER_GATE).0 == 1).await?;
                }
                Act::Issue(i, hold) => {
                    issued += 1;
                    dates[*i] = base + issued * 1000;
                    set_clock(dates[*i]);
                    let text = kinds[*i].text().to_string();
                    let params = kind_params(kinds[*i], &self.fix, &id);
                    let acks2 = acks.clone();
                    let label = *i;
                    if *hold || callers {
                        let (reply, receive) = oneshot::channel();
                        self.peer
                            .db
                            .sender
                            .send(DbMessage::Mutate(text, params, reply))
                            .await
                            .map_err(|e| e.to_string())?;
                        tokio::spawn(async move {
                            let r = match receive.await {
                                Ok(Ok(_)) => Ok(()),
                                Ok(Err(e)) => Err(e.to_string()),
                                Err(e) => Err(e.to_string()),
                            };
                            acks2.lock().unwrap()[label] = Some(r);
                        });
                    } else {
                        let (tx, mut rx) = self.peer.db.mutation_stream();
                        tx.send((text, Some(params))).await.map_err(|e| e.to_string())?;
                        // the stream's forwarding task has taken the message = it is in the service's queue
                        let txc = tx.clone();
                        poll_until("stream forwarded", move || txc.capacity() == txc.max_capacity()).await?;
                        streams.push(tx);
                        tokio::spawn(async move {
                            let r = match rx.recv().await {
                                Some(Ok(_)) => Ok(()),
                                Some(Err(e)) => Err(e.to_string()),
                                None => Err("stream closed".to_string()),
                            };
                            acks2.lock().unwrap()[label] = Some(r);
                        });
                    }
                    // FIFO round trip through the service actor: the read is queued on the reader pool
                    let _ = self.peer.db.datamodel().await;
                    if *hold {
                        held += 1;
                        poll_until("reader parked after execute", || {
                            verif_hooks::gate_status(READER_GATE).0 == 1
                        })
                        .await?;
                    } else {
                        // the read is complete and handed to the authorisation actor ...
                        self.pool_barrier(2 - held).await?;
                        // ... which has validated it and passed it to the write buffer
                        let _ = self.peer.db.sign(vec![0u8; 4]).await;
                        settle().await;
                    }
                }
                Act::Release(_i) => {
                    let (_, passed) = verif_hooks::gate_status(READER_GATE);
                    verif_hooks::open_gate(READER_GATE);
                    let t = Instant::now();
                    while verif_hooks::gate_status(READER_GATE).1 != passed + 1 {
                        if t.elapsed() > Duration::from_secs(10) {
                            return Err("timeout: parked reader did not leave its gate".into());
                        }
                        std::thread::sleep(Duration::from_micros(20));
                    }
                    verif_hooks::close_gate(READER_GATE);
                    held -= 1;
                    self.pool_barrier(2 - held).await?;
                    let _ = self.peer.db.sign(vec![0u8; 4]).await;
                    settle().await;
                }
                Act::StepPlug => {
                    let items = hits("batch.item");
                    self.step_writer().await?;
                    if let Some(rx) = plug_done.take() {
                        tokio::time::timeout(Duration::from_secs(10), rx)
                            .await
                            .map_err(|_| "timeout: plug not acknowledged".to_string())?
                            .map_err(|e| e.to_string())?;
                    }
                    if hits("batch.item") - items != 1 {
                        grouped_ok = false;
                    }
                    settle().await;
                }
                Act::StepBatch(members) => {
                    // members refused before the writer (execute / validate) have answered already
                    let in_buffer: Vec<usize> = {
                        let g = acks.lock().unwrap();
                        members.iter().copied().filter(|i| g[*i].is_none()).collect()
                    };
                    if in_buffer.is_empty() {
                        continue;
                    }
                    let items = hits("batch.item");
                    self.step_writer().await?;
                    let a = acks.clone();
                    let m = in_buffer.clone();
                    poll_until("acknowledgements", move || {
                        let g = a.lock().unwrap();
                        m.iter().all(|i| g[*i].is_some())
                    })
                    .await?;
                    if hits("batch.item") - items != in_buffer.len() as u64 {
                        grouped_ok = false;
                    }
                    settle().await;
                }
            }
        }
        verif_hooks::open_gate(READER_GATE);
        verif_hooks::open_gate(WRITER_GATE);
        // second half of `mutate`: the daily log request every caller sends after its acknowledgement
        drop(streams);
        let _ = self.peer.db.sender.send(DbMessage::ComputeDailyLog()).await;
        settle().await;
        self.peer.barrier().await;
        self.peer.barrier().await;
        if !grouped_ok {
            return Ok(None);
        }
        let (state, mdate) = self.state_of(id).await?;
        let g = acks.lock().unwrap();
        let acked: Vec<bool> = g.iter().map(|a| matches!(a, Some(Ok(())))).collect();
        let errors: Vec<Option<String>> = g
            .iter()
            .map(|a| match a {
                Some(Err(e)) => Some(e.clone()),
                None => Some("no answer".to_string()),
                _ => None,
            })
            .collect();
        let last_writer = dates.iter().position(|d| *d == mdate);
        Ok(Some(RunResult { acked, errors, state, last_writer }))
    }
}

// ------------------------------------------------------------------------------------------------
// exploration
// ------------------------------------------------------------------------------------------------

fn replay_json(kinds: &[Kind], cl: &Class, steps: Option<&[Step]>, world: &str, callers: bool) -> Value {
    json!({
        "kinds": kinds,
        "class": cl,
        "steps": steps,
        "steps_text": steps.map(steps_name),
        "world": world,
        "callers": callers,
    })
}

fn outcome_label(res: &RunResult, ok: bool) -> String {
    let acked = res.acked.iter().filter(|a| **a).count();
    if acked < res.acked.len() {
        format!("{}-of-{}-acknowledged:{}", acked, res.acked.len(), if ok { "serial" } else { "not-serial" })
    } else if ok {
        "all-acknowledged:serial".into()
    } else {
        "all-acknowledged:not-serial".into()
    }
}

fn same(a: &RunResult, b: &RunResult) -> bool {
    a.state == b.state && a.acked == b.acked && a.last_writer == b.last_writer
}

struct ClassInfo {
    res: RunResult,
    steps: Vec<Step>,
    schedules: u64,
    /// findings of the light world for this class: (key, what)
    findings: Vec<(String, String)>,
}

/// everything for one ordered tuple of kinds
pub async fn explore_tuple(
    light: &mut Light,
    mut full: Option<&mut Full>,
    kinds: &[Kind],
    out: &mut Outcome,
) -> Result<(), String> {
    let n = kinds.len();
    let mut classes: BTreeMap<Class, ClassInfo> = BTreeMap::new();
    for b in partitions(n) {
        for steps in extensions(&b) {
            let cl = Class::of(&b, &steps);
            let res = light.run(kinds, &b, &steps)?;
            out.evaluations += 1;
            let v = judge(light, kinds, &cl, &res)?;
            out.count(&format!("light:{}", outcome_label(&res, v.ok)));
            out.state(&res.state);
            let verdict_sig: Vec<String> = v.findings.iter().map(|f| f.0.clone()).collect();
            out.nontrivial(&(kinds_name(kinds), &cl.b, &cl.r, res.acked.clone(), verdict_sig));
            if out.samples.len() < 3 {
                out.sample(json!({"kinds": kinds_name(kinds), "schedule": steps_name(&steps), "class": cl.name(), "final": res.state.show(), "serial": v.ok}));
            }
            match classes.get_mut(&cl) {
                None => {
                    if !v.ok {
                        // replayed before it is kept: same schedule, fresh row, must end the same
                        let again = light.run(kinds, &b, &steps)?;
                        if again != res {
                            out.machinery_errors.push(format!(
                                "replay divergence {} {}",
                                kinds_name(kinds),
                                steps_name(&steps)
                            ));
                        }
                    }
                    classes.insert(cl, ClassInfo { res, steps: steps.clone(), schedules: 1, findings: v.findings });
                }
                Some(info) => {
                    info.schedules += 1;
                    // the class abstraction: schedules of one class must be indistinguishable
                    if !same(&info.res, &res) {
                        out.violation(
                            format!("class-not-deterministic kinds={} {}", kinds_name(kinds), cl.name()),
                            format!(
                                "two schedules with the same batches, the same commits before each read and the same read order end differently: [{}] -> {} ; [{}] -> {}",
                                steps_name(&info.steps),
                                info.res.state.show(),
                                steps_name(&steps),
                                res.state.show()
                            ),
                            replay_json(kinds, &cl, Some(&steps), "light", false),
                        );
                    }
                }
            }
        }
    }
    out.transitions += light.transitions;
    light.transitions = 0;

    // realisability: a finding of the phase-level exploration is reported only for a class the real service
    // was forced into, with the same end state
    let mut confirmed: Vec<&Class> = vec![];
    let mut unforced: Vec<&Class> = vec![];
    for (cl, info) in &classes {
        let Some(full) = full.as_deref_mut() else {
            confirmed.push(cl);
            continue;
        };
        let acts = match plan(cl) {
            Ok(a) => a,
            Err(e) => {
                out.count(&format!("full:not-forced({})", e));
                unforced.push(cl);
                continue;
            }
        };
        let no_hold = !acts.iter().any(|a| matches!(a, Act::Issue(_, true)));
        let mut variants = vec![false];
        if no_hold {
            variants.push(true);
        }
        let mut all_equal = true;
        for callers in variants {
            let fres = full.force(kinds, cl, callers).await?;
            out.evaluations += 1;
            out.transitions += acts.len() as u64;
            let v = judge(light, kinds, cl, &fres)?;
            out.count(&format!(
                "full:{}:{}",
                if callers { "callers" } else if no_hold { "streams" } else { "streams+parked-reader" },
                outcome_label(&fres, v.ok)
            ));
            for (key, what) in &v.findings {
                out.violation(
                    key.clone(),
                    format!("{} [{} | real service, {} | {}]", what, kinds_name(kinds), if callers { "concurrent callers" } else { "mutation streams" }, cl.name()),
                    replay_json(kinds, cl, None, "full", callers),
                );
            }
            if same(&fres, &info.res) {
                out.traces_validated += 1;
                if out.samples.len() < 6 && (!no_hold || !v.ok) {
                    out.sample(json!({"kinds": kinds_name(kinds), "class": cl.name(), "forced_on_service_by": format!("{:?}", acts), "entry_point": if callers { "concurrent callers" } else { "mutation streams" }, "final": fres.state.show(), "serial": v.ok, "equal_to_phase_functions": true}));
                }
            } else {
                all_equal = false;
                out.violation(
                    format!("conformance-mismatch kinds={} {}", kinds_name(kinds), cl.name()),
                    format!(
                        "the real service forced into this class ends differently from the phase functions: service {} acked={:?} last-writer={:?} ; phases {} acked={:?} last-writer={:?}",
                        fres.state.show(),
                        fres.acked,
                        fres.last_writer,
                        info.res.state.show(),
                        info.res.acked,
                        info.res.last_writer
                    ),
                    replay_json(kinds, cl, None, "full", callers),
                );
            }
        }
        if all_equal {
            confirmed.push(cl);
        }
    }
    for cl in confirmed {
        let info = &classes[cl];
        for (key, what) in &info.findings {
            for _ in 0..info.schedules {
                out.violation(
                    key.clone(),
                    format!("{} [{} | {} | {}]", what, kinds_name(kinds), steps_name(&info.steps), cl.name()),
                    replay_json(kinds, cl, Some(&info.steps), "light", false),
                );
            }
        }
    }
    // a class that needs two parked readers is not forced: it must then be indistinguishable from the
    // forced class with the same batches and the same commits before each read
    for cl in unforced {
        let info = &classes[cl];
        let twin = &classes[&cl.canonical()];
        if same(&info.res, &twin.res) {
            out.count("light:not-forced-class-equal-to-forced-twin");
        } else {
            out.violation(
                format!("unconfirmed-on-service kinds={} {}", kinds_name(kinds), cl.name()),
                format!(
                    "the result depends on the order of three overlapping reads, which the harness cannot force on the service: {} vs {} for read order {:?}",
                    info.res.state.show(),
                    twin.res.state.show(),
                    twin_order(&cl.canonical())
                ),
                replay_json(kinds, cl, Some(&info.steps), "light", false),
            );
        }
    }
    Ok(())
}

fn twin_order(cl: &Class) -> Vec<usize> {
    cl.order.iter().map(|i| i + 1).collect()
}

fn work_items(n: usize, repeat: bool) -> Vec<Vec<Kind>> {
    if !repeat {
        if n == 3 {
            // quick tier: the sequences of three in which one reference assignment is issued twice next to another
            // assignment of the same reference (the smallest shape in which a reference written by one mutation is
            // re-stamped by a second before a third replaces it)
            let mut v = vec![];
            for (a, b) in [(Kind::ReplRef, Kind::ReplRef2), (Kind::ReplRef2, Kind::ReplRef), (Kind::AddRef, Kind::ReplRef)] {
                v.push(vec![a, a, b]);
                v.push(vec![a, b, a]);
                v.push(vec![b, a, a]);
            }
            return v;
        }
        return tuples(n);
    }
    // with repetition (the same mutation issued twice): all sequences
    let mut res: Vec<Vec<Kind>> = vec![vec![]];
    for _ in 0..n {
        let mut next = vec![];
        for t in &res {
            for k in KINDS {
                let mut t2 = t.clone();
                t2.push(k);
                next.push(t2);
            }
        }
        res = next;
    }
    // distinct kinds first
    res.sort_by_key(|t| {
        let mut d = t.clone();
        d.sort();
        d.dedup();
        n - d.len()
    });
    res
}

fn replay(path: &str) -> i32 {
    let text = match std::fs::read_to_string(path) {
        Ok(t) => t,
        Err(e) => {
            eprintln!("cannot read {}: {}", path, e);
            return 2;
        }
    };
    let v: Value = serde_json::from_str(&text).unwrap_or(Value::Null);
    let rp = v.get("replay").cloned().unwrap_or(v.clone());
    let kinds: Vec<Kind> = match serde_json::from_value(rp["kinds"].clone()) {
        Ok(k) => k,
        Err(e) => {
            eprintln!("bad replay file: {}", e);
            return 2;
        }
    };
    let cl: Class = match serde_json::from_value(rp["class"].clone()) {
        Ok(k) => k,
        Err(e) => {
            eprintln!("bad replay file: {}", e);
            return 2;
        }
    };
    let steps: Option<Vec<Step>> = serde_json::from_value(rp["steps"].clone()).ok().flatten();
    let callers = rp["callers"].as_bool().unwrap_or(false);
    let world = rp["world"].as_str().unwrap_or("light").to_string();
    println!("replay ({} world): kinds={} {}", world, kinds_name(&kinds), cl.name());
    let root = scratch_root();
    let _g = ScratchGuard(root.clone());
    let rt = runtime();
    let res: Result<i32, String> = rt.block_on(async {
        let mut light = Light::new()?;
        let mut seen: Vec<RunResult> = vec![];
        let mut full = if world == "full" { Some(Full::start(&root).await?) } else { None };
        for round in 0..2 {
            let res = match (&mut full, &steps) {
                (Some(f), _) => {
                    println!("  forcing plan: {:?}", plan(&cl)?);
                    f.force(&kinds, &cl, callers).await?
                }
                (None, Some(s)) => {
                    println!("  schedule: {}", steps_name(s));
                    light.run(&kinds, &cl.b, s)?
                }
                _ => return Err("replay file has no schedule".to_string()),
            };
            let v = judge(&mut light, &kinds, &cl, &res)?;
            println!("  run {}: acknowledged={:?} final: {}", round + 1, res.acked, res.state.show());
            for (name, s) in &v.serial {
                println!("    serial {} -> {}", name, s.show());
            }
            println!("    verdict: {}", if v.ok { "one of the serial outcomes" } else { "NOT a serial outcome" });
            for (k, w) in &v.findings {
                println!("    key={} :: {}", k, w);
            }
            seen.push(res);
        }
        if seen[0] != seen[1] {
            eprintln!("machinery error: the two replays differ");
            return Ok(2);
        }
        Ok(0)
    });
    verif_hooks::open_gate(READER_GATE);
    verif_hooks::open_gate(WRITER_GATE);
    match res {
        Ok(c) => c,
        Err(e) => {
            eprintln!("machinery error: {}", e);
            2
        }
    }
}

fn extra_value(args: &Args, name: &str) -> Option<String> {
    args.extra.iter().find_map(|a| a.strip_prefix(name).map(|v| v.to_string()))
}

pub fn run(args: &Args) -> i32 {
    if let Some(p) = &args.replay {
        return replay(p);
    }
    let start = Instant::now();
    let light_only = args.extra.iter().any(|a| a == "--light-only");
    let thorough = args.tier == Tier::Thorough;
    if let Some((i, n)) = args.shard {
        let size: usize = extra_value(args, "--n=").and_then(|v| v.parse().ok()).unwrap_or(2);
        let items = work_items(size, thorough);
        let root = scratch_root();
        let _g = ScratchGuard(root.clone());
        let rt = runtime();
        let mut out = Outcome::default();
        let res: Result<(), String> = rt.block_on(async {
            let mut light = Light::new()?;
            let mut full = if light_only { None } else { Some(Full::start(&root).await?) };
            if let Some(f) = &full {
                let (a, b) = (&light.fix, &f.fix);
                if (&a.p_short, &a.f, &a.g, &a.h, &a.lq, &a.lqs) != (&b.p_short, &b.f, &b.g, &b.h, &b.lq, &b.lqs) {
                    return Err("the two worlds disagree on storage identifiers".into());
                }
            }
            for (idx, kinds) in items.iter().enumerate() {
                if idx % n != i {
                    continue;
                }
                explore_tuple(&mut light, full.as_mut(), kinds, &mut out).await?;
            }
            if let Some(f) = &full {
                for _ in 0..f.retries {
                    out.count("full:forcing-repeated(write buffer grouped differently)");
                }
            }
            Ok(())
        });
        verif_hooks::open_gate(READER_GATE);
        verif_hooks::open_gate(WRITER_GATE);
        if let Err(e) = res {
            out.machinery_errors.push(e);
        }
        out.notes.sort();
        out.notes.dedup();
        emit_shard_outcome(&out);
        return 0;
    }
    // simplest first: all pairs, then (thorough) all triples
    let sizes: Vec<usize> = vec![2, 3];
    let mut out = Outcome::default();
    let mut tuples_total = 0;
    for size in &sizes {
        let items = work_items(*size, thorough).len();
        tuples_total += items;
        let mut a = args.clone();
        a.extra.push(format!("--n={}", size));
        out.merge(run_sharded(&a, ncpu().min(16).min(items)));
    }
    let meta = CheckMeta {
        prop: "C16",
        level: "model_checking",
        rule: "E-SCHED: every ordered tuple of mutation kinds on one row x every batch partition x every linear extension of R_i < V_i < C(i) with V and C in FIFO order, run on the real phase functions (MutationQuery::execute / validate_mutation / process_batch_write) on a fresh row; oracle = membership of the final row + references (+ stored signatures) in the set of serial outcomes of the acknowledged mutations, computed serially with the same functions; every schedule class (batches, commits before each read, read order) is then forced on the real service with the reader/writer gates and must end in the same state; a finding is reported only for a class confirmed on the service; states = distinct canonical end states; non-trivial = distinct (kinds, batches, commits before reads, acknowledgements, finding keys)".into(),
        bounds: json!({
            "kinds": KINDS.iter().map(|k| k.name()).collect::<Vec<_>>(),
            "mutations_per_schedule": sizes,
            "tuples": if thorough { "all sequences, repetition allowed" } else { "all ordered pairs of distinct kinds + 9 sequences of three with a repeated reference assignment" },
            "ordered_tuples": tuples_total,
            "batch_partitions": "all compositions of n",
            "schedules": "all linear extensions",
            "service": "2 reader threads, 1 writer thread, at most one reader parked after execute; both entry points (concurrent mutate callers, mutation streams)",
        }),
        assumptions: vec![
            "validate_mutation reads no database state, so the position of V between R and C cannot change the result (checked: all schedules of one class end identically)".into(),
            "the serial executions use the same real functions (differential oracle); a defect that changes serial results in the same way is out of scope of this property".into(),
            "forcing uses harness-owned no-op writes to keep the writer busy, and sends the trailing ComputeDailyLog request of mutate() at the end of the run".into(),
            "clock owned by the harness: the date of a mutation is the position of its read".into(),
            "classes that need two readers parked at once (three overlapping reads, last label first) are not forced; they are required to equal the forced class with the same batches and commits before reads".into(),
        ],
        exhaustive_claim: true,
    };
    finish(args, &meta, &out, start)
}
