//! Multi-peer synchronisation world shared by C03 (convergence) and C11 (deleted stays deleted):
//! short scripted histories on 2-4 real peers + every order of directed pulls up to a bound, with the
//! real client routine against the real serving routine.
use crate::rooms::*;
use crate::world::*;
use discret::verif::database::query_language::parameter::{Parameters, ParametersAdd};
use discret::verif::security::Uid;
use serde::Serialize;
use std::collections::BTreeMap;

#[derive(Clone, Debug, Serialize, PartialEq, Eq, Hash)]
pub enum Step {
    /// set the harness clock to tick k (four ticks per day)
    Clock(i64),
    /// set the clock to tick k plus `ms` milliseconds
    ClockMs(i64, i64),
    CreateP { peer: usize, slot: usize, name: &'static str },
    CreateQ { peer: usize, slot: usize, name: &'static str },
    Update { peer: usize, slot: usize, name: &'static str },
    AddRef { peer: usize, p: usize, q: usize },
    DelRef { peer: usize, p: usize, q: usize },
    Delete { peer: usize, slot: usize },
    /// room definition change by the creator A: grant ns.Q rights / add D as user
    RoomEvent(REvent),
    Pull { dst: usize, src: usize },
    /// B<-A, C<-A, ... then A<-B, A<-C ...: everybody has everything A had, and A what they had
    PullAll,
}

pub struct SyncWorld<'a> {
    pub u: &'a Universe,
    pub n: usize,
    pub room: URoom,
    /// logical row slot -> (id, entity long name)
    pub slots: BTreeMap<usize, (Uid, &'static str)>,
    pub pulls: usize,
    pub protocol_answers: usize,
    pub errors: Vec<String>,
}

pub fn params(list: &[(&str, String)]) -> Parameters {
    let mut p = Parameters::default();
    for (k, v) in list {
        p.add(k, v.clone()).unwrap();
    }
    p
}

impl<'a> SyncWorld<'a> {
    /// a fresh room where the first `n` identities have every right on every entity
    pub async fn new(u: &'a Universe, n: usize) -> Result<SyncWorld<'a>, String> {
        Self::new_with_members(u, n, n).await
    }

    /// `n` devices take part, the first `members` identities are users of the room from the start
    pub async fn new_with_members(u: &'a Universe, n: usize, members: usize) -> Result<SyncWorld<'a>, String> {
        let users: Vec<usize> = (1..members).collect();
        let room = u
            .create_room(0, tick(0), &[(vec![("*", true, true)], users, vec![])])
            .await?;
        Ok(SyncWorld { u, n, room, slots: BTreeMap::new(), pulls: 0, protocol_answers: 0, errors: vec![] })
    }

    pub fn id(&self, slot: usize) -> Uid {
        self.slots[&slot].0
    }

    pub async fn pull(&mut self, dst: usize, src: usize, opts: PullOpts) -> PullStats {
        let mut o = opts;
        if o.allowed.is_none() {
            o.allowed = Some(vec![self.room.id]);
        }
        let st = pull(&self.u.peers[dst], &self.u.peers[src], self.room.id, o).await;
        self.pulls += 1;
        self.protocol_answers += st.answers;
        st
    }

    pub async fn step(&mut self, s: &Step) -> Result<(), String> {
        let rid = b64(&self.room.id);
        match s {
            Step::Clock(k) => set_clock(tick(*k)),
            Step::ClockMs(k, ms) => set_clock(tick(*k) + ms),
            Step::CreateP { peer, slot, name } | Step::CreateQ { peer, slot, name } => {
                let ent = if matches!(s, Step::CreateP { .. }) { "ns.P" } else { "ns.Q" };
                let q = self.u.peers[*peer]
                    .db
                    .mutate_raw(
                        &format!("mutate {{ {} {{ room_id:$r name:$n }} }}", ent),
                        Some(params(&[("r", rid), ("n", name.to_string())])),
                    )
                    .await
                    .map_err(|e| format!("{:?}: {}", s, e))?;
                self.slots.insert(*slot, (q.mutate_entities[0].node_to_mutate.id, ent));
                self.u.peers[*peer].barrier().await;
            }
            Step::Update { peer, slot, name } => {
                let (id, ent) = self.slots[slot];
                let r = self.u.peers[*peer]
                    .mutate(
                        &format!("mutate {{ {} {{ id:$id name:$n }} }}", ent),
                        Some(params(&[("id", b64(&id)), ("n", name.to_string())])),
                    )
                    .await;
                if let Err(e) = r {
                    self.errors.push(format!("{:?}: {}", s, e));
                }
                self.u.peers[*peer].barrier().await;
            }
            Step::AddRef { peer, p, q } => {
                let r = self.u.peers[*peer]
                    .mutate(
                        "mutate { ns.P { id:$p qs:[{id:$q}] } }",
                        Some(params(&[("p", b64(&self.id(*p))), ("q", b64(&self.id(*q)))])),
                    )
                    .await;
                if let Err(e) = r {
                    self.errors.push(format!("{:?}: {}", s, e));
                }
                self.u.peers[*peer].barrier().await;
            }
            Step::DelRef { peer, p, q } => {
                let r = self.u.peers[*peer]
                    .delete(
                        "delete { ns.P { $p qs[$q] } }",
                        Some(params(&[("p", b64(&self.id(*p))), ("q", b64(&self.id(*q)))])),
                    )
                    .await;
                if let Err(e) = r {
                    self.errors.push(format!("{:?}: {}", s, e));
                }
                self.u.peers[*peer].barrier().await;
            }
            Step::Delete { peer, slot } => {
                let (id, ent) = self.slots[slot];
                let r = self.u.peers[*peer]
                    .delete(&format!("delete {{ {} {{ $id }} }}", ent), Some(params(&[("id", b64(&id))])))
                    .await;
                if let Err(e) = r {
                    self.errors.push(format!("{:?}: {}", s, e));
                }
                self.u.peers[*peer].barrier().await;
            }
            Step::RoomEvent(ev) => {
                let now = discret::verif::date_utils::now();
                let mut room = self.room.clone();
                let acc = self.u.apply_event(&mut room, ev, 0, now).await?;
                if !acc {
                    self.errors.push(format!("room event refused {:?}", ev));
                }
                self.room = room;
            }
            Step::Pull { dst, src } => {
                self.pull(*dst, *src, PullOpts::default()).await;
            }
            Step::PullAll => {
                for p in 1..self.n {
                    self.pull(p, 0, PullOpts::default()).await;
                }
                for p in 1..self.n {
                    self.pull(0, p, PullOpts::default()).await;
                }
                for p in 1..self.n {
                    self.pull(p, 0, PullOpts::default()).await;
                }
            }
        }
        Ok(())
    }

    /// rows of the room held by peer `p`: (table, rendered row), sorted
    pub async fn content(&self, p: usize) -> Result<Vec<(String, Vec<Sv>)>, String> {
        let peer = &self.u.peers[p];
        let r = hex::encode_upper(self.room.id);
        let mut out = vec![];
        let nodes = peer
            .sql(&format!(
                "SELECT hex(id), _entity, mdate, cdate, _json, hex(verifying_key), hex(_signature) FROM _node WHERE room_id = x'{}' ORDER BY id",
                r
            ))
            .await?;
        for n in nodes {
            out.push(("node".to_string(), n));
        }
        // live references: both end rows present, source row in the room
        let edges = peer
            .sql(&format!(
                "SELECT hex(e.src), e.label, hex(e.dest), e.cdate, hex(e.verifying_key), hex(e.signature) FROM _edge e
                 JOIN _node s ON s.id = e.src JOIN _node d ON d.id = e.dest WHERE s.room_id = x'{}' ORDER BY e.src, e.label, e.dest",
                r
            ))
            .await?;
        for e in edges {
            out.push(("edge".to_string(), e));
        }
        let nd = peer
            .sql(&format!(
                "SELECT hex(id), entity, mdate, deletion_date, hex(verifying_key), hex(signature) FROM _node_deletion_log WHERE room_id = x'{}' ORDER BY id, deletion_date",
                r
            ))
            .await?;
        for e in nd {
            out.push(("node_tombstone".to_string(), e));
        }
        let ed = peer
            .sql(&format!(
                "SELECT hex(src), label, hex(dest), cdate, deletion_date, hex(verifying_key), hex(signature) FROM _edge_deletion_log WHERE room_id = x'{}' ORDER BY src, label, dest, deletion_date",
                r
            ))
            .await?;
        for e in ed {
            out.push(("edge_tombstone".to_string(), e));
        }
        Ok(out)
    }

    pub async fn daily_log(&self, p: usize) -> Result<Vec<Vec<Sv>>, String> {
        let r = hex::encode_upper(self.room.id);
        self.u.peers[p]
            .sql(&format!(
                "SELECT entity, date, entry_number, hex(daily_hash), hex(history_hash), need_recompute FROM _daily_log WHERE room_id = x'{}' ORDER BY entity, date",
                r
            ))
            .await
    }

    /// fixed query set over the room, as JSON text
    pub async fn queries(&self, p: usize) -> Vec<String> {
        let peer = &self.u.peers[p];
        let rid = b64(&self.room.id);
        let mut res = vec![];
        for q in [
            "query { ns.P(room_id = $r, order_by(id asc)) { id name n mdate } }",
            "query { ns.Q(room_id = $r, order_by(id asc)) { id name mdate } }",
            "query { ns.P(room_id = $r, order_by(id asc), nullable(qs)) { id name qs(order_by(id asc)) { id name } } }",
            "query { ns.P(room_id = $r, order_by(name desc, id asc)) { name } }",
        ] {
            res.push(match peer.query(q, Some(params(&[("r", rid.clone())]))).await {
                Ok(j) => j,
                Err(e) => format!("ERROR {}", e),
            });
        }
        res
    }

    /// round-robin pulls until a full round writes nothing anywhere. Returns rounds used, or None (no quiescence)
    pub async fn close(&mut self, max_rounds: usize) -> Result<Option<usize>, String> {
        for round in 0..max_rounds {
            let mut changed = false;
            for dst in 0..self.n {
                for src in 0..self.n {
                    if dst == src {
                        continue;
                    }
                    let before = fingerprint(&self.u.peers[dst]).await?;
                    self.pull(dst, src, PullOpts::default()).await;
                    let after = fingerprint(&self.u.peers[dst]).await?;
                    if before != after {
                        changed = true;
                    }
                }
            }
            if !changed {
                return Ok(Some(round + 1));
            }
        }
        Ok(None)
    }
}

/// all sequences of directed pulls among n peers of length exactly `len`
pub fn pull_orders(n: usize, len: usize) -> Vec<Vec<(usize, usize)>> {
    let mut pairs = vec![];
    for d in 0..n {
        for s in 0..n {
            if d != s {
                pairs.push((d, s));
            }
        }
    }
    let mut res: Vec<Vec<(usize, usize)>> = vec![vec![]];
    for _ in 0..len {
        let mut next = vec![];
        for r in &res {
            for p in &pairs {
                // pulling twice in a row over the same directed pair adds nothing new
                if r.last() == Some(p) {
                    continue;
                }
                let mut x = r.clone();
                x.push(*p);
                next.push(x);
            }
        }
        res = next;
    }
    res
}
