//! C10 — a room means the same live, after restart, and on a peer that imports it.
//! Every room history (creator events through the real room-mutation path) is observed through the
//! construction paths: live (RoomModified event of the mutating instance), incremental import,
//! fresh import of the whole history, import over an earlier version, re-import, reload
//! (LOAD_QUERY + load_json, what start-up does) on each of them, and a real restart per chunk.
use crate::common::*;
use crate::rooms::*;
use crate::world::*;
use discret::verif::database::authorisation_service::RoomAuthorisations;
use discret::verif::event_service::Event;
use discret::verif::security::Uid;
use discret::Room;
use serde_json::{json, Value};
use std::collections::HashMap;
use std::time::Instant;
use tokio::sync::broadcast;

type Tpl = Vec<(Vec<(&'static str, bool, bool)>, Vec<usize>, Vec<usize>)>;

fn templates() -> Vec<(&'static str, Tpl)> {
    vec![
        ("T0", vec![(vec![("ns.P", true, false)], vec![1, 2], vec![])]),
        (
            "T1",
            vec![
                (vec![("*", true, true)], vec![1], vec![]),
                (vec![("ns.P", true, false), ("ns.Q", true, false)], vec![2], vec![]),
            ],
        ),
        ("T2", vec![(vec![("ns.P", false, true), ("*", true, false)], vec![2], vec![1])]),
    ]
}

/// events about identity B and entity P / wildcard: repeated entries per key are the point
fn alphabet(groups: usize) -> Vec<REvent> {
    let mut a = vec![
        REvent::AddAdmin { key: 1, enabled: true },
        REvent::AddAdmin { key: 1, enabled: false },
    ];
    for g in 0..groups {
        a.push(REvent::AddUser { group: g, key: 1, enabled: true });
        a.push(REvent::AddUser { group: g, key: 1, enabled: false });
        if g == 0 {
            a.push(REvent::AddUserAdmin { group: g, key: 1, enabled: true });
            a.push(REvent::AddUserAdmin { group: g, key: 1, enabled: false });
            a.push(REvent::AddUser { group: g, key: 3, enabled: true });
        }
        for (own, all) in [(false, false), (true, false), (false, true), (true, true)] {
            if g == 0 || (own, all) == (false, true) {
                a.push(REvent::AddRight { group: g, entity: "ns.P".into(), own, all });
            }
        }
        if g == 0 {
            a.push(REvent::AddRight { group: g, entity: "*".into(), own: false, all: false });
        }
    }
    a.push(REvent::AddGroup);
    a.push(REvent::AddGroupWith { entity: "ns.Q".into(), own: true, all: false, key: 1 });
    a
}

#[derive(Clone, Debug)]
struct History {
    template: usize,
    events: Vec<REvent>,
    /// issuer of each event (identity index, 0 = the creator A, 1 = B on its own device); empty = all by A
    by: Vec<usize>,
}

/// second administrator family: after A made B an administrator, events issued by A and by B
fn two_admin_alphabet() -> Vec<(REvent, usize)> {
    vec![
        (REvent::AddAdmin { key: 0, enabled: false }, 1),
        (REvent::AddUser { group: 0, key: 3, enabled: true }, 1),
        (REvent::AddRight { group: 0, entity: "ns.P".into(), own: false, all: true }, 1),
        (REvent::AddGroupWith { entity: "ns.Q".into(), own: true, all: false, key: 3 }, 1),
        (REvent::AddUser { group: 0, key: 3, enabled: false }, 0),
        (REvent::AddRight { group: 0, entity: "*".into(), own: true, all: false }, 0),
        (REvent::AddAdmin { key: 1, enabled: false }, 0),
    ]
}

fn histories(tier: Tier) -> Vec<History> {
    let mut res = vec![];
    for (ti, (_, groups)) in templates().iter().enumerate() {
        let a = alphabet(groups.len());
        res.push(History { template: ti, events: vec![], by: vec![] });
        for e in &a {
            res.push(History { template: ti, events: vec![e.clone()], by: vec![] });
        }
        for e1 in &a {
            for e2 in &a {
                res.push(History { template: ti, events: vec![e1.clone(), e2.clone()], by: vec![] });
            }
        }
        let depth3 = tier == Tier::Thorough || ti == 0;
        if depth3 {
            // quick: depth 3 over the entries-per-key core only
            let a3: Vec<REvent> = if tier == Tier::Thorough {
                a.clone()
            } else {
                a.iter()
                    .filter(|e| {
                        matches!(
                            e,
                            REvent::AddUser { group: 0, key: 1, .. }
                                | REvent::AddRight { group: 0, entity: _, .. }
                                | REvent::AddAdmin { .. }
                        )
                    })
                    .cloned()
                    .collect()
            };
            for e1 in &a3 {
                for e2 in &a3 {
                    for e3 in &a3 {
                        res.push(History {
                            template: ti,
                            events: vec![e1.clone(), e2.clone(), e3.clone()],
                            by: vec![],
                        });
                    }
                }
            }
        }
        if tier == Tier::Thorough && ti == 0 {
            // depth 4 on the user/right core
            let core: Vec<REvent> = a
                .iter()
                .filter(|e| {
                    matches!(
                        e,
                        REvent::AddUser { group: 0, key: 1, .. } | REvent::AddRight { group: 0, .. }
                    )
                })
                .cloned()
                .collect();
            for e1 in &core {
                for e2 in &core {
                    for e3 in &core {
                        for e4 in &core {
                            res.push(History {
                                template: ti,
                                events: vec![e1.clone(), e2.clone(), e3.clone(), e4.clone()],
                                by: vec![],
                            });
                        }
                    }
                }
            }
        }
    }
    // two administrators (template T0): A makes B an administrator, then every sequence of events issued by either
    let first = (REvent::AddAdmin { key: 1, enabled: true }, 0usize);
    let ta = two_admin_alphabet();
    let depth = if tier == Tier::Thorough { 3 } else { 2 };
    let mut seqs: Vec<Vec<(REvent, usize)>> = vec![vec![]];
    for _ in 0..depth {
        let mut next = vec![];
        for s in &seqs {
            for e in &ta {
                let mut n = s.clone();
                n.push(e.clone());
                next.push(n);
            }
        }
        for n in &next {
            let mut evs = vec![first.clone()];
            evs.extend(n.iter().cloned());
            res.push(History { template: 0, events: evs.iter().map(|e| e.0.clone()).collect(), by: evs.iter().map(|e| e.1).collect() });
        }
        seqs = next;
    }
    // concurrent administrators: one of them changes the group on its own device WITHOUT propagating, the other
    // changes it too, then the definitions meet (issuer + 10 = "not propagated before the next event")
    let a_side = vec![
        REvent::AddUser { group: 0, key: 2, enabled: false },
        REvent::AddUser { group: 0, key: 3, enabled: true },
        REvent::AddRight { group: 0, entity: "*".into(), own: true, all: false },
        REvent::AddUserAdmin { group: 0, key: 2, enabled: true },
    ];
    let b_side = vec![
        REvent::AddRight { group: 0, entity: "ns.P".into(), own: false, all: true },
        REvent::AddUser { group: 0, key: 3, enabled: false },
        REvent::AddGroupWith { entity: "ns.Q".into(), own: true, all: false, key: 3 },
        REvent::AddUserAdmin { group: 0, key: 3, enabled: true },
    ];
    for x in &a_side {
        for y in &b_side {
            res.push(History { template: 0, events: vec![first.0.clone(), x.clone(), y.clone()], by: vec![0, 10, 1] });
            res.push(History { template: 0, events: vec![first.0.clone(), y.clone(), x.clone()], by: vec![0, 11, 0] });
        }
    }
    res
}

pub struct Watch {
    pub rx: Vec<broadcast::Receiver<Event>>,
    pub last: Vec<HashMap<Uid, Room>>,
}
impl Watch {
    pub async fn new(u: &Universe) -> Watch {
        let mut rx = vec![];
        for p in &u.peers {
            rx.push(p.subscribe().await);
        }
        Watch { rx, last: vec![HashMap::new(), HashMap::new(), HashMap::new(), HashMap::new()] }
    }
    pub fn drain(&mut self) -> Result<(), String> {
        for (i, rx) in self.rx.iter_mut().enumerate() {
            loop {
                match rx.try_recv() {
                    Ok(Event::RoomModified(room)) => {
                        self.last[i].insert(room.id, (*room).clone());
                    }
                    Ok(_) => {}
                    Err(broadcast::error::TryRecvError::Empty) => break,
                    Err(broadcast::error::TryRecvError::Lagged(n)) => {
                        return Err(format!("event receiver lagged by {}", n));
                    }
                    Err(broadcast::error::TryRecvError::Closed) => break,
                }
            }
        }
        Ok(())
    }
}

pub fn err_class(e: &str) -> String {
    let cut = e.split('\'').next().unwrap_or("");
    cut.chars().filter(|c| !c.is_ascii_digit()).take(56).collect()
}

/// first differing decision between two matrices, as an id-free class
pub fn diff_class(expected: &[String], got: &[String]) -> Option<String> {
    if expected.len() != got.len() {
        return Some("matrix-shape".into());
    }
    for (e, g) in expected.iter().zip(got.iter()) {
        if e != g {
            let et: Vec<&str> = e.split(' ').collect();
            let gt: Vec<&str> = g.split(' ').collect();
            for (a, b) in et.iter().zip(gt.iter()) {
                if a != b {
                    // token like adm1 / mem0 / ua0=1 / ns.P:10
                    if a.starts_with("groups=") {
                        return Some("group-count".into());
                    }
                    let name: String = a.chars().take_while(|c| !c.is_ascii_digit() || *c == '.').collect();
                    let name = if a.starts_with("ns.") { a.split(':').next().unwrap().to_string() } else { name };
                    let dir = if a < b { "more-permissive" } else { "less-permissive" };
                    return Some(format!("{}:{}", name.trim_end_matches('='), dir));
                }
            }
            return Some("line".into());
        }
    }
    None
}

/// what start-up does with the stored definition: LOAD_QUERY through the query path, then load_json
pub async fn reload_room(peer: &FPeer, room: &Uid) -> Result<Room, String> {
    let json = peer.query(RoomAuthorisations::LOAD_QUERY, None).await?;
    let mut v: Value = serde_json::from_str(&json).map_err(|e| e.to_string())?;
    let id = b64(room);
    let arr = v
        .get_mut("sys.Room")
        .and_then(|a| a.as_array_mut())
        .ok_or("no sys.Room in load result")?;
    arr.retain(|r| r.get("id").and_then(|i| i.as_str()) == Some(id.as_str()));
    if arr.is_empty() {
        return Err("room not returned by the load query".into());
    }
    let mut auth = RoomAuthorisations {
        signing_key: crate::light::signing_key_for(9),
        rooms: HashMap::new(),
        max_node_size: 1 << 20,
    };
    auth.load_json(&v.to_string()).map_err(|e| e.to_string())?;
    auth.rooms.remove(room).ok_or("room not loaded".to_string())
}

fn ticks_for(n_events: usize) -> Vec<i64> {
    let mut t = vec![tick(0) - 1, tick(0), tick(1)];
    for i in 0..n_events {
        let d = tick(4 * (i as i64 + 1));
        t.push(d - 1);
        t.push(d);
        t.push(d + 1);
    }
    t.push(tick(4 * (n_events as i64 + 2)));
    t
}

async fn explore(
    u: &Universe,
    w: &mut Watch,
    h: &History,
    out: &mut Outcome,
    built: &mut Vec<(URoom, Vec<i64>, Value)>,
) -> Result<(), String> {
    let tpls = templates();
    let (tname, groups) = &tpls[h.template];
    let replay = if h.by.is_empty() { json!({"template": tname, "events": h.events}) } else { json!({"template": tname, "events": h.events, "by": h.by}) };
    let mut r1 = u.create_room(0, tick(0), groups).await?;
    out.transitions += 1;
    let mut import_err: Vec<(String, String)> = vec![];
    for dst in [1usize, 3] {
        if let Err(e) = transfer_room_def(&u.peers[dst], &u.peers[0], r1.id).await {
            import_err.push((format!("import-initial-{}", NAMES[dst]), e));
        }
        out.transitions += 1;
    }
    for (i, ev) in h.events.iter().enumerate() {
        let date = tick(4 * (i as i64 + 1));
        let by_raw = h.by.get(i).copied().unwrap_or(0);
        let (by, held) = (by_raw % 10, by_raw >= 10);
        let acc = u.apply_event(&mut r1, ev, by, date).await?;
        out.transitions += 1;
        out.count(if acc { if by == 0 { "event-accepted" } else { "event-by-second-admin-accepted" } } else { "event-refused" });
        if acc && held {
            out.count("event-held-back(concurrent-administrators)");
        }
        if acc && !held {
            // the other of the two devices A and B follows incrementally
            if let Err(e) = transfer_room_def(&u.peers[1 - by], &u.peers[by], r1.id).await {
                import_err.push((if by == 0 { "import-incremental".into() } else { "import-incremental-from-second-admin".into() }, e));
            }
            out.transitions += 1;
        }
    }
    // concurrent administrators: the two devices finally exchange what the other has not seen
    if h.by.iter().any(|b| *b >= 10) {
        for (dst, src) in [(0usize, 1usize), (1, 0)] {
            if let Err(e) = transfer_room_def(&u.peers[dst], &u.peers[src], r1.id).await {
                import_err.push((format!("import-of-concurrent-definition-{}", NAMES[dst]), e));
            }
            out.transitions += 1;
        }
    }
    // fresh import of the whole history (C), jump from the initial version (D), re-import (B)
    for (dst, name) in [(2usize, "import-fresh"), (3, "import-over-earlier"), (1, "re-import")] {
        if let Err(e) = transfer_room_def(&u.peers[dst], &u.peers[0], r1.id).await {
            import_err.push((name.into(), e));
        }
        out.transitions += 1;
    }
    w.drain()?;
    for (path, e) in &import_err {
        out.violation(
            format!("path={} step-failed={}", path, err_class(e)),
            format!("an honest definition accepted live was refused on import: {}", e),
            replay.clone(),
        );
    }
    let ticks = ticks_for(h.events.len());
    let expected = r1.ro.matrix(&ticks);
    out.state(&expected);
    let paths = [(0usize, "live"), (1, "import-incremental"), (2, "import-fresh"), (3, "import-over-earlier")];
    for (pi, pname) in paths {
        out.evaluations += 1;
        match w.last[pi].get(&r1.id) {
            Some(room) => {
                let m = room_matrix(room, &u.keys, &r1.groups, &ticks);
                if let Some(d) = diff_class(&expected, &m) {
                    out.violation(
                        format!("path={} differs={}", pname, d),
                        format!("decisions of the {} room differ from the oracle ({})", pname, d),
                        replay.clone(),
                    );
                    out.count("differs");
                } else {
                    out.count("equal");
                }
            }
            None => {
                if !import_err.iter().any(|(p, _)| p.starts_with(pname) || p.starts_with("import-initial")) {
                    out.violation(
                        format!("path={} no-room-modified-event", pname),
                        "no RoomModified event observed for an accepted definition",
                        replay.clone(),
                    );
                }
            }
        }
        // reload from storage on the same instance
        out.evaluations += 1;
        match reload_room(&u.peers[pi], &r1.id).await {
            Ok(room) => {
                let m = room_matrix(&room, &u.keys, &r1.groups, &ticks);
                if let Some(d) = diff_class(&expected, &m) {
                    out.violation(
                        format!("path={}+reload differs={}", pname, d),
                        format!("decisions after reloading the {} room from storage differ from the oracle ({})", pname, d),
                        replay.clone(),
                    );
                    out.count("reload-differs");
                } else {
                    out.count("reload-equal");
                }
            }
            Err(e) => {
                if !import_err.iter().any(|(p, _)| p.starts_with(pname)) || pi == 0 {
                    out.violation(
                        format!("path={}+reload step-failed={}", pname, err_class(&e)),
                        format!("stored definition cannot be reloaded: {}", e),
                        replay.clone(),
                    );
                }
                out.count("reload-failed");
            }
        }
    }
    out.nontrivial(&(h.events.len(), expected.clone()));
    if out.samples.len() < 6 && out.evaluations % 41 == 1 {
        out.sample(json!({"template": tname, "events": h.events, "paths": ["live","import-incremental","import-fresh","import-over-earlier","re-import","reload x4"]}));
    }
    built.push((r1, ticks, replay));
    Ok(())
}

/// real restart of every instance on its folder; every room built in this chunk must be loaded and equal
async fn restart_chunk(
    u: &Universe,
    built: &[(URoom, Vec<i64>, Value)],
    out: &mut Outcome,
) -> Result<(), String> {
    for pi in 0..4 {
        match u.peers[pi].restart(MODEL).await {
            Ok(p2) => {
                out.transitions += 1;
                for (room, ticks, replay) in built {
                    match reload_room(&p2, &room.id).await {
                        Ok(r) => {
                            let m = room_matrix(&r, &u.keys, &room.groups, ticks);
                            if let Some(d) = diff_class(&room.ro.matrix(ticks), &m) {
                                out.violation(
                                    format!("path=restart-{} differs={}", if pi == 0 { "author" } else { "importer" }, d),
                                    "decisions after a real restart differ from the oracle",
                                    replay.clone(),
                                );
                            }
                            out.traces_validated += 1;
                        }
                        Err(_) => { /* reported per history by the reload path */ }
                    }
                }
            }
            Err(e) => {
                // find the culprit: the per-history reload path already reports load failures;
                // a restart failure that no reload predicted is reported on its own
                out.count("restart-failed");
                out.violation(
                    format!("restart-refused who={} error={}", if pi == 0 { "author" } else { "importer" }, err_class(&e)),
                    format!("instance cannot be restarted on data it wrote itself: {}", e),
                    json!({"chunk": built.iter().map(|b| b.2.clone()).collect::<Vec<_>>()}),
                );
            }
        }
    }
    Ok(())
}

async fn run_chunk(root: &std::path::PathBuf, chunk: &[&History], out: &mut Outcome, restart: bool) -> Result<(), String> {
    set_clock(tick(0));
    let u = Universe::start(root).await?;
    let mut w = Watch::new(&u).await;
    let mut built = vec![];
    for h in chunk {
        explore(&u, &mut w, h, out, &mut built).await?;
    }
    if restart {
        restart_chunk(&u, &built, out).await?;
    }
    Ok(())
}

fn replay(path: &str) -> i32 {
    let text = std::fs::read_to_string(path).expect("replay file");
    let v: Value = serde_json::from_str(&text).expect("json");
    let r = &v["replay"];
    let list: Vec<Value> = if r.get("chunk").is_some() { r["chunk"].as_array().unwrap().clone() } else { vec![r.clone()] };
    let root = scratch_root();
    let _g = ScratchGuard(root.clone());
    let rt = runtime();
    for round in 0..2 {
        let mut out = Outcome::default();
        let hs: Vec<History> = list
            .iter()
            .map(|r| History {
                template: templates().iter().position(|t| t.0 == r["template"].as_str().unwrap()).unwrap(),
                events: serde_json::from_value(r["events"].clone()).unwrap(),
                by: r.get("by").map(|b| serde_json::from_value(b.clone()).unwrap()).unwrap_or_default(),
            })
            .collect();
        let refs: Vec<&History> = hs.iter().collect();
        let res = rt.block_on(run_chunk(&root, &refs, &mut out, true));
        println!("replay round {}: {:?}", round, res);
        for v in &out.violations {
            println!("  {} :: {}", v.key, v.what);
        }
        println!("  outcomes {:?}", out.outcomes);
    }
    0
}

pub fn run(args: &Args) -> i32 {
    if let Some(p) = &args.replay {
        return replay(p);
    }
    let start = Instant::now();
    let hs = histories(args.tier);
    if let Some((i, n)) = args.shard {
        let root = scratch_root();
        let _g = ScratchGuard(root.clone());
        let mut out = Outcome::default();
        let mine: Vec<&History> = hs.iter().enumerate().filter(|(hi, _)| hi % n == i).map(|(_, h)| h).collect();
        let mut res: Result<(), String> = Ok(());
        for chunk in mine.chunks(16) {
            // one runtime per chunk: dropping it ends the instances' tasks and threads
            let rt = runtime();
            let r = rt.block_on(run_chunk(&root, chunk, &mut out, true));
            drop(rt);
            if r.is_err() {
                res = r;
                break;
            }
        }
        if let Err(e) = res {
            out.machinery_errors.push(e);
        }
        emit_shard_outcome(&out);
        return 0;
    }
    let out = run_sharded(args, ncpu().min(16));
    let meta = CheckMeta {
        prop: "C10",
        level: "model_checking",
        rule: "every room history (template x creator events about one key / one entity, depth bound below, real room-mutation path) x 9 construction paths (live event, incremental import, fresh import, import over an earlier version, re-import, storage reload on each, real restart per chunk); states = distinct oracle decision matrices; non-trivial = distinct (history length, matrix)".into(),
        bounds: json!({"templates": 3, "histories": hs.len(), "depth": args.tier.pick("2 (3 on T0)", "3 (4 on the user/right core of T0)"), "paths": 9}),
        assumptions: vec![
            "rights oracle RO is the reference for every path".into(),
            "reload = LOAD_QUERY through the real query path + the real load_json, composed by the harness as initialise_authorisations does; a real restart per chunk of 16 histories validates it (traces_validated)".into(),
            "definitions travel through bincode as on the wire".into(),
        ],
        exhaustive_claim: true,
    };
    finish(args, &meta, &out, start)
}
