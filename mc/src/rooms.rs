//! Room universe shared by C01, C07, C10, C12, C02: identities, room templates, room events applied
//! through the real room-mutation path, and the rights oracle `RO` written from the documentation
//! (independent of `Room::can`).
use crate::light::signing_key_for;
use crate::world::*;
use discret::verif::database::edge::Edge;
use discret::verif::database::node::Node;
use discret::verif::database::query_language::data_model_parser::DataModel;
use discret::verif::database::query_language::parameter::{Parameters, ParametersAdd};
use discret::verif::database::sqlite_database::Writeable;
use discret::verif::security::Uid;
use serde::Serialize;
use serde_json::{json, Value};
use std::path::PathBuf;

pub const MODEL: &str = "ns { P { name:String, n:Integer default 0, q:ns.Q nullable, qs:[ns.Q] nullable, f:Float nullable, b:Boolean nullable } Q { name:String } }";
pub const NAMES: [&str; 4] = ["A", "B", "C", "D"];
pub const ENTITIES: [&str; 2] = ["ns.P", "ns.Q"];

/// harness clock: tick k is 6 hours after tick k-1, so four ticks per day
pub fn tick(k: i64) -> i64 {
    T0 + k * (DAY / 4)
}

#[derive(Clone, Debug, Serialize, serde::Deserialize, PartialEq, Eq, Hash)]
pub enum REvent {
    AddAdmin { key: usize, enabled: bool },
    AddGroup,
    AddUser { group: usize, key: usize, enabled: bool },
    AddUserAdmin { group: usize, key: usize, enabled: bool },
    AddRight { group: usize, entity: String, own: bool, all: bool },
    /// a new group created with one right and one user in a single room mutation
    AddGroupWith { entity: String, own: bool, all: bool, key: usize },
}

#[derive(Clone, Debug, Serialize, PartialEq, Eq, Hash)]
pub struct Entry {
    pub ev: REvent,
    /// identity index of the issuer
    pub by: usize,
    pub date: i64,
}

#[derive(Clone, Copy, Debug, PartialEq, Eq, Serialize)]
pub enum Right {
    Own,
    All,
}

/// Rights oracle: the list of accepted room-definition events, nothing else.
#[derive(Clone, Debug, Default, Serialize)]
pub struct RO {
    pub entries: Vec<Entry>,
    pub groups: usize,
}
impl RO {
    pub fn push(&mut self, e: Entry) {
        if let REvent::AddGroupWith { entity, own, all, key } = &e.ev {
            let g = self.groups;
            self.push(Entry { ev: REvent::AddGroup, by: e.by, date: e.date });
            self.push(Entry { ev: REvent::AddRight { group: g, entity: entity.clone(), own: *own, all: *all }, by: e.by, date: e.date });
            self.push(Entry { ev: REvent::AddUser { group: g, key: *key, enabled: true }, by: e.by, date: e.date });
            return;
        }
        if let REvent::AddGroup = e.ev {
            self.groups += 1;
        }
        self.entries.push(e);
    }
    fn last_enabled<F: Fn(&REvent) -> Option<bool>>(&self, t: i64, f: F) -> bool {
        let mut res = false;
        for e in &self.entries {
            if e.date <= t {
                if let Some(en) = f(&e.ev) {
                    res = en;
                }
            }
        }
        res
    }
    pub fn is_admin(&self, key: usize, t: i64) -> bool {
        self.last_enabled(t, |e| match e {
            REvent::AddAdmin { key: k, enabled } if *k == key => Some(*enabled),
            _ => None,
        })
    }
    pub fn is_user(&self, g: usize, key: usize, t: i64) -> bool {
        self.last_enabled(t, |e| match e {
            REvent::AddUser { group, key: k, enabled } if *k == key && *group == g => {
                Some(*enabled)
            }
            _ => None,
        })
    }
    pub fn is_user_admin(&self, g: usize, key: usize, t: i64) -> bool {
        self.last_enabled(t, |e| match e {
            REvent::AddUserAdmin { group, key: k, enabled } if *k == key && *group == g => {
                Some(*enabled)
            }
            _ => None,
        })
    }
    pub fn member(&self, key: usize, t: i64) -> bool {
        if self.is_admin(key, t) {
            return true;
        }
        (0..self.groups).any(|g| self.is_user(g, key, t) || self.is_user_admin(g, key, t))
    }
    /// (own, all) granted by group g on entity at t: the entity's own entry shadows the wildcard
    pub fn right_of_group(&self, g: usize, entity: &str, t: i64) -> (bool, bool) {
        let find = |ent: &str| -> Option<(bool, bool)> {
            let mut res = None;
            for e in &self.entries {
                if e.date <= t {
                    if let REvent::AddRight { group, entity: en, own, all } = &e.ev {
                        if *group == g && en == ent {
                            res = Some((*own || *all, *all));
                        }
                    }
                }
            }
            res
        };
        find(entity).or_else(|| find("*")).unwrap_or((false, false))
    }
    pub fn can(&self, key: usize, entity: &str, t: i64, right: Right) -> bool {
        let admin = self.is_admin(key, t);
        for g in 0..self.groups {
            if admin || self.is_user(g, key, t) || self.is_user_admin(g, key, t) {
                let (own, all) = self.right_of_group(g, entity, t);
                let ok = match right {
                    Right::Own => own,
                    Right::All => all,
                };
                if ok {
                    return true;
                }
            }
        }
        false
    }
    /// may `by` add this entry at `date` ? (upper bound stated by C01/C07)
    pub fn entitled(&self, ev: &REvent, by: usize, date: i64) -> bool {
        match ev {
            REvent::AddUser { group, .. } => {
                self.is_admin(by, date) || self.is_user_admin(*group, by, date)
            }
            _ => self.is_admin(by, date),
        }
    }
    /// decision matrix used to compare construction paths (C10) and imports (C07)
    pub fn matrix(&self, ticks: &[i64]) -> Vec<String> {
        let mut m = vec![format!("groups={}", self.groups)];
        for &t in ticks {
            for k in 0..4 {
                let mut s = format!("t{} k{} adm{} mem{}", t, k, self.is_admin(k, t) as u8, self.member(k, t) as u8);
                for g in 0..self.groups {
                    s.push_str(&format!(" ua{}={}", g, self.is_user_admin(g, k, t) as u8));
                }
                for e in ENTITIES {
                    s.push_str(&format!(
                        " {}:{}{}",
                        e,
                        self.can(k, e, t, Right::Own) as u8,
                        self.can(k, e, t, Right::All) as u8
                    ));
                }
                m.push(s);
            }
        }
        m
    }
}

/// decision matrix of a real in-memory room, same layout as `RO::matrix`
pub fn room_matrix(
    room: &discret::Room,
    keys: &[Vec<u8>; 4],
    group_ids: &[Uid],
    ticks: &[i64],
) -> Vec<String> {
    use discret::verif::database::room::RightType;
    let mut m = vec![format!("groups={}", room.authorisations.len())];
    for &t in ticks {
        for k in 0..4 {
            let mut s = format!(
                "t{} k{} adm{} mem{}",
                t,
                k,
                room.is_admin(&keys[k], t) as u8,
                room.is_user_valid_at(&keys[k], t) as u8
            );
            for (g, gid) in group_ids.iter().enumerate() {
                let ua = room
                    .authorisations
                    .get(gid)
                    .map(|a| a.can_admin_users(&keys[k], t))
                    .unwrap_or(false);
                s.push_str(&format!(" ua{}={}", g, ua as u8));
            }
            for e in ENTITIES {
                s.push_str(&format!(
                    " {}:{}{}",
                    e,
                    room.can(&keys[k], e, t, &RightType::MutateSelf) as u8,
                    room.can(&keys[k], e, t, &RightType::MutateAll) as u8
                ));
            }
            m.push(s);
        }
    }
    m
}

pub struct FnWrite(pub Box<dyn FnMut(&rusqlite::Connection) -> Result<(), rusqlite::Error> + Send>);
impl Writeable for FnWrite {
    fn write(&mut self, conn: &rusqlite::Connection) -> Result<(), rusqlite::Error> {
        (self.0)(conn)
    }
}

pub struct Universe {
    pub peers: Vec<FPeer>,
    pub keys: [Vec<u8>; 4],
    pub model: DataModel,
    pub p_short: String,
    pub q_short: String,
    pub p_name: String,
    pub p_q: String,
    pub p_qs: String,
    pub p_n: String,
    pub p_f: String,
    pub p_b: String,
    pub q_name: String,
}

/// a room living in the universe: ids and the oracle's view of it
#[derive(Clone, Debug)]
pub struct URoom {
    pub id: Uid,
    pub groups: Vec<Uid>,
    pub ro: RO,
}

impl Universe {
    pub async fn start(root: &PathBuf) -> Result<Universe, String> {
        // identifiers are drawn from a deterministic source so that runs are reproducible
        discret::verif_hooks::set_uid_namespace(0x5eed_0001);
        let mut peers = vec![];
        for (i, n) in NAMES.iter().enumerate() {
            peers.push(FPeer::start(n, (i + 1) as u8, MODEL, root).await?);
        }
        let keys = [
            peers[0].verifying_key.clone(),
            peers[1].verifying_key.clone(),
            peers[2].verifying_key.clone(),
            peers[3].verifying_key.clone(),
        ];
        let dm_json = peers[0].db.datamodel().await.map_err(|e| e.to_string())?;
        let model: DataModel = serde_json::from_str(&dm_json).map_err(|e| e.to_string())?;
        let p = model.get_entity("ns.P").map_err(|e| e.to_string())?;
        let q = model.get_entity("ns.Q").map_err(|e| e.to_string())?;
        let u = Universe {
            p_short: p.short_name.clone(),
            q_short: q.short_name.clone(),
            p_name: p.get_field("name").unwrap().short_name.clone(),
            p_q: p.get_field("q").unwrap().short_name.clone(),
            p_qs: p.get_field("qs").unwrap().short_name.clone(),
            p_n: p.get_field("n").unwrap().short_name.clone(),
            p_f: p.get_field("f").unwrap().short_name.clone(),
            p_b: p.get_field("b").unwrap().short_name.clone(),
            q_name: q.get_field("name").unwrap().short_name.clone(),
            peers,
            keys,
            model,
        };
        // every peer must agree on the storage identifiers, otherwise fixtures are meaningless
        for p in &u.peers[1..] {
            let j = p.db.datamodel().await.map_err(|e| e.to_string())?;
            let a: Value = serde_json::from_str(&j).map_err(|e| e.to_string())?;
            let b: Value = serde_json::from_str(&dm_json).map_err(|e| e.to_string())?;
            if a != b {
                return Err("peers disagree on the serialised data model".to_string());
            }
        }
        Ok(u)
    }

    /// create a room on peer `by` at the current clock: admin = `by`, one group per spec
    /// spec: per group (rights [(entity, own, all)], users, user_admins)
    pub async fn create_room(
        &self,
        by: usize,
        date: i64,
        groups: &[(Vec<(&str, bool, bool)>, Vec<usize>, Vec<usize>)],
    ) -> Result<URoom, String> {
        set_clock(date);
        let mut params = Parameters::default();
        params.add("adm", b64(&self.keys[by])).unwrap();
        let mut text = String::from("mutate { sys.Room { admin:[{verif_key:$adm}] authorisations:[");
        let mut ro = RO::default();
        ro.push(Entry { ev: REvent::AddAdmin { key: by, enabled: true }, by, date });
        for (gi, (rights, users, uadmins)) in groups.iter().enumerate() {
            ro.push(Entry { ev: REvent::AddGroup, by, date });
            text.push_str(&format!("{{ name:\"g{}\" ", gi));
            if !rights.is_empty() {
                text.push_str("rights:[");
                for (e, own, all) in rights {
                    text.push_str(&format!(
                        "{{entity:\"{}\" mutate_self:{} mutate_all:{}}},",
                        e, own, all
                    ));
                    ro.push(Entry {
                        ev: REvent::AddRight { group: gi, entity: e.to_string(), own: *own, all: *all },
                        by,
                        date,
                    });
                }
                text.pop();
                text.push_str("] ");
            }
            if !users.is_empty() {
                text.push_str("users:[");
                for u in users {
                    let pn = format!("u{}_{}", gi, u);
                    params.add(&pn, b64(&self.keys[*u])).unwrap();
                    text.push_str(&format!("{{verif_key:${}}},", pn));
                    ro.push(Entry {
                        ev: REvent::AddUser { group: gi, key: *u, enabled: true },
                        by,
                        date,
                    });
                }
                text.pop();
                text.push_str("] ");
            }
            if !uadmins.is_empty() {
                text.push_str("user_admin:[");
                for u in uadmins {
                    let pn = format!("ua{}_{}", gi, u);
                    params.add(&pn, b64(&self.keys[*u])).unwrap();
                    text.push_str(&format!("{{verif_key:${}}},", pn));
                    ro.push(Entry {
                        ev: REvent::AddUserAdmin { group: gi, key: *u, enabled: true },
                        by,
                        date,
                    });
                }
                text.pop();
                text.push_str("] ");
            }
            text.push_str("},");
        }
        if !groups.is_empty() {
            text.pop();
        }
        text.push_str("] } }");
        let q = self.peers[by]
            .db
            .mutate_raw(&text, Some(params))
            .await
            .map_err(|e| format!("create_room: {}", e))?;
        let ent = &q.mutate_entities[0];
        let id = ent.node_to_mutate.id;
        let mut gids = vec![];
        if let Some(auths) = ent.sub_nodes.get("authorisations") {
            for a in auths {
                gids.push(a.node_to_mutate.id);
            }
        }
        self.peers[by].barrier().await;
        Ok(URoom { id, groups: gids, ro })
    }

    /// text + parameters of the room mutation that performs `ev`
    pub fn event_mutation(&self, room: &URoom, ev: &REvent) -> (String, Parameters) {
        let mut p = Parameters::default();
        p.add("room", b64(&room.id)).unwrap();
        let text = match ev {
            REvent::AddAdmin { key, enabled } => {
                p.add("k", b64(&self.keys[*key])).unwrap();
                format!(
                    "mutate {{ sys.Room {{ id:$room admin:[{{verif_key:$k enabled:{}}}] }} }}",
                    enabled
                )
            }
            REvent::AddGroup => {
                "mutate { sys.Room { id:$room authorisations:[{name:\"gx\"}] } }".to_string()
            }
            REvent::AddUser { group, key, enabled } => {
                p.add("g", b64(&room.groups[*group])).unwrap();
                p.add("k", b64(&self.keys[*key])).unwrap();
                format!("mutate {{ sys.Room {{ id:$room authorisations:[{{ id:$g users:[{{verif_key:$k enabled:{}}}] }}] }} }}", enabled)
            }
            REvent::AddUserAdmin { group, key, enabled } => {
                p.add("g", b64(&room.groups[*group])).unwrap();
                p.add("k", b64(&self.keys[*key])).unwrap();
                format!("mutate {{ sys.Room {{ id:$room authorisations:[{{ id:$g user_admin:[{{verif_key:$k enabled:{}}}] }}] }} }}", enabled)
            }
            REvent::AddGroupWith { entity, own, all, key } => {
                p.add("e", entity.clone()).unwrap();
                p.add("k", b64(&self.keys[*key])).unwrap();
                format!("mutate {{ sys.Room {{ id:$room authorisations:[{{ name:\"gw\" rights:[{{entity:$e mutate_self:{} mutate_all:{}}}] users:[{{verif_key:$k}}] }}] }} }}", own, all)
            }
            REvent::AddRight { group, entity, own, all } => {
                p.add("g", b64(&room.groups[*group])).unwrap();
                p.add("e", entity.clone()).unwrap();
                format!("mutate {{ sys.Room {{ id:$room authorisations:[{{ id:$g rights:[{{entity:$e mutate_self:{} mutate_all:{}}}] }}] }} }}", own, all)
            }
        };
        (text, p)
    }

    /// apply a room event on peer `by` through the real mutation path. Ok(true) = accepted
    pub async fn apply_event(
        &self,
        room: &mut URoom,
        ev: &REvent,
        by: usize,
        date: i64,
    ) -> Result<bool, String> {
        set_clock(date);
        let (text, p) = self.event_mutation(room, ev);
        let r = self.peers[by].db.mutate_raw(&text, Some(p)).await;
        self.peers[by].barrier().await;
        match r {
            Ok(q) => {
                if matches!(ev, REvent::AddGroup | REvent::AddGroupWith { .. }) {
                    if let Some(auths) = q.mutate_entities[0].sub_nodes.get("authorisations") {
                        room.groups.push(auths[0].node_to_mutate.id);
                    }
                }
                room.ro.push(Entry { ev: ev.clone(), by, date });
                Ok(true)
            }
            Err(_e) => Ok(false),
        }
    }

    /// copy the room definition from `from` to every other peer (real export / check / import)
    pub async fn spread_room(&self, room: &URoom, from: usize) -> Vec<(usize, String)> {
        let mut errs = vec![];
        for i in 0..self.peers.len() {
            if i != from {
                if let Err(e) = transfer_room_def(&self.peers[i], &self.peers[from], room.id).await
                {
                    errs.push((i, e));
                }
            }
        }
        errs
    }

    /// a signed ns.P / ns.Q row authored by identity `author`
    pub fn make_node(
        &self,
        entity_short: &str,
        room: Option<Uid>,
        author: usize,
        date: i64,
        json: Value,
    ) -> Node {
        set_clock(date);
        let mut n = Node {
            room_id: room,
            cdate: date,
            mdate: date,
            _entity: entity_short.to_string(),
            _json: Some(json.to_string()),
            ..Default::default()
        };
        n.sign(&signing_key_for((author + 1) as u8)).expect("sign node");
        n
    }

    pub fn make_p(&self, room: Option<Uid>, author: usize, date: i64, name: &str) -> Node {
        let short = self.p_short.clone();
        let f = self.p_name.clone();
        self.make_node(&short, room, author, date, json!({ f: name }))
    }

    pub fn make_q(&self, room: Option<Uid>, author: usize, date: i64, name: &str) -> Node {
        let short = self.q_short.clone();
        let f = self.q_name.clone();
        self.make_node(&short, room, author, date, json!({ f: name }))
    }

    pub fn make_edge(&self, src: &Node, label_short: &str, dest: &Node, author: usize, date: i64) -> Edge {
        let mut e = Edge {
            src: src.id,
            src_entity: src._entity.clone(),
            label: label_short.to_string(),
            dest: dest.id,
            cdate: date,
            ..Default::default()
        };
        e.sign(&signing_key_for((author + 1) as u8)).expect("sign edge");
        e
    }

    /// store rows and references in a peer's database without any validation
    pub async fn plant(&self, peer: usize, nodes: Vec<Node>, edges: Vec<Edge>) -> Result<(), String> {
        self.peers[peer]
            .write_unchecked(Box::new(FnWrite(Box::new(move |conn| {
                for n in &nodes {
                    let mut n = n.clone();
                    n._local_id = None;
                    // indexed exactly as a local creation would be
                    let mut fts = String::new();
                    if let Some(j) = &n._json {
                        if let Ok(v) = serde_json::from_str::<Value>(j) {
                            let _ = discret::verif::database::node::extract_json(&v, &mut fts);
                        }
                    }
                    n.write(conn, true, &None, &Some(fts))?;
                }
                for e in &edges {
                    e.write(conn)?;
                }
                Ok(())
            }))))
            .await
    }
}

/// O(1) change detector: SQLite's data_version of the reader connection changes whenever another
/// connection (the writer) commits a modification of the database file.
pub async fn fingerprint(peer: &FPeer) -> Result<Vec<Vec<Sv>>, String> {
    peer.barrier().await;
    peer.sql("PRAGMA data_version").await
}

/// rows and references of the authorisation entities (must only change through room mutations)
pub async fn sys_fingerprint(peer: &FPeer) -> Result<Vec<Vec<Sv>>, String> {
    peer.sql(
        "SELECT 'n', count(*), ifnull(max(rowid),0), ifnull(sum(mdate),0) FROM _node WHERE _entity IN ('0.0','0.1','0.2','0.3')
         UNION ALL SELECT 'e', count(*), 0, ifnull(sum(cdate),0) FROM _edge WHERE src_entity IN ('0.0','0.1','0.2','0.3')",
    )
    .await
}
