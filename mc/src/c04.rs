//! C04 — values round-trip unchanged and text is never executed.
//!
//! E-SHAPE on the light world. Every value of the explicit finite domains (c04_dom.rs) is used in
//! every position (mutation parameter, mutation literal, model default, filter parameter, filter
//! literal, filter on an alias, search parameter / literal, after / before value, alias) for every
//! scalar field type x {plain, nullable, default}. Oracle (independent of the crate):
//!  * the typed value read back by a query of that row equals the written one (denotation of a
//!    string literal = JSON decoding of the token: the three grammars use JSON's string grammar);
//!  * an equality filter returns exactly the rows that hold the value (harness side row model);
//!  * a write touches exactly its own `_node` row (row change hook) and leaves every other field
//!    and every bystander row as it was; a read touches nothing;
//!  * every SQL text handed to SQLite (generated query text and traced statements) has a token
//!    structure (own lexer, literals abstracted) seen with benign values: no value changes it;
//!  * no engine error, no panic for a value the language accepts.
use crate::c04_dom::*;
use crate::c04_sql::*;
use crate::c04_world::*;
use crate::common::*;
use crate::world::{set_clock, Sv, T0};
use discret::verif::database::query_language::ParamValue;
use serde_json::json;
use std::collections::{BTreeMap, BTreeSet};
use std::time::Instant;

const MODEL: &str = r#"{
  S { p: String, n: String nullable, d: String default "dflt" }
  I { p: Integer, n: Integer nullable, d: Integer default 7 }
  F { p: Float, n: Float nullable, d: Float default 2.5 }
  B { p: Boolean, n: Boolean nullable, d: Boolean default true }
  X { p: Base64, n: Base64 nullable, d: Base64 default "ZGZsdA" }
  J { p: Json, n: Json nullable, d: Json default "[7]" }
  Other { t: String, k: Integer }
}"#;

fn default_model(ty: Option<(Ty, &str)>) -> String {
    match ty {
        None => "{ Dd { k: Integer } Other { t: String, k: Integer } }".to_string(),
        Some((t, token)) => format!("{{ Dd {{ k: Integer, f: {} default {} }} Other {{ t: String, k: Integer }} }}", t.name(), token),
    }
}

fn marker(ty: Ty, second: bool) -> Val {
    match (ty, second) {
        (Ty::Str, false) => Val::S("P-mark".into()),
        (Ty::Str, true) => Val::S("U-mark".into()),
        (Ty::Int, false) => Val::I(11),
        (Ty::Int, true) => Val::I(12),
        (Ty::Flt, false) => Val::F(1.25),
        (Ty::Flt, true) => Val::F(3.75),
        (Ty::Bool, false) => Val::B(false),
        (Ty::Bool, true) => Val::B(true),
        (Ty::B64, false) => Val::X("UA".into()),
        (Ty::B64, true) => Val::X("VQ".into()),
        (Ty::Json, false) => Val::J("{\"m\":1}".into()),
        (Ty::Json, true) => Val::J("{\"u\":2}".into()),
    }
}
fn model_default(ty: Ty) -> Val {
    match ty {
        Ty::Str => Val::S("dflt".into()),
        Ty::Int => Val::I(7),
        Ty::Flt => Val::F(2.5),
        Ty::Bool => Val::B(true),
        Ty::B64 => Val::X("ZGZsdA".into()),
        Ty::Json => Val::J("[7]".into()),
    }
}
fn lit1(ty: Ty, v: &Val) -> String {
    literal_tokens(ty, v)[0].1.clone()
}

/// kind of the first escape sequence other than `\"` in a string token
fn esc_class(token: &str) -> Option<&'static str> {
    if !token.starts_with('"') {
        return None;
    }
    let cs: Vec<char> = token.chars().collect();
    let mut i = 1;
    while i + 1 < cs.len() {
        if cs[i] == '\\' {
            match cs[i + 1] {
                '"' => {}
                '\\' => return Some("esc-backslash"),
                'u' => return Some("esc-unicode"),
                _ => return Some("esc-short"),
            }
            i += 2;
        } else {
            i += 1;
        }
    }
    None
}

/// the value a string token denotes if only `\"` is an escape (the reading implemented today)
fn raw_val(like: &Val, token: &str) -> Val {
    let r = raw_reading(token);
    match like {
        Val::X(_) => Val::X(r),
        Val::J(_) => Val::J(r),
        _ => Val::S(r),
    }
}
fn raw_legal(v: &Val) -> bool {
    match v {
        Val::J(t) => parse_json(t).is_ok(),
        Val::X(t) => t.chars().all(|c| c.is_ascii_alphanumeric() || c == '-' || c == '_'),
        _ => true,
    }
}

fn key_pos(pos: &str) -> String {
    pos.replace("lit-raw", "lit").replace("lit-esc", "lit").replace("lit-dec", "lit").replace("lit-exp", "lit").replace("lit-alt", "lit")
}

/// FTS5 bareword characters keep their class, every other character is one class for the search positions
fn search_class(c: char) -> &'static str {
    if c.is_ascii_alphanumeric() || c == '_' || (c as u32) >= 0x80 {
        char_class(c)
    } else {
        "non-bareword"
    }
}

fn failure<T>(w: &World, r: &Res<T>, what: &str) -> (&'static str, String) {
    if let Some(f) = w.last_foreign.first() {
        ("sql-structure-changed", format!("{}: {}; the value changes the statement, structure seen: {}", what, r.msg().chars().take(160).collect::<String>(), f.chars().take(400).collect::<String>()))
    } else {
        (sym_of(r), format!("{}: {}", what, r.msg().chars().take(300).collect::<String>()))
    }
}

/// a value of a domain with its class and whether the harness knows it to be a legal value of
/// the type (spelling variants of base64 may be refused by the language)
#[derive(Clone, Debug)]
struct DV {
    v: Val,
    class: String,
    legal: bool,
}

struct Row {
    id: String,
    ty: Ty,
    vals: [Val; 3],
}

struct Ctx {
    out: Outcome,
    vocab: Vocabulary,
    /// report findings and count cases (false during warm-up and silent calibration)
    report: bool,
    /// record single character culprits
    calibrating: bool,
    culprits: BTreeMap<String, Vec<char>>,
    tier: Tier,
    replay_log: Vec<String>,
}

impl Ctx {
    fn new(tier: Tier) -> Ctx {
        Ctx {
            out: Outcome::default(),
            vocab: Vocabulary::default(),
            report: false,
            calibrating: false,
            culprits: BTreeMap::new(),
            tier,
            replay_log: vec![],
        }
    }

    /// class of the input that breaks: for strings the class of the first character that alone
    /// already breaks this position / field (learnt on the strings of length one), else the class
    /// multiset of the whole sequence
    fn culprit_class(&mut self, pos: &str, tk: &str, dv: &DV, token: Option<&str>) -> String {
        if let Some(c) = token.and_then(esc_class) {
            return c.to_string();
        }
        let search = pos.starts_with("search");
        let cls = |c: char| if search { search_class(c) } else { char_class(c) };
        let s = match &dv.v {
            Val::S(s) => s.clone(),
            Val::J(_) => return "json-value".to_string(),
            _ => return dv.class.clone(),
        };
        let key = format!("{}|{}", pos, tk);
        let n = s.chars().count();
        if n == 0 {
            return "empty".into();
        }
        if n == 1 {
            let c = s.chars().next().unwrap();
            if self.calibrating {
                let e = self.culprits.entry(key).or_default();
                if !e.contains(&c) {
                    e.push(c);
                }
            }
            return cls(c).to_string();
        }
        if let Some(cs) = self.culprits.get(&key) {
            for c in s.chars() {
                if cs.contains(&c) {
                    return cls(c).to_string();
                }
            }
        }
        format!("seq({})", dv.class)
    }

    /// one oracle evaluation: `problem` = None when the case satisfied the oracle
    fn verdict(&mut self, family: &str, pos: &str, ty: Ty, kind: usize, dv: &DV, token: Option<&str>, problem: Option<(&str, String)>, replay: serde_json::Value) {
        let tk = format!("{}.{}", ty.name(), KINDS[kind]);
        let (label, viol) = match &problem {
            None => ("ok".to_string(), None),
            Some((sym, what)) => {
                let kp = key_pos(pos);
                let class = self.culprit_class(&kp, &tk, dv, token);
                // the decoding of a token happens before the field is looked at: one key for all kinds
                let tkk = if *sym == "literal-not-decoded" { format!("{}.*", ty.name()) } else { tk.clone() };
                let key = format!("{}|{}|{}|{}", kp, tkk, class, sym);
                (format!("viol:{}", sym), Some((key, what.clone())))
            }
        };
        if !self.report {
            return;
        }
        self.out.evaluations += 1;
        self.out.count(&format!("{}/{}/{}/{}", family, pos, ty.name(), label));
        let trivial = match &dv.v {
            Val::S(s) => s.chars().all(|c| char_class(c) == "plain"),
            _ => false,
        };
        let sig = (pos.to_string(), tk.clone(), dv.class.clone(), label.clone());
        self.out.state(&sig);
        if !trivial {
            self.out.nontrivial(&sig);
        }
        if let Some((key, what)) = viol {
            let what = format!("{} [value {}]", what, dv.v.show());
            if !self.replay_log.is_empty() || self.out.violations.iter().all(|v| v.key != key) {
                self.replay_log.push(format!("{} :: {}", key, what));
            }
            self.out.violation(key, what, replay);
        } else if self.out.samples.len() < 8 && !trivial && self.out.evaluations % 1009 == 0 {
            self.out.sample(json!({"position": pos, "field": tk, "value": dv.v.show(), "result": "ok"}));
        }
    }

    /// a refusal / error outcome that is not a verdict on the property (e.g. the language refuses
    /// the token everywhere)
    fn tally(&mut self, family: &str, pos: &str, ty: Ty, what: &str) {
        if self.report {
            self.out.count(&format!("{}/{}/{}/{}", family, pos, ty.name(), what));
        }
    }
}

fn replay_json(family: &str, ty: Ty, dv: &DV) -> serde_json::Value {
    json!({"family": family, "type": ty.name(), "value": dv.v.to_replay(), "class": dv.class, "legal": dv.legal})
}

fn ids_of(j: &JV, entity: &str) -> Option<BTreeSet<String>> {
    let arr = j.get(entity)?.as_arr()?;
    let mut s = BTreeSet::new();
    for r in arr {
        s.insert(r.get("id")?.as_str()?.to_string());
    }
    Some(s)
}

fn sparam(s: &str) -> ParamValue {
    ParamValue::String(s.to_string())
}

/// changes that a write of `rowid_new` (insert) or an update of one row may cause
fn foreign_changes(changes: &[(u8, i64, u8)], expect_action: u8, allowed_rowid: Option<i64>) -> Option<String> {
    let mut own = 0;
    let mut own_rowid = allowed_rowid;
    for (t, rowid, a) in changes {
        match *t {
            T_NODE => {
                if *a == expect_action && (own_rowid.is_none() || own_rowid == Some(*rowid)) {
                    own_rowid = Some(*rowid);
                    own += 1;
                } else {
                    return Some(format!("_node rowid {} action {} (own row {:?})", rowid, a, own_rowid));
                }
            }
            T_EDGE => return Some(format!("_edge rowid {} action {}", rowid, a)),
            _ => {}
        }
    }
    if own == 0 {
        return Some("no _node row written".into());
    }
    None
}

// ------------------------------------------------------------------------------------------
// family "value": write / read back / update another field / filters / search / paging
// ------------------------------------------------------------------------------------------

struct ValueBlock {
    w: World,
    ty: Ty,
    rows: Vec<Row>,
    base_rowid: i64,
    base_dump: Vec<Vec<Sv>>,
}

impl ValueBlock {
    fn new(ctx: &mut Ctx, ty: Ty, decoys: &[Val]) -> Result<ValueBlock, String> {
        let mut w = World::new(MODEL)?;
        // bystanders: another entity with metacharacters in its text, and decoy rows of the entity under test
        for (i, t) in ["it's \"x\" \\ % _", "a", "dflt P-mark U-mark"].iter().enumerate() {
            let r = w.write(
                "mutate { Other { t: $t k: $k } }",
                params(&[("t", sparam(t)), ("k", ParamValue::Integer(i as i64))]),
                true,
                &mut ctx.vocab,
            );
            if !matches!(r, Res::Ok(_)) {
                return Err(format!("bystander write failed: {}", r.msg()));
            }
        }
        let mut b = ValueBlock { w, ty, rows: vec![], base_rowid: 0, base_dump: vec![] };
        for d in decoys {
            let text = format!("mutate {{ {} {{ p: $v n: $v d: $v }} }}", ty.entity());
            if let Res::Ok(ok) = b.w.write(&text, params(&[("v", d.param())]), true, &mut ctx.vocab) {
                b.rows.push(Row { id: ok.id, ty, vals: [d.clone(), d.clone(), d.clone()] });
            }
        }
        // align decoy rows with what they hold according to the query interface
        b.realign(ctx);
        b.base_rowid = b.w.max_rowid();
        b.base_dump = b.w.dump_nodes(b.base_rowid);
        Ok(b)
    }

    fn realign(&mut self, ctx: &mut Ctx) {
        let e = self.ty.entity();
        let text = format!("query {{ {} {{ id p n d }} }}", e);
        if let Res::Ok(ok) = self.w.read(&text, params(&[]), true, &mut ctx.vocab) {
            if let Some(arr) = ok.json.get(e).and_then(|x| x.as_arr()) {
                for r in arr {
                    let id = r.get("id").and_then(|x| x.as_str()).unwrap_or("");
                    if let Some(row) = self.rows.iter_mut().find(|x| x.id == id) {
                        for k in 0..3 {
                            if let Some(g) = r.get(FIELDS[k]) {
                                let mut nz = false;
                                if !typed_eq(self.ty, &row.vals[k], g, &mut nz) {
                                    row.vals[k] = val_from_json(self.ty, g);
                                }
                            }
                        }
                    }
                }
            }
        }
    }

    fn read_row(&mut self, ctx: &mut Ctx, id: &str) -> Res<ReadOk> {
        let text = format!("query {{ {} (id=$id) {{ id p n d }} }}", self.ty.entity());
        self.w.read(&text, params(&[("id", sparam(id))]), true, &mut ctx.vocab)
    }

    /// compare the row read by id with the expected values; returns the problem and re-aligns the model
    fn check_row(&mut self, ctx: &mut Ctx, id: &str, expect: &[Val; 3], focus: usize) -> (Option<(&'static str, String)>, [Val; 3]) {
        let e = self.ty.entity();
        let mut actual = expect.clone();
        let r = self.read_row(ctx, id);
        let ok = match r {
            Res::Ok(ok) => ok,
            other => return (Some((sym_of(&other), format!("reading the row back by id: {}", other.msg()))), actual),
        };
        if !ok.changes.is_empty() {
            return (Some(("other-row-touched", format!("a query changed rows {:?}", ok.changes))), actual);
        }
        if let Some(f) = ok.foreign.first() {
            return (Some(("sql-structure-changed", format!("read by id ran a statement of unknown structure: {}", f))), actual);
        }
        let arr = match ok.json.get(e).and_then(|x| x.as_arr()) {
            Some(a) => a,
            None => return (Some(("changed-value", "query result has no entity array".into())), actual),
        };
        if arr.len() != 1 {
            return (Some(("wrong-match-set", format!("query by id returned {} rows", arr.len()))), actual);
        }
        let mut problem = None;
        // the field under test first, so that the symptom names it
        let order = [focus, (focus + 1) % 3, (focus + 2) % 3];
        for k in order {
            let g = arr[0].get(FIELDS[k]).cloned().unwrap_or(JV::Null);
            let mut nz = false;
            if !typed_eq(self.ty, &expect[k], &g, &mut nz) {
                actual[k] = val_from_json(self.ty, &g);
                if problem.is_none() {
                    let sym = if k == focus { "changed-value" } else { "other-field-changed" };
                    problem = Some((sym, format!("field {} ({}) reads {} instead of {}", FIELDS[k], KINDS[k], g.render(), expect[k].show())));
                }
            } else if nz && ctx.report {
                ctx.out.count("note/float zero read back with the other sign (accepted, documented)");
            }
        }
        (problem, actual)
    }

    /// write `dv` in field `kind` with every form, read back, then update another field and read again
    fn write_cases(&mut self, ctx: &mut Ctx, dv: &DV) {
        let ty = self.ty;
        let e = ty.entity();
        for kind in 0..3 {
            if matches!(dv.v, Val::Null) && kind != 1 {
                continue;
            }
            let mut forms: Vec<(String, String, bool)> = vec![("mut-param".into(), "$v".into(), true)];
            for (f, t) in literal_tokens(ty, &dv.v) {
                forms.push((format!("mut-{}", f), t, false));
            }
            for (pos, token, is_param) in forms {
                let tok = if is_param { None } else { Some(token.as_str()) };
                let undecoded = tok.and_then(esc_class).is_some();
                let mut expect = [marker(ty, false), Val::Null, model_default(ty)];
                expect[kind] = dv.v.clone();
                let mut text = format!("mutate {{ {} {{ ", e);
                if kind != 0 {
                    text.push_str(&format!("p: {} ", lit1(ty, &marker(ty, false))));
                }
                text.push_str(&format!("{}: {} }} }}", FIELDS[kind], token));
                let p = if is_param { params(&[("v", dv.v.param())]) } else { params(&[]) };
                let rp = replay_json("value", ty, dv);
                let r = self.w.write(&text, p, is_param, &mut ctx.vocab);
                let ok = match r {
                    Res::Ok(ok) => ok,
                    Res::Refused(m) => {
                        if undecoded && dv.legal && !raw_legal(&raw_val(&dv.v, &token)) {
                            ctx.verdict("value", &pos, ty, kind, dv, tok, Some(("literal-not-decoded", format!("the token {} is refused because its escapes are not decoded: {}", token, m))), rp);
                        } else if dv.legal {
                            ctx.verdict("value", &pos, ty, kind, dv, tok, Some(("refused", format!("a legal value is refused: {}", m))), rp);
                        } else {
                            ctx.tally("value", &pos, ty, "refused(variant spelling)");
                        }
                        continue;
                    }
                    other => {
                        let f = failure(&self.w, &other, "mutation fails");
                        ctx.verdict("value", &pos, ty, kind, dv, tok, Some(f), rp);
                        continue;
                    }
                };
                let mut problem: Option<(&str, String)> = None;
                if let Some(c) = foreign_changes(&ok.changes, 1, None) {
                    problem = Some(("other-row-touched", format!("the insert changed {}", c)));
                }
                if problem.is_none() {
                    if let Some(f) = ok.foreign.first() {
                        problem = Some(("sql-structure-changed", format!("the mutation ran a statement of unknown structure: {}", f)));
                    }
                }
                let (p2, actual) = self.check_row(ctx, &ok.id, &expect, kind);
                if problem.is_none() {
                    problem = p2;
                    if let Some(("changed-value", w)) = &problem {
                        if undecoded && (ty != Ty::Str || val_eq(&actual[kind], &raw_val(&dv.v, &token))) {
                            problem = Some(("literal-not-decoded", format!("token {}: {}", token, w)));
                        }
                    }
                }
                let own_rowid = ok.changes.iter().find(|c| c.0 == T_NODE).map(|c| c.1);
                self.rows.push(Row { id: ok.id.clone(), ty, vals: actual.clone() });
                ctx.verdict("value", &pos, ty, kind, dv, tok, problem, rp.clone());

                // update of another field of the same row: the value under test must survive
                if is_param {
                    let k2 = (kind + 1) % 3;
                    let m2 = marker(ty, true);
                    let text = format!("mutate {{ {} {{ id: $id {}: {} }} }}", e, FIELDS[k2], lit1(ty, &m2));
                    let r = self.w.write(&text, params(&[("id", sparam(&ok.id))]), true, &mut ctx.vocab);
                    let upos = format!("update-after-{}", &pos[4..]);
                    match r {
                        Res::Ok(u) => {
                            let mut problem: Option<(&str, String)> = None;
                            if let Some(c) = foreign_changes(&u.changes, 2, own_rowid) {
                                problem = Some(("other-row-touched", format!("the update changed {}", c)));
                            }
                            let mut expect2 = actual.clone();
                            expect2[k2] = m2.clone();
                            let (p2, actual2) = self.check_row(ctx, &ok.id, &expect2, k2);
                            // a difference on the field under test is the finding of interest here
                            let p2 = p2.map(|(s, w)| if s == "other-field-changed" { ("changed-by-update-of-other-field", w) } else { (s, w) });
                            if problem.is_none() {
                                problem = p2;
                            }
                            if let Some(row) = self.rows.last_mut() {
                                row.vals = actual2;
                            }
                            ctx.verdict("value", &upos, ty, kind, dv, None, problem, rp);
                        }
                        other => {
                            let f = failure(&self.w, &other, "update of another field fails");
                            ctx.verdict("value", &upos, ty, kind, dv, None, Some(f), rp);
                        }
                    }
                }
            }
        }
    }

    fn expected_ids(&self, kind: usize, v: &Val) -> BTreeSet<String> {
        self.rows.iter().filter(|r| r.ty == self.ty && val_eq(&r.vals[kind], v)).map(|r| r.id.clone()).collect()
    }

    #[allow(clippy::too_many_arguments)]
    fn run_filter(&mut self, ctx: &mut Ctx, pos: &str, kind: usize, dv: &DV, token: Option<&str>, text: &str, p: discret::verif::database::query_language::parameter::Parameters, cache: bool, expected: &BTreeSet<String>) {
        let ty = self.ty;
        let e = ty.entity();
        let rp = replay_json("value", ty, dv);
        let undecoded = token.and_then(esc_class).is_some();
        let r = self.w.read(text, p, cache, &mut ctx.vocab);
        let ok = match r {
            Res::Ok(ok) => ok,
            Res::Refused(m) => {
                if ty == Ty::Json && pos.starts_with("filter-lit") {
                    // the language has no literal comparison on Json fields: not a value it accepts
                    ctx.tally("value", pos, ty, "refused(no literal filter on Json)");
                } else if undecoded && dv.legal && !raw_legal(&raw_val(&dv.v, token.unwrap())) {
                    ctx.verdict("value", pos, ty, kind, dv, token, Some(("literal-not-decoded", format!("the token {} is refused because its escapes are not decoded: {}", token.unwrap(), m))), rp);
                } else if dv.legal {
                    ctx.verdict("value", pos, ty, kind, dv, token, Some(("refused", format!("a legal value is refused: {}", m))), rp);
                } else {
                    ctx.tally("value", pos, ty, "refused(variant spelling)");
                }
                return;
            }
            other => {
                let f = failure(&self.w, &other, "filter query fails");
                ctx.verdict("value", pos, ty, kind, dv, token, Some(f), rp);
                return;
            }
        };
        let mut problem: Option<(&str, String)> = None;
        if !ok.changes.is_empty() {
            problem = Some(("other-row-touched", format!("a query changed rows {:?}", ok.changes)));
        } else if let Some(f) = ok.foreign.first() {
            problem = Some(("sql-structure-changed", format!("statement of unknown structure: {}", f)));
        } else {
            match ids_of(&ok.json, e) {
                None => problem = Some(("wrong-match-set", "result without ids".into())),
                Some(got) => {
                    if &got != expected {
                        if undecoded && got == self.expected_ids(kind, &raw_val(&dv.v, token.unwrap())) {
                            problem = Some(("literal-not-decoded", format!("the filter literal {} selects the rows holding its undecoded text", token.unwrap())));
                        } else {
                            let missing = expected.difference(&got).count();
                            let extra = got.difference(expected).count();
                            let sym = if missing > 0 && extra > 0 {
                                "wrong-match-set(missing+extra)"
                            } else if missing > 0 {
                                "wrong-match-set(missing)"
                            } else {
                                "wrong-match-set(extra)"
                            };
                            let sym = if ty == Ty::Json { "wrong-match-set" } else { sym };
                            problem = Some((sym, format!("equality filter on {} returns {} rows, {} holding the value are missing, {} do not hold it", FIELDS[kind], got.len(), missing, extra)));
                        }
                    }
                }
            }
        }
        ctx.verdict("value", pos, ty, kind, dv, token, problem, rp);
    }

    fn filter_cases(&mut self, ctx: &mut Ctx, dv: &DV) {
        let ty = self.ty;
        let e = ty.entity();
        for kind in 0..3 {
            if matches!(dv.v, Val::Null) {
                if kind == 1 {
                    // literal null: rows whose field is null. A null *parameter* has no fixed meaning (DESIGN 3.4)
                    let expected = self.expected_ids(kind, &Val::Null);
                    let text = format!("query {{ {} ({} = null) {{ id }} }}", e, FIELDS[kind]);
                    self.run_filter(ctx, "filter-lit", kind, dv, None, &text, params(&[]), true, &expected);
                }
                continue;
            }
            if let Val::J(t) = &dv.v {
                if matches!(parse_json(t), Ok(JV::Null)) {
                    // a JSON null cannot be told from an absent value through the query interface: not judged
                    ctx.tally("value", "filter-param", ty, "skipped(JSON null value)");
                    continue;
                }
            }
            let expected = self.expected_ids(kind, &dv.v);
            let text = format!("query {{ {} ({} = $v) {{ id }} }}", e, FIELDS[kind]);
            self.run_filter(ctx, "filter-param", kind, dv, None, &text, params(&[("v", dv.v.param())]), true, &expected);
            let text = format!("query {{ {} (x = $v) {{ id x: {} }} }}", e, FIELDS[kind]);
            self.run_filter(ctx, "filter-alias-param", kind, dv, None, &text, params(&[("v", dv.v.param())]), true, &expected);
            for (f, t) in literal_tokens(ty, &dv.v) {
                let text = format!("query {{ {} ({} = {}) {{ id }} }}", e, FIELDS[kind], t);
                self.run_filter(ctx, &format!("filter-{}", f), kind, dv, Some(&t), &text, params(&[]), false, &expected);
            }
        }
    }

    fn search_once(&mut self, ctx: &mut Ctx, token: &str, v: Option<&Val>) -> Res<ReadOk> {
        let text = format!("query {{ S (search({})) {{ id }} }}", token);
        let p = match v {
            Some(v) => params(&[("v", v.param())]),
            None => params(&[]),
        };
        self.w.read(&text, p, v.is_some(), &mut ctx.vocab)
    }

    /// search term position (String entity): the statement is unchanged, the literal and the
    /// parameter mean the same term, nothing is written, and the term is one opaque phrase
    /// (reference: the same index asked by the harness with the term quoted as one FTS5 string)
    fn search_cases(&mut self, ctx: &mut Ctx, dv: &DV) {
        let term = match &dv.v {
            Val::S(s) => s.clone(),
            _ => return,
        };
        let ty = self.ty;
        let rp = replay_json("value", ty, dv);
        // reference
        // white space separates terms (every term must be found): each piece is one opaque phrase
        let pieces: Vec<String> = term
            .split(|c| c == ' ' || c == '\t' || c == '\n' || c == '\r')
            .filter(|p| !p.is_empty())
            .map(|p| format!("\"{}\"", p.replace('"', "\"\"")))
            .collect();
        let phrase = if pieces.is_empty() { "\"\"".to_string() } else { pieces.join(" ") };
        let reference: Option<BTreeSet<String>> = {
            let r = (|| -> Result<BTreeSet<String>, rusqlite::Error> {
                let mut st = self.w.peer.conn.prepare_cached("SELECT n.id FROM _node_fts f JOIN _node n ON n.rowid = f.rowid WHERE f.text MATCH ?1 AND n._entity = (SELECT _entity FROM _node WHERE id = ?2)")?;
                let anchor = self.rows.first().map(|r| crate::world::uid_from_b64(&r.id).to_vec()).unwrap_or_default();
                let rows = st.query_map((&phrase, &anchor), |r| r.get::<_, Vec<u8>>(0))?;
                let mut s = BTreeSet::new();
                for x in rows {
                    s.insert(crate::world::b64(&x?));
                }
                Ok(s)
            })();
            let _ = self.w.tap.drain();
            r.ok()
        };
        let mut forms: Vec<(String, String, bool)> = vec![("search-param".into(), "$v".into(), true)];
        for (f, t) in literal_tokens(ty, &dv.v) {
            forms.push((format!("search-{}", f), t, false));
        }
        let mut param_outcome: Option<(String, Option<BTreeSet<String>>)> = None;
        for (pos, token, is_param) in forms {
            let tok = if is_param { None } else { Some(token.as_str()) };
            let r = self.search_once(ctx, &token, if is_param { Some(&dv.v) } else { None });
            let outcome = (r.label().to_string(), if let Res::Ok(ok) = &r { ids_of(&ok.json, "S") } else { None });
            if is_param {
                param_outcome = Some(outcome.clone());
            } else if let Some(po) = &param_outcome {
                // the property for the literal position: the literal means the same term as the parameter.
                // What the parameter form does with the term is judged once, at the parameter position.
                let problem: Option<(&str, String)> = if &outcome == po {
                    None
                } else if tok.and_then(esc_class).is_some() {
                    let raw = raw_val(&dv.v, &token);
                    let r2 = self.search_once(ctx, "$v", Some(&raw));
                    let o2 = (r2.label().to_string(), if let Res::Ok(ok) = &r2 { ids_of(&ok.json, "S") } else { None });
                    if o2 == outcome {
                        Some(("literal-not-decoded", format!("search literal {} behaves as the parameter holding its undecoded text", token)))
                    } else {
                        Some(("literal-differs-from-parameter", format!("search literal {} gives {} and the parameter gives {}", token, outcome.0, po.0)))
                    }
                } else {
                    Some(("literal-differs-from-parameter", format!("search literal {} gives {} and the parameter gives {}", token, outcome.0, po.0)))
                };
                ctx.verdict("value", &pos, ty, 0, dv, tok, problem, rp.clone());
                continue;
            }
            let problem: Option<(&str, String)> = match &r {
                Res::Ok(ok) => {
                    if !ok.changes.is_empty() {
                        Some(("other-row-touched", format!("a search changed rows {:?}", ok.changes)))
                    } else if let Some(f) = ok.foreign.first() {
                        Some(("sql-structure-changed", format!("statement of unknown structure: {}", f)))
                    } else {
                        match (ids_of(&ok.json, "S"), &reference) {
                            (None, _) => Some(("wrong-match-set", "result without ids".into())),
                            (Some(got), Some(want)) if &got != want => Some((
                                "term-interpreted",
                                format!("search returns {} rows, the same index asked for the white space separated pieces of the term as opaque phrases returns {}: characters of the term act as query syntax", got.len(), want.len()),
                            )),
                            (Some(_), None) => {
                                ctx.tally("value", &pos, ty, "no-reference(phrase refused by the index)");
                                None
                            }
                            _ => None,
                        }
                    }
                }
                Res::Refused(m) => Some(("refused", format!("a legal term is refused: {}", m))),
                other => Some(failure(&self.w, other, "search fails")),
            };
            ctx.verdict("value", &pos, ty, 0, dv, tok, problem, rp.clone());
        }
    }

    /// after / before position (String entity, plain field): with `order_by(p asc)`, the rows
    /// before the value, equal to it and after it partition the rows, whatever the collation;
    /// literal and parameter forms give the same sets
    fn paging_cases(&mut self, ctx: &mut Ctx, dv: &DV) {
        if !matches!(dv.v, Val::S(_)) {
            return;
        }
        let ty = self.ty;
        let e = ty.entity();
        let rp = replay_json("value", ty, dv);
        let all: BTreeSet<String> = self.rows.iter().map(|r| r.id.clone()).collect();
        let mut forms: Vec<(String, String, bool)> = vec![("paging-param".into(), "$v".into(), true)];
        for (f, t) in literal_tokens(ty, &dv.v) {
            forms.push((format!("paging-{}", f), t, false));
        }
        for (pos, token, is_param) in forms {
            let tok = if is_param { None } else { Some(token.as_str()) };
            let mut sets = vec![];
            let mut problem: Option<(&str, String)> = None;
            for dir in ["before", "after"] {
                let text = format!("query {{ {} (order_by(p asc), {}({})) {{ id }} }}", e, dir, token);
                let p = if is_param { params(&[("v", dv.v.param())]) } else { params(&[]) };
                match self.w.read(&text, p, is_param, &mut ctx.vocab) {
                    Res::Ok(ok) => {
                        if !ok.changes.is_empty() {
                            problem = Some(("other-row-touched", format!("a query changed rows {:?}", ok.changes)));
                        } else if let Some(f) = ok.foreign.first() {
                            problem = Some(("sql-structure-changed", format!("statement of unknown structure: {}", f)));
                        }
                        sets.push(ids_of(&ok.json, e).unwrap_or_default());
                    }
                    Res::Refused(m) => {
                        problem = Some(("refused", format!("a legal value is refused: {}", m)));
                        break;
                    }
                    other => {
                        problem = Some(failure(&self.w, &other, &format!("{} query fails", dir)));
                        break;
                    }
                }
            }
            if problem.is_none() && sets.len() == 2 {
                let partition = |eq: &BTreeSet<String>| -> bool {
                    let inter = sets[0].intersection(&sets[1]).count();
                    let mut union: BTreeSet<String> = sets[0].union(&sets[1]).cloned().collect();
                    let overlap_eq = union.intersection(eq).count();
                    union.extend(eq.iter().cloned());
                    inter == 0 && overlap_eq == 0 && union == all
                };
                let eq = self.expected_ids(0, &dv.v);
                if !partition(&eq) {
                    if tok.and_then(esc_class).is_some() && partition(&self.expected_ids(0, &raw_val(&dv.v, &token))) {
                        problem = Some(("literal-not-decoded", format!("the paging literal {} cuts the rows at its undecoded text", token)));
                    } else {
                        problem = Some((
                            "paging-partition-broken",
                            format!("before/equal/after do not partition the rows: before {} after {} equal {} all {}", sets[0].len(), sets[1].len(), eq.len(), all.len()),
                        ));
                    }
                }
            }
            ctx.verdict("value", &pos, ty, 0, dv, tok, problem, rp.clone());
        }
    }

    /// end of block: the bystander rows are byte identical, and every row of the entity reads as the model says
    fn close(&mut self, ctx: &mut Ctx, dv0: &DV) {
        let ty = self.ty;
        let rp = json!({"family": "value", "type": ty.name(), "block_first_value": dv0.v.to_replay()});
        let now = self.w.dump_nodes(self.base_rowid);
        let mut problem: Option<(&str, String)> = None;
        if now != self.base_dump {
            let n = now.iter().zip(self.base_dump.iter()).filter(|(a, b)| a != b).count();
            problem = Some(("other-row-touched", format!("{} bystander rows differ at the end of the block", n + now.len().abs_diff(self.base_dump.len()))));
        }
        if self.w.count("_edge") != 0 || self.w.count("_node_deletion_log") != 0 {
            problem = Some(("other-row-touched", "edges or deletion log entries appeared".into()));
        }
        if problem.is_none() {
            let e = ty.entity();
            let text = format!("query {{ {} {{ id p n d }} }}", e);
            if let Res::Ok(ok) = self.w.read(&text, params(&[]), true, &mut ctx.vocab) {
                let arr = ok.json.get(e).and_then(|x| x.as_arr()).cloned().unwrap_or_default();
                if arr.len() != self.rows.len() {
                    problem = Some(("wrong-match-set", format!("unfiltered query returns {} rows, {} were written", arr.len(), self.rows.len())));
                } else {
                    for r in &arr {
                        let id = r.get("id").and_then(|x| x.as_str()).unwrap_or("");
                        match self.rows.iter().find(|x| x.id == id) {
                            None => {
                                problem = Some(("wrong-match-set", "unknown row returned".into()));
                                break;
                            }
                            Some(row) => {
                                for k in 0..3 {
                                    let mut nz = false;
                                    let g = r.get(FIELDS[k]).cloned().unwrap_or(JV::Null);
                                    if !typed_eq(ty, &row.vals[k], &g, &mut nz) {
                                        problem = Some(("other-row-touched", format!("an earlier row reads {} in field {} at the end of the block, it read {} when written", g.render(), FIELDS[k], row.vals[k].show())));
                                    }
                                }
                            }
                        }
                    }
                }
            } else {
                problem = Some(("engine-error", "unfiltered query of the block fails".into()));
            }
        }
        ctx.verdict("value", "block-end", ty, 0, dv0, None, problem, rp);
    }
}

fn sym_of<T>(r: &Res<T>) -> &'static str {
    match r {
        Res::Ok(_) => "ok",
        Res::Refused(_) => "refused",
        Res::Engine(_) => "engine-error",
        Res::Other(_) => "other-error",
        Res::Panic(_) => "panic",
    }
}

fn value_block(ctx: &mut Ctx, ty: Ty, values: &[DV], decoys: &[Val]) -> Result<(), String> {
    if values.is_empty() {
        return Ok(());
    }
    let mut b = ValueBlock::new(ctx, ty, decoys)?;
    for dv in values {
        b.write_cases(ctx, dv);
    }
    for dv in values {
        b.filter_cases(ctx, dv);
    }
    if ty == Ty::Str {
        for dv in values {
            b.search_cases(ctx, dv);
            b.paging_cases(ctx, dv);
        }
    }
    b.close(ctx, &values[0]);
    ctx.out.transitions += if ctx.report { b.w.calls } else { 0 };
    Ok(())
}

// ------------------------------------------------------------------------------------------
// family "default": the value is the default of a field added by a model update
// ------------------------------------------------------------------------------------------

struct DRow {
    id: String,
    /// None: legacy row without the field (reads the current default)
    val: Option<Val>,
}

fn default_block(ctx: &mut Ctx, ty: Ty, values: &[DV]) -> Result<(), String> {
    if values.is_empty() {
        return Ok(());
    }
    let mut w = World::new(&default_model(None))?;
    for (i, t) in ["it's \"x\" \\ % _", "a"].iter().enumerate() {
        let r = w.write("mutate { Other { t: $t k: $k } }", params(&[("t", sparam(t)), ("k", ParamValue::Integer(i as i64))]), true, &mut ctx.vocab);
        if !matches!(r, Res::Ok(_)) {
            return Err(format!("bystander write failed: {}", r.msg()));
        }
    }
    let legacy = match w.write("mutate { Dd { k: 0 } }", params(&[]), true, &mut ctx.vocab) {
        Res::Ok(ok) => ok.id,
        other => return Err(format!("legacy row write failed: {}", other.msg())),
    };
    let base_rowid = w.max_rowid();
    let base_dump = w.dump_nodes(base_rowid);
    let mut rows: Vec<DRow> = vec![DRow { id: legacy.clone(), val: None }];
    let mut previous: Option<Val> = None;

    for dv in values {
        if matches!(dv.v, Val::Null) {
            continue;
        }
        for (form, token) in literal_tokens(ty, &dv.v) {
            let pos = format!("default-{}", form);
            let tok = Some(token.as_str());
            let undecoded = esc_class(&token).is_some();
            let rp = replay_json("default", ty, dv);
            // model update through the real parser
            let upd = std::panic::catch_unwind(std::panic::AssertUnwindSafe(|| w.peer.model.update(&default_model(Some((ty, &token))))));
            w.model_changed();
            match upd {
                Err(_) => {
                    ctx.verdict("default", &pos, ty, 2, dv, tok, Some(("panic", "panic in DataModel::update".into())), rp);
                    continue;
                }
                Ok(Err(e)) => {
                    if undecoded && dv.legal && !raw_legal(&raw_val(&dv.v, &token)) {
                        ctx.verdict("default", &pos, ty, 2, dv, tok, Some(("literal-not-decoded", format!("the default token {} is refused because its escapes are not decoded: {}", token, e))), rp);
                    } else if dv.legal {
                        ctx.verdict("default", &pos, ty, 2, dv, tok, Some(("refused", format!("a legal default value is refused: {}", e))), rp);
                    } else {
                        ctx.tally("default", &pos, ty, "refused(variant spelling)");
                    }
                    continue;
                }
                Ok(Ok(())) => {}
            }
            // the default the model holds, as the legacy row (field absent) shows it
            let mut problem: Option<(&str, String)> = None;
            let mut eff = dv.v.clone();
            match w.read("query { Dd (id=$id) { id k f } }", params(&[("id", sparam(&legacy))]), true, &mut ctx.vocab) {
                Res::Ok(ok) => {
                    let g = ok.json.get("Dd").and_then(|a| a.as_arr()).and_then(|a| a.first()).and_then(|r| r.get("f")).cloned();
                    let mut nz = false;
                    if let Some(f) = ok.foreign.first() {
                        problem = Some(("sql-structure-changed", format!("statement of unknown structure: {}", f)));
                    } else {
                        match &g {
                            Some(g) if typed_eq(ty, &dv.v, g, &mut nz) => {}
                            Some(g) => {
                                let seen = val_from_json(ty, g);
                                if undecoded && (ty != Ty::Str || val_eq(&seen, &raw_val(&dv.v, &token))) {
                                    // the model really holds the undecoded text: the checks below use it
                                    eff = raw_val(&dv.v, &token);
                                    problem = Some(("literal-not-decoded", format!("default token {}: the row without the field reads {}", token, g.render())));
                                } else {
                                    problem = Some(("changed-value", format!("the row without the field reads {} instead of the default {}", g.render(), dv.v.show())));
                                }
                            }
                            None => problem = Some(("changed-value", "the row without the field is not returned".into())),
                        }
                    }
                }
                other => problem = Some(failure(&w, &other, "reading the row without the field fails")),
            }
            // a row with the value written explicitly, a row created under the default
            let mut ids: Vec<(String, &str)> = vec![];
            match w.write("mutate { Dd { k: 1 f: $v } }", params(&[("v", eff.param())]), true, &mut ctx.vocab) {
                Res::Ok(ok) => {
                    if let Some(c) = foreign_changes(&ok.changes, 1, None) {
                        if problem.is_none() {
                            problem = Some(("other-row-touched", format!("the insert changed {}", c)));
                        }
                    }
                    rows.push(DRow { id: ok.id.clone(), val: Some(eff.clone()) });
                    ids.push((ok.id, "row written with the value as parameter"));
                }
                Res::Refused(m) => {
                    if dv.legal && problem.is_none() {
                        problem = Some(("refused", format!("explicit write refused: {}", m)));
                    }
                }
                other => {
                    if problem.is_none() {
                        problem = Some(failure(&w, &other, "explicit write fails"));
                    }
                }
            }
            match w.write("mutate { Dd { k: 2 } }", params(&[]), true, &mut ctx.vocab) {
                Res::Ok(ok) => {
                    rows.push(DRow { id: ok.id.clone(), val: Some(eff.clone()) });
                    ids.push((ok.id, "row created without the field"));
                }
                other => {
                    if problem.is_none() {
                        problem = Some(failure(&w, &other, "creation under the default fails"));
                    }
                }
            }
            for (id, what) in &ids {
                match w.read("query { Dd (id=$id) { id k f } }", params(&[("id", sparam(id))]), true, &mut ctx.vocab) {
                    Res::Ok(ok) => {
                        let g = ok.json.get("Dd").and_then(|a| a.as_arr()).and_then(|a| a.first()).and_then(|r| r.get("f")).cloned();
                        let mut nz = false;
                        let good = match &g {
                            Some(g) => typed_eq(ty, &eff, g, &mut nz),
                            None => false,
                        };
                        if !good {
                            if let Some(row) = rows.iter_mut().find(|r| &r.id == id) {
                                row.val = g.as_ref().map(|g| val_from_json(ty, g));
                            }
                            if problem.is_none() {
                                problem = Some(("changed-value", format!("{} reads {} instead of {}", what, g.map(|g| g.render()).unwrap_or("nothing".into()), eff.show())));
                            }
                        }
                    }
                    other => {
                        if problem.is_none() {
                            problem = Some(failure(&w, &other, &format!("reading the {} fails", what)));
                        }
                    }
                }
            }
            ctx.verdict("default", &pos, ty, 2, dv, tok, problem, rp.clone());

            // filters on the field with a default, with the default the model really holds:
            // value = the default (parameter, alias, literal), value = another value
            let holds = |v: &Val, rows: &Vec<DRow>| -> BTreeSet<String> {
                rows.iter()
                    .filter(|r| match &r.val {
                        None => val_eq(&eff, v),
                        Some(x) => val_eq(x, v),
                    })
                    .map(|r| r.id.clone())
                    .collect()
            };
            let mut queries: Vec<(&str, String, discret::verif::database::query_language::parameter::Parameters, BTreeSet<String>)> = vec![];
            queries.push(("default+filter-param", "query { Dd (f = $v) { id } }".into(), params(&[("v", eff.param())]), holds(&eff, &rows)));
            queries.push(("default+filter-alias-param", "query { Dd (x = $v) { id x: f } }".into(), params(&[("v", eff.param())]), holds(&eff, &rows)));
            if ty != Ty::Json && !undecoded {
                queries.push(("default+filter-lit", format!("query {{ Dd (f = {}) {{ id }} }}", token), params(&[]), holds(&eff, &rows)));
            }
            let other = previous.clone().unwrap_or(marker(ty, false));
            if !val_eq(&other, &eff) {
                queries.push(("default+filter-param", "query { Dd (f = $v) { id } }".into(), params(&[("v", other.param())]), holds(&other, &rows)));
            }
            for (qpos, text, p, expected) in queries {
                let r = w.read(&text, p, false, &mut ctx.vocab);
                let problem: Option<(&str, String)> = match &r {
                    Res::Ok(ok) => {
                        if !ok.changes.is_empty() {
                            Some(("other-row-touched", format!("a query changed rows {:?}", ok.changes)))
                        } else if let Some(f) = ok.foreign.first() {
                            Some(("sql-structure-changed", format!("the default value changes the statement: {}", f.chars().take(400).collect::<String>())))
                        } else {
                            match ids_of(&ok.json, "Dd") {
                                None => Some(("wrong-match-set", "result without ids".into())),
                                Some(got) if got != expected => {
                                    let missing = expected.difference(&got).count();
                                    let extra = got.difference(&expected).count();
                                    let sym = if missing > 0 && extra > 0 {
                                        "wrong-match-set(missing+extra)"
                                    } else if missing > 0 {
                                        "wrong-match-set(missing)"
                                    } else {
                                        "wrong-match-set(extra)"
                                    };
                                    let sym = if ty == Ty::Json { "wrong-match-set" } else { sym };
                                    Some((sym, format!("filter on a field with a default returns {} rows, {} holding the value are missing, {} do not hold it", got.len(), missing, extra)))
                                }
                                _ => None,
                            }
                        }
                    }
                    Res::Refused(m) => {
                        if dv.legal {
                            Some(("refused", format!("a legal value is refused: {}", m)))
                        } else {
                            None
                        }
                    }
                    other => Some(failure(&w, other, "filter on a field with a default fails")),
                };
                // the class is the one of the default value: the token is not part of these statements' text
                ctx.verdict("default", qpos, ty, 2, dv, None, problem, rp.clone());
            }
            previous = Some(eff.clone());
        }
    }
    let now = w.dump_nodes(base_rowid);
    let problem = if now != base_dump { Some(("other-row-touched", "bystander or legacy rows differ at the end of the block".to_string())) } else { None };
    ctx.verdict("default", "block-end", ty, 2, &values[0], None, problem, json!({"family":"default","type":ty.name(),"block_first_value": values[0].v.to_replay()}));
    ctx.out.transitions += if ctx.report { w.calls } else { 0 };
    Ok(())
}

// ------------------------------------------------------------------------------------------
// family "alias"
// ------------------------------------------------------------------------------------------

fn alias_domain() -> Vec<String> {
    let sym = ['a', '_', 'é', '1', 'A', '中'];
    let mut v: Vec<String> = vec![];
    for a in sym {
        v.push(a.to_string());
    }
    for a in sym {
        for b in sym {
            v.push(format!("{}{}", a, b));
        }
    }
    for a in ["aaa", "a_1", "value", "id", "rowid", "_json", "null", "true", "select", "order", "p", "n", "d", "S", "json_object", "x"] {
        v.push(a.to_string());
    }
    v
}

fn alias_block(ctx: &mut Ctx) -> Result<(), String> {
    let mut w = World::new(MODEL)?;
    let vals = ["it's", "a\"b", "plain"];
    let mut ids = vec![];
    for v in vals {
        match w.write("mutate { S { p: $v } }", params(&[("v", sparam(v))]), true, &mut ctx.vocab) {
            Res::Ok(ok) => ids.push(ok.id),
            other => return Err(format!("alias fixture write failed: {}", other.msg())),
        }
    }
    for a in alias_domain() {
        let dv = DV { v: Val::S(a.clone()), class: class_multiset(&a), legal: true };
        let rp = json!({"family": "alias", "alias": a});
        let text = format!("query {{ S (order_by(p asc)) {{ id {}: p }} }}", a);
        let r = w.read(&text, params(&[]), false, &mut ctx.vocab);
        let problem: Option<(&str, String)> = match r {
            Res::Refused(_) => {
                ctx.tally("alias", "alias", Ty::Str, "refused(name rule of the language)");
                continue;
            }
            Res::Ok(ok) => {
                if let Some(f) = ok.foreign.first() {
                    Some(("sql-structure-changed", format!("statement of unknown structure: {}", f.chars().take(300).collect::<String>())))
                } else {
                    let arr = ok.json.get("S").and_then(|x| x.as_arr()).cloned().unwrap_or_default();
                    let mut got: Vec<(String, Option<String>)> = arr
                        .iter()
                        .map(|r| (r.get("id").and_then(|x| x.as_str()).unwrap_or("").to_string(), r.get(&a).and_then(|x| x.as_str()).map(|s| s.to_string())))
                        .collect();
                    got.sort();
                    let mut want: Vec<(String, Option<String>)> = ids.iter().zip(vals.iter()).map(|(i, v)| (i.clone(), Some(v.to_string()))).collect();
                    want.sort();
                    if a == "id" {
                        None // an alias equal to a selected name: which one wins is not fixed by the statement
                    } else if got != want {
                        Some(("changed-value", format!("rows read through the alias differ: {:?}", got)))
                    } else {
                        None
                    }
                }
            }
            other => Some((sym_of(&other), format!("query with the alias fails: {}", other.msg()))),
        };
        ctx.verdict("alias", "alias", Ty::Str, 0, &dv, None, problem, rp.clone());
        // filter on the alias
        if a != "id" && a != "p" && a != "n" && a != "d" {
            let text = format!("query {{ S ({} = $v) {{ id {}: p }} }}", a, a);
            let r = w.read(&text, params(&[("v", sparam("it's"))]), false, &mut ctx.vocab);
            let problem: Option<(&str, String)> = match r {
                Res::Refused(_) => {
                    ctx.tally("alias", "alias-filter", Ty::Str, "refused(name rule of the language)");
                    continue;
                }
                Res::Ok(ok) => {
                    let got = ids_of(&ok.json, "S").unwrap_or_default();
                    let want: BTreeSet<String> = [ids[0].clone()].into_iter().collect();
                    if let Some(f) = ok.foreign.first() {
                        Some(("sql-structure-changed", format!("statement of unknown structure: {}", f.chars().take(300).collect::<String>())))
                    } else if got != want {
                        Some(("wrong-match-set", format!("filter on the alias returns {} rows instead of 1", got.len())))
                    } else {
                        None
                    }
                }
                other => Some((sym_of(&other), format!("filter on the alias fails: {}", other.msg()))),
            };
            ctx.verdict("alias", "alias-filter", Ty::Str, 0, &dv, None, problem, rp);
        }
    }
    // a string literal whose text is the name of a variable of the same query: both are values, none is the other
    let mut ab = vec![];
    for pv in ["it's", "v"] {
        match w.write("mutate { S { p: $p n: $n } }", params(&[("p", sparam(pv)), ("n", sparam("v"))]), true, &mut ctx.vocab) {
            Res::Ok(ok) => ab.push(ok.id),
            other => return Err(format!("fixture write failed: {}", other.msg())),
        }
    }
    for (var, lit_first) in [("v", true), ("v", false), ("q", true)] {
        let dv = DV { v: Val::S("v".into()), class: "plain".into(), legal: true };
        let text = if lit_first { format!("query {{ S (n = \"v\", p = ${}) {{ id }} }}", var) } else { format!("query {{ S (p = ${}, n = \"v\") {{ id }} }}", var) };
        let r = w.read(&text, params(&[(var, sparam("it's"))]), false, &mut ctx.vocab);
        let want: BTreeSet<String> = [ab[0].clone()].into_iter().collect();
        let pos = if var == "v" { "literal-equals-variable-name" } else { "literal-and-variable" };
        let problem: Option<(&str, String)> = match &r {
            Res::Ok(ok) => {
                let got = ids_of(&ok.json, "S").unwrap_or_default();
                if got != want {
                    Some(("wrong-match-set", format!("`{}` with ${} = \"it's\" returns {} rows, {} of them expected: the variable is bound to the literal's text", text, var, got.len(), got.intersection(&want).count())))
                } else {
                    None
                }
            }
            other => Some(failure(&w, other, "query fails")),
        };
        ctx.verdict("alias", pos, Ty::Str, 0, &dv, None, problem, json!({"family": "alias", "alias": "x"}));
    }
    // a bound literal followed by a variable that is used twice: every use of the variable is its own value
    let same = match w.write("mutate { S { p: $p n: $n d: $d } }", params(&[("p", sparam("same")), ("n", sparam("v")), ("d", sparam("same"))]), true, &mut ctx.vocab) {
        Res::Ok(ok) => ok.id,
        other => return Err(format!("fixture write failed: {}", other.msg())),
    };
    for (label, text) in [
        ("literal-then-variable-twice", "query { S (n = \"v\", p = $q, d = $q) { id } }"),
        ("variable-twice-then-literal", "query { S (p = $q, d = $q, n = \"v\") { id } }"),
        ("default-field-then-variable-twice", "query { S (d = $q, p = $q) { id d } }"),
    ] {
        let dv = DV { v: Val::S("same".into()), class: "plain".into(), legal: true };
        let r = w.read(text, params(&[("q", sparam("same"))]), false, &mut ctx.vocab);
        let want: BTreeSet<String> = [same.clone()].into_iter().collect();
        let problem: Option<(&str, String)> = match &r {
            Res::Ok(ok) => {
                let got = ids_of(&ok.json, "S").unwrap_or_default();
                if got != want {
                    Some(("wrong-match-set", format!("`{}` with $q = \"same\" returns {} rows, {} of them expected: a reused variable does not keep its value", text, got.len(), got.intersection(&want).count())))
                } else {
                    None
                }
            }
            other => Some(failure(&w, other, "query fails")),
        };
        ctx.verdict("alias", label, Ty::Str, 0, &dv, None, problem, json!({"family": "alias", "alias": "x"}));
    }
    ctx.out.transitions += if ctx.report { w.calls } else { 0 };
    Ok(())
}

// ------------------------------------------------------------------------------------------
// domains as blocks
// ------------------------------------------------------------------------------------------

fn sdv(s: &str) -> DV {
    DV { v: Val::S(s.to_string()), class: class_multiset(s), legal: true }
}

fn string_decoys(prefix: &str) -> Vec<Val> {
    let mut d: Vec<String> = vec![String::new()];
    for c in SIGMA {
        d.push(c.to_string());
    }
    let cs: Vec<char> = prefix.chars().collect();
    for i in 2..=cs.len() {
        d.push(cs[..i].iter().collect());
    }
    for i in 1..cs.len() {
        d.push(cs[i..].iter().collect());
    }
    for x in ["A", "É", "e", "1", "true", "null", "aa", "dflt"] {
        d.push(x.to_string());
    }
    let mut seen = BTreeSet::new();
    d.retain(|x| seen.insert(x.clone()));
    d.into_iter().map(Val::S).collect()
}

#[derive(Clone, Debug)]
enum Block {
    /// strings prefix + c for every c of SIGMA, families value and default
    StrValue(String),
    StrDefault(String),
    Value(Ty, Vec<DV>),
    Default(Ty, Vec<DV>),
    Alias,
}

fn typed_domain(ty: Ty, tier: Tier) -> Vec<DV> {
    match ty {
        Ty::Str => vec![],
        Ty::Int => int_domain(tier).into_iter().map(|i| DV { v: Val::I(i), class: int_class(i).into(), legal: true }).collect(),
        Ty::Flt => float_domain(tier).into_iter().map(|f| DV { v: Val::F(f), class: float_class(f).into(), legal: true }).collect(),
        Ty::Bool => vec![true, false].into_iter().map(|b| DV { v: Val::B(b), class: "boolean".to_string(), legal: true }).collect(),
        Ty::B64 => b64_domain(tier).into_iter().map(|(t, c)| DV { v: Val::X(t), class: c.to_string(), legal: !c.starts_with("variant") }).collect(),
        Ty::Json => json_domain(tier).into_iter().map(|(t, c)| DV { v: Val::J(t), class: c.to_string(), legal: true }).collect(),
    }
}

fn typed_decoys(ty: Ty) -> Vec<Val> {
    match ty {
        Ty::Str => vec![],
        Ty::Int => vec![Val::I(0), Val::I(1), Val::I(-1), Val::I(9007199254740992), Val::I(i64::MAX), Val::I(i64::MIN)],
        Ty::Flt => vec![Val::F(0.0), Val::F(1.0), Val::F(-1.0), Val::F(0.5), Val::F(1e300), Val::F(1e-300)],
        Ty::Bool => vec![Val::B(true), Val::B(false)],
        Ty::B64 => vec![Val::X("".into()), Val::X("AA".into()), Val::X("AQ".into()), Val::X("__8".into())],
        Ty::Json => vec![Val::J("null".into()), Val::J("1".into()), Val::J("\"1\"".into()), Val::J("[]".into()), Val::J("{}".into()), Val::J("\"\"".into())],
    }
}

fn all_blocks(tier: Tier) -> Vec<Block> {
    let maxlen = tier.pick(3, 4);
    let mut blocks = vec![Block::Alias];
    for ty in [Ty::Bool, Ty::Int, Ty::Flt, Ty::B64, Ty::Json] {
        let dom = typed_domain(ty, tier);
        let mut with_null = dom.clone();
        with_null.insert(0, DV { v: Val::Null, class: "null".into(), legal: true });
        for ch in with_null.chunks(96) {
            blocks.push(Block::Value(ty, ch.to_vec()));
        }
        for ch in dom.chunks(96) {
            blocks.push(Block::Default(ty, ch.to_vec()));
        }
    }
    // strings of length 2..maxlen, grouped by their prefix (length 0 and 1 are the calibration block)
    // (all blocks of one kind are contiguous so that the round robin over the shards balances the load)
    for plen in 1..maxlen {
        for p in strings_of_len(plen) {
            blocks.push(Block::StrValue(p));
        }
    }
    for plen in 1..maxlen {
        for p in strings_of_len(plen) {
            blocks.push(Block::StrDefault(p));
        }
    }
    blocks
}

fn run_block(ctx: &mut Ctx, b: &Block) -> Result<(), String> {
    match b {
        Block::Alias => alias_block(ctx),
        Block::Value(ty, dvs) => value_block(ctx, *ty, dvs, &typed_decoys(*ty)),
        Block::Default(ty, dvs) => default_block(ctx, *ty, dvs),
        Block::StrValue(p) => {
            let vals: Vec<DV> = SIGMA.iter().map(|c| sdv(&format!("{}{}", p, c))).collect();
            value_block(ctx, Ty::Str, &vals, &string_decoys(p))
        }
        Block::StrDefault(p) => {
            let vals: Vec<DV> = SIGMA.iter().map(|c| sdv(&format!("{}{}", p, c))).collect();
            default_block(ctx, Ty::Str, &vals)
        }
    }
}

/// warm-up with benign values only: learns the structure of every statement the operations run
fn warm_up(ctx: &mut Ctx) -> Result<(), String> {
    ctx.vocab.learning = true;
    ctx.report = false;
    ctx.calibrating = false;
    let benign: Vec<DV> = ["b", "bb c", "Zz9"].iter().map(|s| sdv(s)).collect();
    let mut with_null = benign.clone();
    with_null.push(DV { v: Val::Null, class: "null".into(), legal: true });
    value_block(ctx, Ty::Str, &with_null, &[Val::S("q".into())])?;
    default_block(ctx, Ty::Str, &benign)?;
    for ty in [Ty::Int, Ty::Flt, Ty::Bool, Ty::B64, Ty::Json] {
        let vals: Vec<DV> = match ty {
            Ty::Int => vec![Val::I(3), Val::I(-4), Val::Null],
            Ty::Flt => vec![Val::F(3.5), Val::F(-4.25), Val::Null],
            Ty::Bool => vec![Val::B(true), Val::B(false), Val::Null],
            Ty::B64 => vec![Val::X("QUJD".into()), Val::X("QQ".into()), Val::Null],
            _ => vec![Val::J("[1]".into()), Val::J("{\"z\":true}".into()), Val::Null],
        }
        .into_iter()
        .map(|v| DV { class: val_class(&v), v, legal: true })
        .collect();
        value_block(ctx, ty, &vals, &typed_decoys(ty))?;
        let nn: Vec<DV> = vals.into_iter().filter(|d| !matches!(d.v, Val::Null)).collect();
        default_block(ctx, ty, &nn)?;
    }
    // aliases: one benign alias
    {
        let mut w = World::new(MODEL)?;
        let _ = w.write("mutate { S { p: $v } }", params(&[("v", sparam("b"))]), true, &mut ctx.vocab);
        let _ = w.read("query { S (order_by(p asc)) { id zz: p } }", params(&[]), false, &mut ctx.vocab);
        let _ = w.read("query { S (zz = $v) { id zz: p } }", params(&[("v", sparam("b"))]), false, &mut ctx.vocab);
        let _ = w.read("query { S (n = \"zz\", p = $q) { id } }", params(&[("q", sparam("b"))]), false, &mut ctx.vocab);
        let _ = w.read("query { S (p = $q, n = \"zz\") { id } }", params(&[("q", sparam("b"))]), false, &mut ctx.vocab);
    }
    ctx.vocab.learning = false;
    Ok(())
}

/// strings of length <= 1 (and the extra single symbols): calibrates the single character culprits
fn calibration(ctx: &mut Ctx, report: bool) -> Result<(), String> {
    ctx.report = report;
    ctx.calibrating = true;
    let mut vals: Vec<DV> = vec![DV { v: Val::Null, class: "null".into(), legal: true }, sdv("")];
    for c in SIGMA.iter().chain(EXTRA1.iter()) {
        vals.push(sdv(&c.to_string()));
    }
    value_block(ctx, Ty::Str, &vals, &string_decoys(""))?;
    let nn: Vec<DV> = vals.into_iter().filter(|d| !matches!(d.v, Val::Null)).collect();
    default_block(ctx, Ty::Str, &nn)?;
    ctx.calibrating = false;
    ctx.report = true;
    Ok(())
}

fn silent_panics() {
    std::panic::set_hook(Box::new(|_| {}));
}

fn replay(path: &str, tier: Tier) -> i32 {
    let text = match std::fs::read_to_string(path) {
        Ok(t) => t,
        Err(e) => {
            eprintln!("machinery error: {}", e);
            return 2;
        }
    };
    let v: serde_json::Value = serde_json::from_str(&text).expect("json");
    let key = v["key"].as_str().unwrap_or("").to_string();
    let r = &v["replay"];
    let family = r["family"].as_str().unwrap_or("").to_string();
    silent_panics();
    let mut prints = vec![];
    for round in 0..2 {
        set_clock(T0);
        let mut ctx = Ctx::new(tier);
        let res: Result<(), String> = (|| {
            warm_up(&mut ctx)?;
            calibration(&mut ctx, false)?;
            ctx.report = true;
            ctx.replay_log.push(String::new());
            if family == "alias" {
                return alias_block(&mut ctx);
            }
            let ty = Ty::from_name(r["type"].as_str().unwrap_or("")).ok_or("type")?;
            let val = Val::from_replay(r.get("value").or(r.get("block_first_value")).ok_or("value")?).ok_or("value")?;
            let dv = DV { class: r["class"].as_str().map(|s| s.to_string()).unwrap_or(val_class(&val)), legal: r["legal"].as_bool().unwrap_or(true), v: val };
            let decoys = match &dv.v {
                Val::S(s) => {
                    let p: String = s.chars().take(s.chars().count().saturating_sub(1)).collect();
                    string_decoys(&p)
                }
                _ => typed_decoys(ty),
            };
            if family == "default" {
                default_block(&mut ctx, ty, &[dv])
            } else {
                value_block(&mut ctx, ty, &[dv], &decoys)
            }
        })();
        if let Err(e) = res {
            eprintln!("machinery error: {}", e);
            return 2;
        }
        let mut lines: Vec<String> = ctx.replay_log.iter().filter(|l| !l.is_empty()).cloned().collect();
        lines.sort();
        lines.dedup();
        println!("replay round {}: {} findings on this case, recorded key {}", round, lines.len(), if lines.iter().any(|l| l.starts_with(&format!("{} ::", key))) { "REPRODUCED" } else { "not reproduced" });
        for l in &lines {
            println!("  {}", l);
        }
        prints.push(lines);
    }
    if prints[0] != prints[1] {
        eprintln!("machinery error: the two replay rounds differ");
        return 2;
    }
    0
}

pub fn run(args: &Args) -> i32 {
    if let Some(p) = &args.replay {
        return replay(p, args.tier);
    }
    let start = Instant::now();
    let blocks = all_blocks(args.tier);
    if let Some((i, n)) = args.shard {
        silent_panics();
        set_clock(T0);
        let mut ctx = Ctx::new(args.tier);
        let res: Result<(), String> = (|| {
            warm_up(&mut ctx)?;
            calibration(&mut ctx, i == 0)?;
            for (bi, b) in blocks.iter().enumerate() {
                if bi % n == i {
                    run_block(&mut ctx, b)?;
                }
            }
            Ok(())
        })();
        if let Err(e) = res {
            ctx.out.machinery_errors.push(e);
        }
        if i == 0 {
            ctx.out.notes.push(format!("statement structures learnt with benign values: {}", ctx.vocab.structures.len()));
        }
        emit_shard_outcome(&ctx.out);
        return 0;
    }
    let mut out = run_sharded(args, ncpu().min(16));
    out.traces_validated = out.evaluations;
    let maxlen = args.tier.pick(3, 4);
    let meta = CheckMeta {
        prop: "C04",
        level: "model_checking",
        rule: "E-SHAPE: every value of the finite domains x every position (mutation parameter / literal forms, update of another field, filter parameter / alias / literal forms, model default of a field added by a model update (legacy row, explicit row, created row, filters), search parameter / literal, after / before parameter / literal, alias) x every scalar type x {plain, nullable, default}; real parser, mutation phases, batch writer and query builder on an in-memory database; distinct case = (position, field kind, character-class multiset or value class, outcome); non-trivial = the value contains at least one character that is not a plain letter or is not a string".into(),
        bounds: json!({
            "string_alphabet": SIGMA.iter().map(|c| format!("U+{:04X}", *c as u32)).collect::<Vec<_>>(),
            "extra_single_symbols": EXTRA1.iter().map(|c| format!("U+{:04X}", *c as u32)).collect::<Vec<_>>(),
            "max_string_length": maxlen,
            "strings": n_strings(maxlen) + EXTRA1.len(),
            "literal_forms": ["raw (only \\\" and \\\\ escaped)", "esc (every escape of the grammar used)"],
            "integers": int_domain(args.tier).len(),
            "floats": float_domain(args.tier).len(),
            "booleans": 2,
            "base64": b64_domain(args.tier).len(),
            "json": json_domain(args.tier).len(),
            "aliases": alias_domain().len(),
            "blocks": blocks.len(),
        }),
        assumptions: vec![
            "denotation of a string literal = JSON decoding of the token (the three grammars use JSON's string grammar)".into(),
            "a comparison with a null parameter has no fixed meaning and is not judged; `= null` literal means 'is null'".into(),
            "the sign of a float zero may be lost (counted in the histogram, not a finding)".into(),
            "structure of a statement = its token sequence under SQLite's lexical rules with string / numeric / boolean literals abstracted; the reference vocabulary is learnt from the same operations run with benign values".into(),
            "search: white space separates terms; the reference is the same FTS index asked for every piece quoted as one opaque phrase".into(),
            "light world: one connection, no actors; the statements are the ones the service prepares".into(),
        ],
        exhaustive_claim: true,
    };
    finish(args, &meta, &out, start)
}
