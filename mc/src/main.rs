mod common;
mod world;
mod smoke;
mod light;
mod rooms;
mod c01;
mod c02;
mod c03;
mod syncworld;
mod c04;
mod c04_dom;
mod c04_sql;
mod c04_world;
mod c05;
mod c05_qe;
mod c06;
mod c06_model;
mod c07;
mod c08;
mod c09;
mod c10;
mod c12;
mod c13;
mod c13_child;
mod c14;
mod c14_full;
mod c15;
mod c15_model;
mod c16;
mod c17;
mod c17_full;
mod c18;
mod c19;
mod c19_b;
mod c20;
mod c20_b;

fn main() {
    let args = common::parse_args();
    let code = match args.prop.as_str() {
        "smoke" => smoke::run(&args),
        "C01" => c01::run(&args),
        "C10" => c10::run(&args),
        "C07" => c07::run(&args),
        "C04" => c04::run(&args),
        "C05" => c05::run(&args),
        "C09" => c09::run(&args),
        "C13" => c13::run(&args),
        "C15" => c15::run(&args),
        "C06" => c06::run(&args),
        "C14" => c14::run(&args),
        "C17" => c17::run(&args),
        "C16" => c16::run(&args),
        "C19" => c19::run(&args),
        "C20" => c20::run(&args),
        "C18" => c18::run(&args),
        "C08" => c08::run(&args),
        "C12" => c12::run(&args),
        "C02" => c02::run(&args),
        "C03" => c03::run(&args, "C03"),
        "C11" => c03::run(&args, "C11"),
        other => {
            eprintln!("unknown property {}", other);
            2
        }
    };
    // leave without running atexit handlers: instance threads (SQLCipher/OpenSSL) may still be running,
    // and library clean-up racing with them has crashed a worker at exit
    use std::io::Write;
    let _ = std::io::stdout().flush();
    let _ = std::io::stderr().flush();
    unsafe { libc::_exit(code) }
}
