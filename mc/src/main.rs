mod common;
mod world;
mod smoke;
mod light;
mod rooms;
mod c01;
mod c02;
mod c03;
mod syncworld;
mod c07;
mod c08;
mod c10;
mod c12;
mod c18;

fn main() {
    let args = common::parse_args();
    let code = match args.prop.as_str() {
        "smoke" => smoke::run(&args),
        "C01" => c01::run(&args),
        "C10" => c10::run(&args),
        "C07" => c07::run(&args),
        "C18" => c18::run(&args),
        "C08" => c08::run(&args),
        "C12" => c12::run(&args),
        "C02" => c02::run(&args),
        "C03" => c03::run(&args, "C03"),
        "C11" => c03::run(&args, "C11"),
        other => {
            eprintln!("unknown property {}", other);
            2
        }
    };
    std::process::exit(code);
}
