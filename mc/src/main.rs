mod common;
mod world;
mod smoke;
mod light;

fn main() {
    let args = common::parse_args();
    let code = match args.prop.as_str() {
        "smoke" => smoke::run(&args),
        other => {
            eprintln!("unknown property {}", other);
            2
        }
    };
    std::process::exit(code);
}
