//! C19 part B: invitations on the real `PeerManager` (fake endpoint, real databases).
//!
//! The harness plays the `PeerConnectionService` actor loop (one message at a time): "open" is the token
//! resolution done for `NewConnection`, "handshake" is the real `initialise_connection` against the real
//! serving routine of the remote peer, "consume" is the real `PeerManager::invite_accepted` with the
//! message the handshake posted.
use crate::c19::{APP, OTHER_APP};
use crate::common::*;
use crate::world::{key_material, runtime, set_clock, small_config, FPeer, T0};
use discret::verif::database::graph_database::GraphDatabaseService;
use discret::verif::database::node::Node;
use discret::verif::database::system_entities::{AllowedPeer, Invite, OwnedInvite, Status};
use discret::verif::discret::{DiscretParams, DiscretServices};
use discret::verif::event_service::EventService;
use discret::verif::network::endpoint::{DiscretEndpoint, EndpointMessage};
use discret::verif::network::peer_manager::{PeerManager, TokenType};
use discret::verif::network::ConnectionInfo;
use discret::verif::peer_connection_service::{PeerConnectionMessage, PeerConnectionService};
use discret::verif::security::{
    base64_decode, derive_key, uid_encode, HardwareFingerprint, MeetingSecret, MeetingToken, Uid,
};
use discret::verif::signature_verification_service::SignatureVerificationService;
use discret::verif::synchronisation::peer_inbound_service::{LocalPeerService, QueryService};
use discret::verif::synchronisation::peer_outbound_service::{InboundQueryService, RemotePeerHandle};
use discret::verif::synchronisation::{Answer, Query, QueryProtocol, RemoteEvent};
use discret::verif_hooks;
use serde::{Deserialize, Serialize};
use serde_json::{json, Value};
use std::collections::{BTreeSet, HashSet};
use std::path::PathBuf;
use std::sync::atomic::{AtomicBool, AtomicUsize, Ordering};
use std::sync::Arc;
use tokio::sync::{mpsc, Mutex};

const MODEL: &str = "";
/// context string of the invitation tokens (peer_manager.rs, private constant DERIVE_STRING)
const DERIVE_STRING: &str = "P";

#[derive(Clone, Copy, Debug, PartialEq, Eq, Hash, Serialize, Deserialize)]
pub enum Side {
    /// the local peer created the invitation (token type OwnedInvite); remotes are invitees
    Inviter,
    /// the local peer accepted the invitation (token type Invite); remote 0 is the inviter, the others are strangers who know the token
    Invitee,
}

#[derive(Clone, Copy, Debug, PartialEq, Eq, Hash, Serialize, Deserialize)]
pub enum Step {
    Open,
    Handshake,
    Consume,
}

#[derive(Clone, Debug, PartialEq, Eq, Hash, Serialize, Deserialize)]
pub struct Sched {
    pub side: Side,
    /// remote identity index used by each connection
    pub keys: Vec<u8>,
    pub order: Vec<(u8, Step)>,
}

#[derive(Clone, Debug, Serialize, Deserialize)]
pub enum JobB {
    Sched(usize, Sched),
    /// consecutive schedules run on one runtime with shared remote peers (built by `run_jobs_b`)
    SchedGroup(Vec<(usize, Sched)>),
    /// (chunk index, [(offset, xor mask)])
    Corrupt(usize, Vec<(usize, u8)>),
    /// truncations, foreign application, relabelled invitation
    Misc,
}

fn interleavings(n: usize) -> Vec<Vec<(u8, Step)>> {
    fn rec(pos: &mut Vec<usize>, cur: &mut Vec<(u8, Step)>, out: &mut Vec<Vec<(u8, Step)>>) {
        if pos.iter().all(|&p| p == 3) {
            out.push(cur.clone());
            return;
        }
        for c in 0..pos.len() {
            if pos[c] < 3 {
                let s = [Step::Open, Step::Handshake, Step::Consume][pos[c]];
                pos[c] += 1;
                cur.push((c as u8, s));
                rec(pos, cur, out);
                cur.pop();
                pos[c] -= 1;
            }
        }
    }
    let mut out = vec![];
    rec(&mut vec![0; n], &mut vec![], &mut out);
    out
}

pub fn schedules(tier: Tier) -> Vec<Sched> {
    let mut v = vec![];
    let two = interleavings(2);
    for side in [Side::Inviter, Side::Invitee] {
        for keys in [vec![0u8, 0], vec![0, 1]] {
            for o in &two {
                v.push(Sched { side, keys: keys.clone(), order: o.clone() });
            }
        }
    }
    if tier == Tier::Thorough {
        let three = interleavings(3);
        // Identity assignments up to symmetry, each with its classes of interchangeable connections:
        // connections of one identity are interchangeable; on the inviter side the invitees are
        // interchangeable identities, on the invitee side the strangers are (identity 0 is the inviter).
        // Of the interleavings that differ only by a permutation inside a class, the one whose opens are
        // in increasing connection order is kept (the observation is invariant under the renaming).
        let pats: Vec<(Side, Vec<u8>, Vec<Vec<u8>>)> = vec![
            (Side::Inviter, vec![0, 0, 1], vec![vec![0, 1]]),
            (Side::Inviter, vec![0, 1, 2], vec![vec![0, 1, 2]]),
            (Side::Invitee, vec![0, 0, 1], vec![vec![0, 1]]),
            (Side::Invitee, vec![0, 1, 1], vec![vec![1, 2]]),
            (Side::Invitee, vec![0, 1, 2], vec![vec![1, 2]]),
        ];
        for (side, keys, classes) in pats {
            for o in &three {
                let open_pos = |c: u8| o.iter().position(|(x, st)| *x == c && *st == Step::Open).unwrap();
                let canonical = classes.iter().all(|cl| cl.windows(2).all(|w| open_pos(w[0]) < open_pos(w[1])));
                if canonical {
                    v.push(Sched { side, keys: keys.clone(), order: o.clone() });
                }
            }
        }
    }
    v
}

/// length of the serialised invitation for the harness application name: id 16, len 8, name, len 8, signature 64
pub fn invite_len() -> usize {
    16 + 8 + APP.len() + 8 + 64
}
pub fn field_of(offset: usize) -> &'static str {
    let n = APP.len();
    if offset < 16 {
        "invite_id"
    } else if offset < 24 {
        "application_len"
    } else if offset < 24 + n {
        "application"
    } else if offset < 32 + n {
        "signature_len"
    } else {
        "signature"
    }
}

fn corruptions(tier: Tier) -> Vec<(usize, u8)> {
    let mut v = vec![];
    for off in 0..invite_len() {
        match tier {
            Tier::Quick => {
                for b in 0..8 {
                    v.push((off, 1u8 << b));
                }
            }
            Tier::Thorough => {
                for x in 1..=255u8 {
                    v.push((off, x));
                }
            }
        }
    }
    v
}

pub fn jobs_b(tier: Tier) -> Vec<JobB> {
    let mut v = vec![];
    for (i, s) in schedules(tier).into_iter().enumerate() {
        v.push(JobB::Sched(i, s));
    }
    let chunk = tier.pick(54, 255);
    for (i, c) in corruptions(tier).chunks(chunk).enumerate() {
        v.push(JobB::Corrupt(i, c.to_vec()));
    }
    v.push(JobB::Misc);
    v
}

pub fn bounds_b(tier: Tier) -> Value {
    json!({
        "schedules": schedules(tier).len(),
        "connections_per_invitation": tier.pick("2", "2 and 3"),
        "steps_per_connection": ["open (token resolution)", "handshake", "consume (invite_accepted)"],
        "remote_key_patterns": tier.pick("same, different", "same, different, and 5 identity assignments of 3 connections, interleavings reduced by the symmetry of interchangeable connections (1680 -> 840 or 280 per assignment)"),
        "invitation_bytes": invite_len(),
        "corruptions": corruptions(tier).len(),
        "corruption_values_per_byte": tier.pick("8 single bit flips", "all 255 other values"),
        "truncations": invite_len(),
    })
}

// ------------------------------------------------------------------------------------------------
// a peer with a real database and a real PeerManager over a fake endpoint
// ------------------------------------------------------------------------------------------------

pub struct BPeer {
    pub fp: FPeer,
    pub rx: mpsc::Receiver<PeerConnectionMessage>,
    pub params: DiscretParams,
    pub meeting_key: [u8; 32],
    pub pm: PeerManager,
    _ep_rx: Vec<mpsc::Receiver<EndpointMessage>>,
}

static COUNTER: AtomicUsize = AtomicUsize::new(0);

fn fake_endpoint() -> (DiscretEndpoint, mpsc::Receiver<EndpointMessage>) {
    let (sender, rx) = mpsc::channel::<EndpointMessage>(64);
    (
        DiscretEndpoint { id: [0xE0; 16], sender, ipv4_port: 0, ipv4_cert_hash: [0u8; 32] },
        rx,
    )
}

impl BPeer {
    pub async fn start(name: &str, seed: u8, app_key: &str, root: &PathBuf) -> Result<BPeer, String> {
        let n = COUNTER.fetch_add(1, Ordering::SeqCst);
        let dir = root.join(format!("{}-{}", name, n));
        std::fs::create_dir_all(&dir).map_err(|e| e.to_string())?;
        let config = small_config();
        let km = key_material(seed);
        // as Discret::new does
        let meeting_key = derive_key(&format!("{}{}", "MEETING_SECRET", app_key), &km);
        let meeting_secret = MeetingSecret::new(meeting_key);
        let pubk = *meeting_secret.public_key().as_bytes();
        let events = EventService::new();
        let (db, verifying_key, private_room) =
            GraphDatabaseService::start(app_key, MODEL, &km, &pubk, dir.clone(), &config, events.clone())
                .await
                .map_err(|e| format!("start {}: {}", name, e))?;
        let sig = SignatureVerificationService::start(1);
        let services = DiscretServices {
            events: events.clone(),
            database: db.clone(),
            signature_verification: sig,
        };
        let (sender, rx) = mpsc::channel::<PeerConnectionMessage>(64);
        let fp = FPeer {
            name: name.to_string(),
            seed,
            app_key: app_key.to_string(),
            dir,
            db,
            verifying_key: verifying_key.clone(),
            private_room,
            events,
            services: services.clone(),
            peer_service: PeerConnectionService { sender },
            peer_msgs: Arc::new(Mutex::new(Vec::new())),
            config: config.clone(),
        };
        fp.barrier().await;
        let params = DiscretParams {
            app_key: app_key.to_string(),
            verifying_key,
            private_room_id: private_room,
            hardware_fingerprint: HardwareFingerprint { id: [7u8; 16], name: "mc".to_string() },
            configuration: config,
        };
        let (ep, ep_rx) = fake_endpoint();
        let pm = PeerManager::new(&params, &services, ep, None, meeting_secret)
            .await
            .map_err(|e| format!("PeerManager::new {}: {}", name, e))?;
        Ok(BPeer { fp, rx, params, meeting_key, pm, _ep_rx: vec![ep_rx] })
    }

    /// a new PeerManager over the same database: what a restart of the application reloads
    pub async fn reload_manager(&mut self) -> Result<(), String> {
        self.fp.barrier().await;
        let (ep, ep_rx) = fake_endpoint();
        self.pm = PeerManager::new(
            &self.params,
            &self.fp.services,
            ep,
            None,
            MeetingSecret::new(self.meeting_key),
        )
        .await
        .map_err(|e| format!("PeerManager::new: {}", e))?;
        self._ep_rx.push(ep_rx);
        Ok(())
    }

    pub fn token_for(&self, other_meeting_key: &[u8; 32]) -> MeetingToken {
        MeetingSecret::new(self.meeting_key).token(&MeetingSecret::new(*other_meeting_key).public_key())
    }

    /// verifying keys of the enabled allowed peers stored in the database, the local identity excluded
    pub async fn allowed_in_db(&self) -> Result<BTreeSet<Vec<u8>>, String> {
        let l = AllowedPeer::get(uid_encode(&self.fp.private_room), Status::Enabled, &self.fp.db)
            .await
            .map_err(|e| e.to_string())?;
        let mut s = BTreeSet::new();
        for a in l {
            let k = base64_decode(a.peer.verifying_key.as_bytes()).map_err(|e| e.to_string())?;
            if k != self.fp.verifying_key {
                s.insert(k);
            }
        }
        Ok(s)
    }

    fn drain(&mut self) -> Vec<PeerConnectionMessage> {
        let mut v = vec![];
        while let Ok(m) = self.rx.try_recv() {
            v.push(m);
        }
        v
    }
}

pub fn invite_token(id: &Uid) -> MeetingToken {
    MeetingSecret::derive_token(DERIVE_STRING, id)
}

pub struct HsResult {
    pub ret: String,
    pub accepted: Option<(TokenType, Node)>,
    pub connected: Option<Vec<u8>>,
    pub bound: Vec<u8>,
    /// the local serving routine answered a RoomList query of this connection after the handshake
    pub served: bool,
}

/// the real `initialise_connection` of `local` with token type `tt`, the remote side being the real
/// serving routine over the database of the remote peer
pub async fn handshake(
    local: &mut BPeer,
    tt: TokenType,
    remote_db: &GraphDatabaseService,
    remote_vk: &Vec<u8>,
    conn_id: Uid,
) -> HsResult {
    let (tx_q, mut rx_q) = mpsc::channel::<QueryProtocol>(16);
    let (tx_a, rx_a) = mpsc::channel::<Answer>(16);
    let query_service = QueryService::start(tx_q, rx_a);
    let mut handle = RemotePeerHandle {
        allowed_room: HashSet::new(),
        db: remote_db.clone(),
        verifying_key: remote_vk.clone(),
        reply: tx_a,
    };
    let their_view_of_us = Arc::new(Mutex::new(Vec::new()));
    let their_ready = Arc::new(AtomicBool::new(true));
    let fingerprint = HardwareFingerprint { id: [8u8; 16], name: "remote".to_string() };
    let pump = tokio::spawn(async move {
        while let Some(msg) = rx_q.recv().await {
            let r = InboundQueryService::process_inbound(
                msg,
                &mut handle,
                &their_view_of_us,
                &their_ready,
                &fingerprint,
            )
            .await;
            if r.is_err() {
                break;
            }
        }
    });
    let (ev_tx, mut ev_rx) = mpsc::channel::<RemoteEvent>(8);
    let remote_key: Arc<Mutex<Vec<u8>>> = Arc::new(Mutex::new(Vec::new()));
    let conn_ready = Arc::new(AtomicBool::new(true));
    let info = ConnectionInfo {
        endpoint_id: [0xE0; 16],
        remote_id: [0xE1; 16],
        conn_id,
        meeting_token: [0u8; 7],
        peer_verifying_key: remote_vk.clone(),
    };
    let local_key = local.fp.verifying_key.clone();
    let (rk, cr, qs, ps, ev) = (
        remote_key.clone(),
        conn_ready.clone(),
        query_service.clone(),
        local.fp.peer_service.clone(),
        ev_tx.clone(),
    );
    let task = tokio::spawn(async move {
        LocalPeerService::initialise_connection(&info, &local_key, tt, &cr, &qs, &rk, &ps, &ev).await
    });
    let ret = match task.await {
        Ok(Ok(true)) => "ok_true",
        Ok(Ok(false)) => "ok_false",
        Ok(Err(_)) => "err",
        Err(_) => "panic",
    }
    .to_string();
    drop(query_service);
    pump.abort();
    let _ = pump.await;
    while ev_rx.try_recv().is_ok() {}
    let mut accepted = None;
    let mut connected = None;
    for m in local.drain() {
        match m {
            PeerConnectionMessage::InviteAccepted(t, n) => accepted = Some((t, n)),
            PeerConnectionMessage::PeerConnected(k, _) => connected = Some(k),
            _ => {}
        }
    }
    let bound = remote_key.lock().await.clone();
    // "rows served afterwards": the real serving routine of the local peer, with this connection's
    // identity cell and readiness flag, is asked for the room list
    let (tx_s, mut rx_s) = mpsc::channel::<Answer>(16);
    let mut serving = RemotePeerHandle {
        allowed_room: HashSet::new(),
        db: local.fp.db.clone(),
        verifying_key: local.fp.verifying_key.clone(),
        reply: tx_s,
    };
    let fp = HardwareFingerprint { id: [7u8; 16], name: "mc".to_string() };
    let _ = InboundQueryService::process_inbound(
        QueryProtocol { id: 1, query: Query::RoomList },
        &mut serving,
        &remote_key,
        &conn_ready,
        &fp,
    )
    .await;
    let served = rx_s.try_recv().is_ok();
    HsResult { ret, accepted, connected, bound, served }
}

// ------------------------------------------------------------------------------------------------
// schedules
// ------------------------------------------------------------------------------------------------

#[derive(Clone, Debug, PartialEq, Eq, Hash, Serialize, Deserialize)]
pub struct ObsB {
    pub steps: Vec<String>,
    /// remote identities present as enabled allowed peers in the local database
    pub granted_db: Vec<String>,
    /// remote identities the manager resolves as allowed peers
    pub granted_pm: Vec<String>,
    pub consumed: usize,
    pub resolves_after: bool,
    pub resolves_after_restart: bool,
    pub invite_rows_left: usize,
}

/// what a schedule needs of a remote peer: its identity and its database (served by the real routine)
#[derive(Clone)]
pub struct RemoteRef {
    pub vk: Vec<u8>,
    pub db: GraphDatabaseService,
    pub meeting_key: [u8; 32],
}
impl RemoteRef {
    fn of(p: &BPeer) -> Self {
        RemoteRef { vk: p.fp.verifying_key.clone(), db: p.fp.db.clone(), meeting_key: p.meeting_key }
    }
}

/// Remote peers shared by the schedules of one group: they only answer ProveIdentity from their
/// database (and, for the inviter, create one fresh invitation per schedule), so sharing them does not
/// couple the schedules. The local peer, whose state the schedule changes, is always fresh.
pub struct Pool {
    invitees: Vec<BPeer>,
    inviter: Option<BPeer>,
    strangers: Vec<BPeer>,
}
impl Pool {
    pub fn new() -> Self {
        Pool { invitees: vec![], inviter: None, strangers: vec![] }
    }
}

struct World {
    local: BPeer,
    remotes: Vec<RemoteRef>,
    invite: Invite,
}

async fn build_world(side: Side, n_remote: usize, root: &PathBuf, pool: &mut Pool) -> Result<World, String> {
    match side {
        Side::Inviter => {
            let mut local = BPeer::start("inviter", 1, APP, root).await?;
            while pool.invitees.len() < n_remote {
                let i = pool.invitees.len();
                pool.invitees.push(BPeer::start(&format!("invitee{}", i), 10 + i as u8, APP, root).await?);
            }
            let remotes = pool.invitees[0..n_remote].iter().map(RemoteRef::of).collect();
            let bytes = local.pm.create_invite(None).await.map_err(|e| format!("create_invite: {}", e))?;
            local.fp.barrier().await;
            let invite: Invite = bincode::deserialize(&bytes).map_err(|e| e.to_string())?;
            Ok(World { local, remotes, invite })
        }
        Side::Invitee => {
            if pool.inviter.is_none() {
                pool.inviter = Some(BPeer::start("inviter", 1, APP, root).await?);
            }
            let inviter = pool.inviter.as_mut().unwrap();
            let bytes = inviter.pm.create_invite(None).await.map_err(|e| format!("create_invite: {}", e))?;
            inviter.fp.barrier().await;
            let invite: Invite = bincode::deserialize(&bytes).map_err(|e| e.to_string())?;
            let mut local = BPeer::start("invitee", 10, APP, root).await?;
            local.pm.accept_invite(&bytes).await.map_err(|e| format!("accept_invite: {}", e))?;
            local.fp.barrier().await;
            let mut remotes = vec![RemoteRef::of(inviter)];
            while pool.strangers.len() + 1 < n_remote {
                let i = pool.strangers.len() + 1;
                pool.strangers.push(BPeer::start(&format!("stranger{}", i), 20 + i as u8, APP, root).await?);
            }
            remotes.extend(pool.strangers[0..n_remote - 1].iter().map(RemoteRef::of));
            Ok(World { local, remotes, invite })
        }
    }
}

fn remote_name(side: Side, i: usize) -> String {
    match side {
        Side::Inviter => format!("invitee{}", i),
        Side::Invitee => {
            if i == 0 {
                "inviter".to_string()
            } else {
                format!("stranger{}", i)
            }
        }
    }
}

pub async fn exec_sched(s: &Sched, root: &PathBuf, pool: &mut Pool, transitions: &mut u64) -> Result<ObsB, String> {
    let n_remote = *s.keys.iter().max().unwrap() as usize + 1;
    let mut w = build_world(s.side, n_remote, root, pool).await?;
    let token = invite_token(&w.invite.invite_id);
    let n = s.keys.len();
    let mut tts: Vec<Option<TokenType>> = vec![None; n];
    let mut pending: Vec<Option<(TokenType, Node)>> = vec![None; n];
    let mut steps = vec![];
    let mut consumed = 0usize;
    for (c, step) in &s.order {
        let c = *c as usize;
        let r = s.keys[c] as usize;
        *transitions += 1;
        match step {
            Step::Open => {
                let vk = w.remotes[r].vk.clone();
                match w.local.pm.get_token_type(&token, &vk) {
                    Ok(tt) => {
                        let kind = match &tt {
                            TokenType::AllowedPeer(_) => "allowed_peer",
                            TokenType::OwnedInvite(_) => "owned_invite",
                            TokenType::Invite(_) => "invite",
                        };
                        steps.push(format!("open{}:{}{}", c, kind, if consumed > 0 { ":after_consumption" } else { "" }));
                        tts[c] = Some(tt);
                    }
                    Err(_) => steps.push(format!("open{}:unresolved", c)),
                }
            }
            Step::Handshake => match tts[c].clone() {
                None => steps.push(format!("handshake{}:no_connection", c)),
                Some(tt) => {
                    let db = w.remotes[r].db.clone();
                    let vk = w.remotes[r].vk.clone();
                    let mut conn_id = [0xC0u8; 16];
                    conn_id[15] = c as u8;
                    let h = handshake(&mut w.local, tt, &db, &vk, conn_id).await;
                    let bound = if h.bound.is_empty() {
                        "empty"
                    } else if h.bound == vk {
                        "remote"
                    } else {
                        "other"
                    };
                    steps.push(format!(
                        "handshake{}:{}:bound={}:{}{}:{}",
                        c,
                        h.ret,
                        bound,
                        if h.accepted.is_some() { "invite_accepted" } else { "-" },
                        if h.connected.is_some() { "+connected" } else { "" },
                        if h.served { "served" } else { "not_served" }
                    ));
                    pending[c] = h.accepted;
                }
            },
            Step::Consume => match pending[c].take() {
                None => steps.push(format!("consume{}:nothing", c)),
                Some((tt, node)) => {
                    let r = w.local.pm.invite_accepted(tt, node).await;
                    w.local.fp.barrier().await;
                    if r.is_ok() {
                        consumed += 1;
                    }
                    steps.push(format!("consume{}:{}", c, if r.is_ok() { "ok" } else { "err" }));
                }
            },
        }
    }
    // what the invitation granted
    let in_db = w.local.allowed_in_db().await?;
    let mut granted_db = vec![];
    let mut granted_pm = vec![];
    for (i, r) in w.remotes.iter().enumerate() {
        if in_db.contains(&r.vk) {
            granted_db.push(remote_name(s.side, i));
        }
        let t = w.local.token_for(&r.meeting_key);
        if let Ok(TokenType::AllowedPeer(_)) = w.local.pm.get_token_type(&t, &r.vk) {
            granted_pm.push(remote_name(s.side, i));
        }
    }
    let unknown = in_db
        .iter()
        .filter(|k| !w.remotes.iter().any(|r| &r.vk == *k))
        .count();
    for _ in 0..unknown {
        granted_db.push("unknown".to_string());
    }
    let probe_key = vec![0u8; 33];
    let resolves_after = w.local.pm.get_token_type(&token, &probe_key).is_ok();
    let room = uid_encode(&w.local.fp.private_room);
    let invite_rows_left = match s.side {
        Side::Inviter => OwnedInvite::list_valid(room, &w.local.fp.db).await.map_err(|e| e.to_string())?.len(),
        Side::Invitee => Invite::list(room, &w.local.fp.db).await.map_err(|e| e.to_string())?.len(),
    };
    w.local.reload_manager().await?;
    let resolves_after_restart = w.local.pm.get_token_type(&token, &probe_key).is_ok();
    Ok(ObsB {
        steps,
        granted_db,
        granted_pm,
        consumed,
        resolves_after,
        resolves_after_restart,
        invite_rows_left,
    })
}

pub fn sched_class(s: &Sched) -> &'static str {
    // race: every connection is opened before any consumption step; sequential: some connection opens later
    let first_consume = s.order.iter().position(|(_, st)| *st == Step::Consume).unwrap();
    let last_open = s.order.iter().rposition(|(_, st)| *st == Step::Open).unwrap();
    if last_open < first_consume {
        "race"
    } else {
        "sequential"
    }
}

pub fn judge_sched(s: &Sched, o: &ObsB) -> Vec<(String, String)> {
    let side = format!("{:?}", s.side).to_lowercase();
    let class = sched_class(s);
    let mut v = vec![];
    let mut granted: BTreeSet<&String> = o.granted_db.iter().collect();
    granted.extend(o.granted_pm.iter());
    let opened_after = o.steps.iter().any(|st| st.ends_with(":after_consumption"));
    if granted.len() > 1 && !opened_after {
        // every connection resolved the token before the first consumption: the race of the design
        v.push((
            format!("B/{}/race/two_keys_granted", side),
            format!("one invitation made {:?} allowed peers although no connection was opened after its consumption (schedule class {}: {:?})", granted, class, o.steps),
        ));
    }
    for st in &o.steps {
        // a connection whose handshake failed is bound to nobody and served nothing
        if st.starts_with("handshake") && !st.ends_with(":no_connection") && !st.contains(":ok_true:") && (st.ends_with(":served") || !st.contains(":bound=empty:") || st.contains("invite_accepted") || st.contains("+connected")) {
            v.push((format!("B/{}/trusted_after_failed_handshake", side), format!("{} in {:?}", st, o.steps)));
        }
    }
    if s.side == Side::Invitee && granted.iter().any(|g| g.starts_with("stranger")) {
        v.push((
            format!("B/{}/stranger_granted", side),
            format!("a key that did not sign the invitation was granted: {:?}", o.steps),
        ));
    }
    if granted.iter().any(|g| *g == "unknown") {
        v.push((format!("B/{}/unknown_key_granted", side), format!("{:?}", o.steps)));
    }
    if o.consumed > 0 && (o.resolves_after || opened_after) {
        v.push((
            format!("B/{}/token_resolves_after_consumption", side),
            format!(
                "the invitation token still resolves to the invitation after invite_accepted succeeded (probe after the schedule: {}, a connection opened with it after consumption: {}, identities granted in the end: {:?})",
                o.resolves_after, opened_after, granted
            ),
        ));
    }
    if o.consumed > 0 && o.resolves_after_restart {
        v.push((
            format!("B/{}/token_resolves_after_restart", side),
            "a PeerManager rebuilt from the database still resolves the consumed invitation".to_string(),
        ));
    }
    if o.consumed > 0 && o.invite_rows_left > 0 {
        v.push((
            format!("B/{}/invite_row_left", side),
            format!("{} invitation rows left in the database after consumption", o.invite_rows_left),
        ));
    }
    // completeness (vacuity guard of the schedule): the invitation can be used by a legitimate user
    // (any invitee on the inviter side, the inviter on the invitee side)
    let used = match s.side {
        Side::Inviter => !granted.is_empty(),
        Side::Invitee => granted.iter().any(|g| *g == "inviter"),
    };
    if o.consumed == 0 || !used {
        v.push((
            format!("B/{}/invite_unusable", side),
            format!("the invitation was never consumed by a legitimate user: {:?}", o.steps),
        ));
    }
    v
}

// ------------------------------------------------------------------------------------------------
// corrupted, truncated and foreign invitations (invitee side)
// ------------------------------------------------------------------------------------------------

struct CorruptWorld {
    inviter: BPeer,
    local: BPeer,
    bytes: Vec<u8>,
}

async fn corrupt_world(root: &PathBuf, local_app: &str) -> Result<CorruptWorld, String> {
    let mut inviter = BPeer::start("inviter", 1, APP, root).await?;
    let bytes = inviter.pm.create_invite(None).await.map_err(|e| format!("create_invite: {}", e))?;
    inviter.fp.barrier().await;
    if bytes.len() != invite_len() {
        return Err(format!("unexpected invitation length {} (expected {})", bytes.len(), invite_len()));
    }
    let local = BPeer::start("invitee", 10, local_app, root).await?;
    Ok(CorruptWorld { inviter, local, bytes })
}

/// outcome label of presenting `bytes` to the invitee, violations pushed to `viol`
async fn present(
    w: &mut CorruptWorld,
    bytes: &[u8],
    class: &str,
    legitimate: bool,
    transitions: &mut u64,
    viol: &mut Vec<(String, String)>,
) -> Result<String, String> {
    let room = uid_encode(&w.local.fp.private_room);
    let rows_before = Invite::list(room.clone(), &w.local.fp.db).await.map_err(|e| e.to_string())?.len();
    let allowed_before = w.local.allowed_in_db().await?;
    *transitions += 1;
    let r = w.local.pm.accept_invite(bytes).await;
    w.local.fp.barrier().await;
    let rows_after = Invite::list(room.clone(), &w.local.fp.db).await.map_err(|e| e.to_string())?.len();
    if r.is_err() {
        if rows_after != rows_before || w.local.allowed_in_db().await? != allowed_before {
            viol.push((
                format!("B/{}/refused_with_effect", class),
                "accept_invite returned an error but the database changed".to_string(),
            ));
            return Ok("refused_with_effect".to_string());
        }
        if legitimate {
            viol.push((format!("B/{}/legitimate_refused", class), "the unmodified invitation was refused".to_string()));
        }
        return Ok("refused_at_accept".to_string());
    }
    // accepted: the invitee cannot check the signature before it knows the inviter's key; it must not be consumable
    let parsed: Invite = match bincode::deserialize(bytes) {
        Ok(i) => i,
        Err(_) => {
            viol.push((format!("B/{}/accepted_unparsable", class), "accept_invite accepted bytes that do not decode".to_string()));
            return Ok("accepted_unparsable".to_string());
        }
    };
    let token = invite_token(&parsed.invite_id);
    let vk = w.inviter.fp.verifying_key.clone();
    let label;
    match w.local.pm.get_token_type(&token, &vk) {
        Err(_) => label = "accepted_but_unresolved".to_string(),
        Ok(tt) => {
            let db = w.inviter.fp.db.clone();
            *transitions += 1;
            let h = handshake(&mut w.local, tt, &db, &vk, [0xC5; 16]).await;
            let trusted = h.ret == "ok_true" || h.accepted.is_some() || h.connected.is_some() || !h.bound.is_empty() || h.served;
            if let Some((tt, node)) = h.accepted {
                *transitions += 1;
                let _ = w.local.pm.invite_accepted(tt, node).await;
                w.local.fp.barrier().await;
            }
            let granted = w.local.allowed_in_db().await? != allowed_before;
            if legitimate {
                if !(trusted && granted) {
                    viol.push((
                        format!("B/{}/legitimate_unusable", class),
                        format!("the unmodified invitation could not be consumed: handshake {} granted {}", h.ret, granted),
                    ));
                }
                label = format!("legitimate:{}:granted={}", h.ret, granted);
            } else {
                if trusted || granted {
                    viol.push((
                        format!("B/{}/consumable", class),
                        format!("a modified invitation was honoured: handshake {} granted {}", h.ret, granted),
                    ));
                }
                label = format!("accepted_unconsumable:{}", h.ret);
            }
        }
    }
    // reset: remove the stored invitation and rebuild the manager from the database
    Invite::delete(room.clone(), parsed.invite_id, &w.local.fp.db).await.map_err(|e| e.to_string())?;
    w.local.reload_manager().await?;
    Ok(label)
}

// ------------------------------------------------------------------------------------------------
// drivers
// ------------------------------------------------------------------------------------------------

fn sched_shape(s: &Sched) -> String {
    format!(
        "{:?}/keys={:?}/{}",
        s.side,
        s.keys,
        s.order
            .iter()
            .map(|(c, st)| format!(
                "{}{}",
                match st {
                    Step::Open => "o",
                    Step::Handshake => "h",
                    Step::Consume => "c",
                },
                c
            ))
            .collect::<Vec<_>>()
            .join(" ")
    )
}

pub fn run_jobs_b(jobs: &[JobB], out: &mut Outcome) {
    let root = scratch_root();
    let _g = ScratchGuard(root.clone());
    // group consecutive schedules: the local peer of each schedule is fresh, the remote peers are shared
    const GROUP: usize = 24;
    let mut grouped: Vec<JobB> = vec![];
    for j in jobs {
        match (j, grouped.last_mut()) {
            (JobB::Sched(i, s), Some(JobB::SchedGroup(g))) if g.len() < GROUP => g.push((*i, s.clone())),
            (JobB::Sched(i, s), _) => grouped.push(JobB::SchedGroup(vec![(*i, s.clone())])),
            (other, _) => grouped.push(other.clone()),
        }
    }
    for j in &grouped {
        // one runtime per job: dropping it cancels every task of the job's peers, which closes their
        // channels and lets their database / verification OS threads exit (otherwise they pile up)
        let rt = runtime();
        let res: Result<(), String> = rt.block_on(async {
            set_clock(T0);
            match j {
                JobB::Sched(..) => unreachable!(),
                JobB::SchedGroup(list) => {
                  let mut pool = Pool::new();
                  for (idx, s) in list {
                    verif_hooks::set_uid_namespace(1000 + *idx as u64);
                    let mut tr = 0;
                    let o = exec_sched(s, &root, &mut pool, &mut tr).await?;
                    out.transitions += tr;
                    out.evaluations += 1;
                    let viols = judge_sched(s, &o);
                    let same = s.keys.iter().all(|k| *k == s.keys[0]);
                    out.count(&format!(
                        "B:sched:{:?}:{}:{}:granted={}:{}",
                        s.side,
                        if same { "same_key" } else { "different_keys" },
                        sched_class(s),
                        o.granted_db.len().max(o.granted_pm.len()),
                        if viols.is_empty() { "ok" } else { "violation" }
                    ));
                    out.state(&("B", sched_shape(s), &o));
                    out.nontrivial(&("B", s.side, sched_class(s), same, &o.granted_db, o.consumed, o.resolves_after));
                    if idx % 37 == 0 {
                        out.sample(json!({"part":"B","schedule":sched_shape(s),"observed":o}));
                    }
                    for (key, what) in viols {
                        out.violation(key, format!("{} [{}]", what, sched_shape(s)), json!({"part":"B","kind":"sched","sched":s}));
                    }
                  }
                }
                JobB::Corrupt(idx, cases) => {
                    verif_hooks::set_uid_namespace(500_000 + *idx as u64);
                    let mut w = corrupt_world(&root, APP).await?;
                    for (off, x) in cases {
                        let mut b = w.bytes.clone();
                        b[*off] ^= x;
                        let mut viols = vec![];
                        let mut tr = 0;
                        let class = format!("corrupt/{}", field_of(*off));
                        let label = present(&mut w, &b, &class, false, &mut tr, &mut viols).await?;
                        out.transitions += tr;
                        out.evaluations += 1;
                        out.count(&format!("B:corrupt:{}:{}", field_of(*off), label));
                        out.state(&("Bc", off, x, &label));
                        out.nontrivial(&("Bc", field_of(*off), &label));
                        for (key, what) in viols {
                            out.violation(key, what, json!({"part":"B","kind":"corrupt","offset":off,"xor":x}));
                        }
                    }
                    // positive control on the same instances: the unmodified bytes are honoured
                    let mut viols = vec![];
                    let mut tr = 0;
                    let bytes = w.bytes.clone();
                    let label = present(&mut w, &bytes, "control", true, &mut tr, &mut viols).await?;
                    out.transitions += tr;
                    out.evaluations += 1;
                    out.count(&format!("B:control:{}", label));
                    out.nontrivial(&("Bc", "control", &label));
                    for (key, what) in viols {
                        out.violation(key, what, json!({"part":"B","kind":"control"}));
                    }
                }
                JobB::Misc => {
                    verif_hooks::set_uid_namespace(900_000);
                    let mut w = corrupt_world(&root, APP).await?;
                    for len in 0..w.bytes.len() {
                        let b = w.bytes[0..len].to_vec();
                        let mut viols = vec![];
                        let mut tr = 0;
                        let label = present(&mut w, &b, "truncated", false, &mut tr, &mut viols).await?;
                        out.transitions += tr;
                        out.evaluations += 1;
                        out.count(&format!("B:truncated:{}", label));
                        out.state(&("Bt", len, &label));
                        out.nontrivial(&("Bt", &label));
                        for (key, what) in viols {
                            out.violation(key, what, json!({"part":"B","kind":"truncate","len":len}));
                        }
                    }
                    // relabelled: the application name rewritten to the name of the accepting application
                    let mut w2 = corrupt_world(&root, OTHER_APP).await?;
                    for (kind, bytes) in [
                        ("foreign_application", w2.bytes.clone()),
                        ("relabelled_application", {
                            let mut inv: Invite = bincode::deserialize(&w2.bytes).map_err(|e| e.to_string())?;
                            inv.application = OTHER_APP.to_string();
                            bincode::serialize(&inv).map_err(|e| e.to_string())?
                        }),
                    ] {
                        let mut viols = vec![];
                        let mut tr = 0;
                        let label = present(&mut w2, &bytes, kind, false, &mut tr, &mut viols).await?;
                        out.transitions += tr;
                        out.evaluations += 1;
                        out.count(&format!("B:{}:{}", kind, label));
                        out.state(&("Bf", kind, &label));
                        out.nontrivial(&("Bf", kind, &label));
                        for (key, what) in viols {
                            out.violation(key, what, json!({"part":"B","kind":kind}));
                        }
                    }
                }
            }
            Ok(())
        });
        drop(rt);
        // the job's database folders are not needed any more
        let _ = std::fs::remove_dir_all(&root);
        if let Err(e) = res {
            out.machinery_errors.push(e);
        }
    }
    verif_hooks::set_uid_namespace(0);
}

pub fn replay_b(r: &Value) -> i32 {
    let root = scratch_root();
    let _g = ScratchGuard(root.clone());
    let rt = runtime();
    let res: Result<bool, String> = rt.block_on(async {
        let mut seen = vec![];
        for round in 0..2 {
            set_clock(T0);
            verif_hooks::set_uid_namespace(77);
            match r["kind"].as_str().unwrap_or("") {
                "sched" => {
                    let s: Sched = serde_json::from_value(r["sched"].clone()).map_err(|e| e.to_string())?;
                    let mut tr = 0;
                    let mut pool = Pool::new();
                    let o = exec_sched(&s, &root, &mut pool, &mut tr).await?;
                    println!("replay round {}: {}", round, sched_shape(&s));
                    for st in &o.steps {
                        println!("  {}", st);
                    }
                    println!(
                        "  granted_db={:?} granted_pm={:?} consumed={} resolves_after={} resolves_after_restart={} invite_rows_left={}",
                        o.granted_db, o.granted_pm, o.consumed, o.resolves_after, o.resolves_after_restart, o.invite_rows_left
                    );
                    for (k, w) in judge_sched(&s, &o) {
                        println!("  verdict: {} :: {}", k, w);
                    }
                    seen.push(format!("{:?}", o));
                }
                kind => {
                    let app = if kind == "foreign_application" || kind == "relabelled_application" { OTHER_APP } else { APP };
                    let mut w = corrupt_world(&root, app).await?;
                    let mut bytes = w.bytes.clone();
                    let mut class = kind.to_string();
                    let mut legit = false;
                    match kind {
                        "corrupt" => {
                            let off = r["offset"].as_u64().unwrap() as usize;
                            bytes[off] ^= r["xor"].as_u64().unwrap() as u8;
                            class = format!("corrupt/{}", field_of(off));
                        }
                        "truncate" => {
                            bytes.truncate(r["len"].as_u64().unwrap() as usize);
                            class = "truncated".to_string();
                        }
                        "relabelled_application" => {
                            let mut inv: Invite = bincode::deserialize(&bytes).map_err(|e| e.to_string())?;
                            inv.application = OTHER_APP.to_string();
                            bytes = bincode::serialize(&inv).map_err(|e| e.to_string())?;
                        }
                        "control" => legit = true,
                        _ => {}
                    }
                    let mut viols = vec![];
                    let mut tr = 0;
                    let label = present(&mut w, &bytes, &class, legit, &mut tr, &mut viols).await?;
                    println!("replay round {}: {} -> {} violations={:?}", round, class, label, viols);
                    seen.push(label);
                }
            }
        }
        Ok(seen[0] == seen[1])
    });
    verif_hooks::set_uid_namespace(0);
    match res {
        Ok(true) => 0,
        Ok(false) => {
            eprintln!("machinery error: replay divergence");
            2
        }
        Err(e) => {
            eprintln!("machinery error: {}", e);
            2
        }
    }
}
