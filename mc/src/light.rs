//! Light world: one in-memory SQLite connection prepared by the real `prepare_connection`,
//! a real `RoomAuthorisations`, a real `DataModel`; every operation calls the real pipeline phases
//! in pipeline order (parse -> execute -> validate/sign -> batch commit with log marks).
//! No threads, no actors: the driver owns every scheduling choice.
use discret::verif::database::authorisation_service::RoomAuthorisations;
use discret::verif::database::daily_log::{DailyLogsUpdate, RoomChangelog};
use discret::verif::database::deletion::DeletionQuery;
use discret::verif::database::graph_database::DbMessage;
use discret::verif::database::mutation_query::MutationQuery;
use discret::verif::database::query::{PreparedQueries, Query};
use discret::verif::database::query_language::data_model_parser::DataModel;
use discret::verif::database::query_language::deletion_parser::DeletionParser;
use discret::verif::database::query_language::mutation_parser::MutationParser;
use discret::verif::database::query_language::parameter::Parameters;
use discret::verif::database::query_language::query_parser::QueryParser;
use discret::verif::database::room::Room;
use discret::verif::database::sqlite_database::{
    prepare_connection, BufferedDatabaseWriter, WriteMessage,
};
use discret::verif::database::system_entities::SYSTEM_DATA_MODEL;
use discret::verif::security::{derive_key, Ed25519SigningKey, SigningKey};
use rusqlite::Connection;
use std::collections::HashMap;
use std::sync::Arc;
use tokio::sync::{mpsc, oneshot};

use crate::world::{key_material, sql_rows_conn, Sv};

pub const APP_KEY: &str = "mc verif app";

/// the signing key the full world derives for the identity `seed`
pub fn signing_key_for(seed: u8) -> Ed25519SigningKey {
    let km = key_material(seed);
    let signature_key = derive_key(&format!("{} SIGNING_KEY", APP_KEY), &km);
    Ed25519SigningKey::create_from(&signature_key)
}

pub fn verifying_key_for(seed: u8) -> Vec<u8> {
    signing_key_for(seed).export_verifying_key()
}

pub fn new_conn() -> Connection {
    let conn = Connection::open_in_memory().expect("in memory db");
    prepare_connection(&conn).expect("prepare_connection");
    conn
}

pub fn new_model(model: &str) -> Result<DataModel, String> {
    let mut dm = DataModel::new();
    dm.update_system(SYSTEM_DATA_MODEL)
        .map_err(|e| e.to_string())?;
    dm.update(model).map_err(|e| e.to_string())?;
    Ok(dm)
}

pub struct LPeer {
    pub conn: Connection,
    pub auth: RoomAuthorisations,
    pub model: DataModel,
    pub seed: u8,
}

/// a mutation that went through parse/execute/validate and waits for its batch commit
pub struct Pending {
    pub msg: WriteMessage,
    pub rx: Option<oneshot::Receiver<discret::verif::database::Result<MutationQuery>>>,
}

impl LPeer {
    pub fn new(seed: u8, model: &str) -> Result<LPeer, String> {
        Ok(LPeer {
            conn: new_conn(),
            auth: RoomAuthorisations {
                signing_key: signing_key_for(seed),
                rooms: HashMap::new(),
                max_node_size: 256 * 1024,
            },
            model: new_model(model)?,
            seed,
        })
    }

    pub fn key(&self) -> Vec<u8> {
        self.auth.signing_key.export_verifying_key()
    }

    pub fn parse_mutation(&self, text: &str) -> Result<Arc<MutationParser>, String> {
        MutationParser::parse(text, &self.model)
            .map(Arc::new)
            .map_err(|e| e.to_string())
    }

    /// phase 1: snapshot read (what a reader thread does)
    pub fn execute(
        &self,
        parser: Arc<MutationParser>,
        params: &mut Parameters,
    ) -> Result<MutationQuery, String> {
        MutationQuery::execute(params, parser, &self.conn).map_err(|e| e.to_string())
    }

    /// phase 2: sign and check rights (what the authorisation actor does)
    pub fn validate(&mut self, q: &mut MutationQuery) -> Result<Vec<Room>, String> {
        self.auth.validate_mutation(q).map_err(|e| e.to_string())
    }

    /// phase 3: one transaction for a buffer of write messages through the real batch function
    pub fn commit(&self, buffer: &mut Vec<WriteMessage>) -> Result<(), String> {
        BufferedDatabaseWriter::verif_process_batch_write(buffer, &self.conn)
            .map_err(|e| e.to_string())
    }

    pub fn mutation_message(q: MutationQuery) -> WriteMessage {
        let (tx, _rx) = oneshot::channel();
        WriteMessage::Mutation(q, tx)
    }

    pub fn deletion_message(q: DeletionQuery) -> WriteMessage {
        let (tx, _rx) = oneshot::channel();
        WriteMessage::Deletion(q, tx)
    }

    pub fn compute_message() -> WriteMessage {
        let (tx, _rx) = mpsc::channel::<DbMessage>(4);
        // the receiver is dropped: nothing reads the computed notification in the light world
        WriteMessage::ComputeDailyLog(DailyLogsUpdate::default(), tx)
    }

    /// complete local mutation of a non room entity: parse, execute, validate, commit alone
    pub fn mutate(&mut self, text: &str, mut params: Parameters) -> Result<MutationQuery, String> {
        let parser = self.parse_mutation(text)?;
        let mut q = self.execute(parser, &mut params)?;
        let rooms = self.validate(&mut q)?;
        if !rooms.is_empty() {
            // room mutation: write + changelog + second validation + add_room, as the actor does
            let date = q.date;
            let mut buffer = vec![Self::mutation_message(q)];
            self.commit(&mut buffer)?;
            for r in &rooms {
                RoomChangelog::log_room_definition(&r.id, date, &self.conn)
                    .map_err(|e| e.to_string())?;
            }
            let mut q = match buffer.pop().unwrap() {
                WriteMessage::Mutation(q, _) => q,
                _ => unreachable!(),
            };
            let rooms = self.validate(&mut q)?;
            for r in rooms {
                self.auth.add_room(r);
            }
            return Ok(q);
        }
        let mut buffer = vec![Self::mutation_message(q)];
        self.commit(&mut buffer)?;
        match buffer.pop().unwrap() {
            WriteMessage::Mutation(q, _) => Ok(q),
            _ => unreachable!(),
        }
    }

    pub fn delete(&mut self, text: &str, mut params: Parameters) -> Result<(), String> {
        let parser = DeletionParser::parse(text, &self.model)
            .map(Arc::new)
            .map_err(|e| e.to_string())?;
        let mut q =
            DeletionQuery::build(&mut params, parser, &self.conn).map_err(|e| e.to_string())?;
        self.auth
            .validate_deletion(&mut q)
            .map_err(|e| e.to_string())?;
        let mut buffer = vec![Self::deletion_message(q)];
        self.commit(&mut buffer)
    }

    pub fn compute_daily_log(&self) -> Result<(), String> {
        let mut buffer = vec![Self::compute_message()];
        self.commit(&mut buffer)
    }

    pub fn query(&self, text: &str, params: Parameters) -> Result<String, String> {
        let parser = QueryParser::parse(text, &self.model).map_err(|e| e.to_string())?;
        let prepared = PreparedQueries::build(&parser).map_err(|e| e.to_string())?;
        let mut q = Query {
            parameters: params,
            parser: Arc::new(parser),
            sql_queries: Arc::new(prepared),
        };
        q.read(&self.conn).map_err(|e| e.to_string())
    }

    pub fn sql(&self, sql: &str) -> Result<Vec<Vec<Sv>>, String> {
        sql_rows_conn(&self.conn, sql)
    }
}
