//! C14 — No input crashes, wedges or confuses an instance.
//!
//! E-SHAPE: bounded exhaustive enumeration of input shapes, every case under `catch_unwind` with a
//! global panic hook (thread + location), decided on the real parsers / executors / services.
//!   (i)   token strings over a listed alphabet, inserted in a few syntactic frames of each of the
//!         four grammars -> real parser -> (when accepted) real execution in the light world
//!   (ii)  parameter kind x field kind x position matrix (light world, and full world with probe)
//!   (iii) identifier classes (engine keywords, digit first, `_` first, non ASCII, length 1/64)
//!         x role (namespace, entity, field, alias ...) -> model + generated requests
//!   (iv)  wire values (bincode decode of every protocol type: all short strings, every truncation,
//!         every length inflation), rows with odd key / signature lengths and odd dates, inbound
//!         protocol queries, invitation bytes
//!   (v)   on a full-world instance a fixed probe (mutation + query + signature verification +
//!         reader pool head count) follows EACH adversarial input of (ii)-(iv)
//! Oracle: result or error; zero panics on any thread; probe answered; no database-engine error for a
//! request the language and the model accepted; results are well formed JSON.
use crate::c14_full;
use crate::common::*;
use crate::light::LPeer;
use crate::world::{set_clock, T0};
use discret::verif::database::deletion::DeletionQuery;
use discret::verif::database::mutation_query::MutationQuery;
use discret::verif::database::query::{PreparedQueries, Query};
use discret::verif::database::query_language::data_model_parser::{DataModel, Entity, Field};
use discret::verif::database::query_language::deletion_parser::DeletionParser;
use discret::verif::database::query_language::mutation_parser::MutationParser;
use discret::verif::database::query_language::parameter::Parameters;
use discret::verif::database::query_language::query_parser::QueryParser;
use discret::verif::database::query_language::{Error as LangError, FieldType, ParamValue};
use discret::verif::database::sqlite_database::{BufferedDatabaseWriter, WriteMessage};
use discret::verif::database::system_entities::SYSTEM_DATA_MODEL;
use discret::verif::database::Error as DbError;
use serde::{Deserialize, Serialize};
use serde_json::{json, Value};
use std::collections::{BTreeMap, BTreeSet};
use std::panic::{catch_unwind, AssertUnwindSafe};
use std::sync::atomic::{AtomicU64, Ordering};
use std::sync::{Arc, Mutex};
use std::time::Instant;

// ---------------------------------------------------------------------------------------------
// panic hook, watchdog
// ---------------------------------------------------------------------------------------------

#[derive(Clone, Debug, Serialize, Deserialize, PartialEq)]
pub struct PanicRec {
    /// "caller" (the driver thread: the panic unwound into the harness) or "service" (any other thread)
    pub thread: String,
    pub loc: String,
    pub msg: String,
}

lazy_static::lazy_static! {
    static ref PANICS: Mutex<Vec<PanicRec>> = Mutex::new(Vec::new());
    static ref DRIVER: Mutex<Option<std::thread::ThreadId>> = Mutex::new(None);
    static ref CURRENT: Mutex<String> = Mutex::new(String::new());
}
static HEARTBEAT: AtomicU64 = AtomicU64::new(0);

fn short_loc(file: &str, line: u32) -> String {
    // /repo/src/security.rs -> src/security.rs ; registry crates -> <crate dir>/src/<file>
    let parts: Vec<&str> = file.split('/').collect();
    let n = parts.len();
    let short = if let Some(p) = parts.iter().rposition(|x| *x == "src") {
        if p >= 1 && (parts[p - 1] == "repo" || parts[p - 1].starts_with("wt-")) {
            parts[p..].join("/")
        } else if p >= 1 {
            parts[p - 1..].join("/")
        } else {
            parts[p..].join("/")
        }
    } else {
        parts[n.saturating_sub(2)..].join("/")
    };
    format!("{}:{}", short, line)
}

pub fn install_hook() {
    *DRIVER.lock().unwrap() = Some(std::thread::current().id());
    std::panic::set_hook(Box::new(|info| {
        let loc = info
            .location()
            .map(|l| short_loc(l.file(), l.line()))
            .unwrap_or_else(|| "?".to_string());
        let msg = if let Some(s) = info.payload().downcast_ref::<&str>() {
            s.to_string()
        } else if let Some(s) = info.payload().downcast_ref::<String>() {
            s.clone()
        } else {
            "non string payload".to_string()
        };
        let me = std::thread::current().id();
        let driver = DRIVER.lock().map(|d| *d).unwrap_or(None);
        let thread = if Some(me) == driver { "caller" } else { "service" };
        let mut msg: String = msg.chars().take(160).collect();
        if msg.contains('\n') {
            msg = msg.replace('\n', " ");
        }
        if let Ok(mut p) = PANICS.lock() {
            p.push(PanicRec {
                thread: thread.to_string(),
                loc,
                msg,
            });
        }
    }));
}

pub fn take_panics() -> Vec<PanicRec> {
    let mut p = PANICS.lock().unwrap_or_else(|e| e.into_inner());
    std::mem::take(&mut *p)
}

pub fn set_current(s: &str) {
    HEARTBEAT.fetch_add(1, Ordering::Relaxed);
    if let Ok(mut c) = CURRENT.lock() {
        c.clear();
        c.push_str(s);
    }
}

/// a hang of a synchronous call can not be interrupted: report where and leave (machinery exit)
fn start_watchdog(limit_s: u64) {
    std::thread::Builder::new()
        .name("c14-watchdog".into())
        .spawn(move || {
            let mut last = HEARTBEAT.load(Ordering::Relaxed);
            let mut idle = 0;
            loop {
                std::thread::sleep(std::time::Duration::from_secs(1));
                let now = HEARTBEAT.load(Ordering::Relaxed);
                if now == last {
                    idle += 1;
                } else {
                    idle = 0;
                    last = now;
                }
                if idle >= limit_s {
                    let cur = CURRENT.lock().map(|c| c.clone()).unwrap_or_default();
                    eprintln!("C14 watchdog: no progress for {} s, current case: {}", limit_s, cur);
                    println!("HANG {}", cur);
                    std::process::exit(3);
                }
            }
        })
        .expect("watchdog");
}

// ---------------------------------------------------------------------------------------------
// cases
// ---------------------------------------------------------------------------------------------

#[derive(Serialize, Deserialize, Clone, Debug, PartialEq)]
pub enum Pv {
    B(bool),
    I(i64),
    /// "nan", "inf", "-inf" or a decimal
    F(String),
    S(String),
    Bin(String),
    Null,
    /// id (base64) of the first row created by the k-th setup mutation
    Seed(usize),
    /// id of the first row created under `field` of the k-th setup mutation
    SeedSub(usize, String),
}

#[derive(Clone, Debug, Default)]
pub struct Seeds {
    pub top: Vec<String>,
    pub sub: Vec<BTreeMap<String, String>>,
}

pub const FAKE_ID: &str = "AAAAAAAAAAAAAAAAAAAAAA"; // 16 zero bytes, never a stored row

/// `@k@` in a setup mutation stands for the id created by the k-th setup mutation (every setup
/// mutation creates exactly one row, so that the identifiers do not depend on map iteration order)
pub fn fill_seeds(text: &str, seeds: &Seeds) -> String {
    let mut t = text.to_string();
    for (k, id) in seeds.top.iter().enumerate() {
        t = t.replace(&format!("@{}@", k), id);
    }
    t
}

impl Pv {
    pub fn to_param(&self, seeds: &Seeds) -> ParamValue {
        match self {
            Pv::B(b) => ParamValue::Boolean(*b),
            Pv::I(i) => ParamValue::Integer(*i),
            Pv::F(s) => ParamValue::Float(match s.as_str() {
                "nan" => f64::NAN,
                "inf" => f64::INFINITY,
                "-inf" => f64::NEG_INFINITY,
                o => o.parse().unwrap_or(0.0),
            }),
            Pv::S(s) => ParamValue::String(s.clone()),
            Pv::Bin(s) => ParamValue::Binary(s.clone()),
            Pv::Null => ParamValue::Null,
            Pv::Seed(k) => ParamValue::String(
                seeds
                    .top
                    .get(*k)
                    .cloned()
                    .unwrap_or_else(|| FAKE_ID.to_string()),
            ),
            Pv::SeedSub(k, f) => ParamValue::String(
                seeds
                    .sub
                    .get(*k)
                    .and_then(|m| m.get(f))
                    .cloned()
                    .unwrap_or_else(|| FAKE_ID.to_string()),
            ),
        }
    }
}

pub fn to_parameters(params: &[(String, Pv)], seeds: &Seeds) -> Parameters {
    let mut p = Parameters::new();
    for (k, v) in params {
        p.params.insert(k.clone(), v.to_param(seeds));
    }
    p
}

/// one request against one model: everything needed to run it again in a fresh world
#[derive(Serialize, Deserialize, Clone, Debug)]
pub struct StmtCase {
    pub part: String,
    /// data model of the world ("" for kind=model: the text is the model)
    pub model: String,
    /// mutations (no parameters) executed before the case; their ids feed Pv::Seed
    pub setup: Vec<String>,
    /// query | mutation | deletion | model
    pub kind: String,
    pub text: String,
    pub params: Vec<(String, Pv)>,
    /// id free input class used in finding keys
    pub class: String,
}

#[derive(Clone, Debug, Default)]
pub struct Res {
    /// ok | reject:parse | reject:semantic:<Variant> | reject:param:<Variant> | error:<Variant> | engine:<class> | panic
    pub oc: String,
    pub engine: Option<(String, String)>,
    pub bad_json: bool,
    pub panics: Vec<PanicRec>,
    pub detail: String,
    /// the answer (mutations only)
    pub value: Option<String>,
}

fn variant_name<T: std::fmt::Debug>(e: &T) -> String {
    let d = format!("{:?}", e);
    d.chars()
        .take_while(|c| c.is_ascii_alphanumeric() || *c == '_')
        .collect()
}

pub fn engine_class(msg: &str) -> String {
    let m = msg.to_lowercase();
    const PATS: &[(&str, &str)] = &[
        ("fts5: syntax error", "fts5-syntax"),
        ("unknown special query", "fts5-syntax"),
        ("unterminated string", "fts5-unterminated-string"),
        ("malformed match", "fts5-malformed-match"),
        ("no such column", "no-such-column"),
        ("ambiguous column", "ambiguous-column"),
        ("unrecognized token", "unrecognized-token"),
        ("incomplete input", "incomplete-input"),
        ("syntax error", "syntax-error"),
        ("no such table", "no-such-table"),
        ("no such function", "no-such-function"),
        ("bad json path", "bad-json-path"),
        ("json path error", "bad-json-path"),
        ("malformed json", "malformed-json"),
        ("datatype mismatch", "datatype-mismatch"),
        ("cannot store", "datatype-mismatch"),
        ("constraint", "constraint"),
        ("wrong number of arguments", "wrong-arg-count"),
        ("disk image is malformed", "corrupt-vtab"),
        ("out of range", "out-of-range"),
        ("invalid parameter", "bind-error"),
        ("wrong number of parameters", "bind-error"),
        ("already exists", "already-exists"),
        ("too many", "limit-exceeded"),
        ("misuse", "misuse"),
    ];
    for (p, c) in PATS {
        if m.contains(p) {
            return c.to_string();
        }
    }
    "other".to_string()
}

pub fn lang_err(e: &LangError) -> Res {
    let oc = match e {
        LangError::Parser(_) => "reject:parse".to_string(),
        o => format!("reject:semantic:{}", variant_name(o)),
    };
    Res {
        oc,
        detail: e.to_string().chars().take(200).collect(),
        ..Default::default()
    }
}

pub fn db_err(e: &DbError) -> Res {
    match e {
        DbError::Database(r) => {
            let msg = r.to_string();
            let c = engine_class(&msg);
            Res {
                oc: format!("engine:{}", c),
                engine: Some((c, msg.chars().take(300).collect())),
                detail: msg.chars().take(300).collect(),
                ..Default::default()
            }
        }
        DbError::Parsing(pe) => Res {
            oc: format!("reject:param:{}", variant_name(pe)),
            detail: pe.to_string().chars().take(200).collect(),
            ..Default::default()
        },
        o => Res {
            oc: format!("error:{}", variant_name(o)),
            detail: o.to_string().chars().take(200).collect(),
            ..Default::default()
        },
    }
}

fn ok_json(s: &str) -> Res {
    let bad = serde_json::from_str::<Value>(s).is_err();
    Res {
        oc: if bad { "ok:invalid-json".into() } else { "ok".into() },
        bad_json: bad,
        detail: if bad { s.chars().take(200).collect() } else { String::new() },
        ..Default::default()
    }
}

// ---------------------------------------------------------------------------------------------
// light world executor (typed errors: the phases are called directly)
// ---------------------------------------------------------------------------------------------

pub struct Light {
    pub p: LPeer,
    pub seeds: Seeds,
}

fn first_sub_ids(
    ins: &discret::verif::database::mutation_query::InsertEntity,
) -> BTreeMap<String, String> {
    let mut m = BTreeMap::new();
    for (f, subs) in &ins.sub_nodes {
        if let Some(s) = subs.first() {
            m.insert(f.clone(), discret::base64_encode(&s.node_to_mutate.id));
        }
    }
    m
}

impl Light {
    pub fn new(model: &str, setup: &[String]) -> Result<Light, String> {
        discret::verif_hooks::set_uid_namespace(14);
        let p = LPeer::new(1, model)?;
        let mut l = Light {
            p,
            seeds: Seeds::default(),
        };
        for s in setup {
            let s = &fill_seeds(s, &l.seeds);
            match l.mutate_typed(s, Parameters::new()) {
                Ok(q) => {
                    let first = q.mutate_entities.first();
                    l.seeds.top.push(
                        first
                            .map(|e| discret::base64_encode(&e.node_to_mutate.id))
                            .unwrap_or_else(|| FAKE_ID.to_string()),
                    );
                    l.seeds
                        .sub
                        .push(first.map(first_sub_ids).unwrap_or_default());
                }
                Err(r) => return Err(format!("setup mutation refused: {} / {}", r.oc, r.detail)),
            }
        }
        Ok(l)
    }

    fn mutate_typed(&mut self, text: &str, mut params: Parameters) -> Result<MutationQuery, Res> {
        let parser = MutationParser::parse(text, &self.p.model).map_err(|e| lang_err(&e))?;
        let mut q = MutationQuery::execute(&mut params, Arc::new(parser), &self.p.conn)
            .map_err(|e| db_err(&e))?;
        let rooms = self.p.auth.validate_mutation(&mut q).map_err(|e| db_err(&e))?;
        if !rooms.is_empty() {
            // room definitions are the subject of C01/C07: not executed here
            return Err(Res {
                oc: "skipped:room-mutation".into(),
                ..Default::default()
            });
        }
        let mut buffer = vec![LPeer::mutation_message(q)];
        BufferedDatabaseWriter::verif_process_batch_write(&mut buffer, &self.p.conn)
            .map_err(|e| db_err(&DbError::Database(e)))?;
        match buffer.pop() {
            Some(WriteMessage::Mutation(q, _)) => Ok(q),
            _ => Err(Res {
                oc: "error:buffer".into(),
                ..Default::default()
            }),
        }
    }

    fn exec_inner(&mut self, kind: &str, text: &str, params: Parameters) -> Res {
        match kind {
            "query" => {
                let parser = match QueryParser::parse(text, &self.p.model) {
                    Ok(p) => p,
                    Err(e) => return lang_err(&e),
                };
                let prepared = match PreparedQueries::build(&parser) {
                    Ok(p) => p,
                    Err(e) => return db_err(&e),
                };
                let mut q = Query {
                    parameters: params,
                    parser: Arc::new(parser),
                    sql_queries: Arc::new(prepared),
                };
                match q.read(&self.p.conn) {
                    Ok(s) => ok_json(&s),
                    Err(e) => db_err(&e),
                }
            }
            "mutation" => match self.mutate_typed(text, params) {
                Ok(q) => match q.result() {
                    Ok(s) => {
                        let mut r = ok_json(&s);
                        r.value = Some(s);
                        r
                    }
                    Err(e) => db_err(&e),
                },
                Err(r) => r,
            },
            "deletion" => {
                let parser = match DeletionParser::parse(text, &self.p.model) {
                    Ok(p) => p,
                    Err(e) => return lang_err(&e),
                };
                let mut params = params;
                let mut q = match DeletionQuery::build(&mut params, Arc::new(parser), &self.p.conn) {
                    Ok(q) => q,
                    Err(e) => return db_err(&e),
                };
                if let Err(e) = self.p.auth.validate_deletion(&mut q) {
                    return db_err(&e);
                }
                let mut buffer = vec![LPeer::deletion_message(q)];
                match BufferedDatabaseWriter::verif_process_batch_write(&mut buffer, &self.p.conn) {
                    Ok(_) => Res {
                        oc: "ok".into(),
                        ..Default::default()
                    },
                    Err(e) => db_err(&DbError::Database(e)),
                }
            }
            _ => Res {
                oc: "error:unknown-kind".into(),
                ..Default::default()
            },
        }
    }

    /// one request, under catch_unwind, panics of any thread collected
    pub fn exec(&mut self, kind: &str, text: &str, params: &[(String, Pv)]) -> Res {
        let p = to_parameters(params, &self.seeds);
        let _ = take_panics();
        let r = catch_unwind(AssertUnwindSafe(|| self.exec_inner(kind, text, p)));
        let panics = take_panics();
        match r {
            Ok(mut res) => {
                if !panics.is_empty() {
                    res.oc = "panic".into();
                }
                res.panics = panics;
                res
            }
            Err(_) => Res {
                oc: "panic".into(),
                panics,
                ..Default::default()
            },
        }
    }
}

// ---------------------------------------------------------------------------------------------
// model exerciser: requests generated from an accepted data model (used by the model grammar part
// and by the identifier part). Everything generated here is valid for the language and the model.
// ---------------------------------------------------------------------------------------------

fn lit_for(f: &Field) -> Option<&'static str> {
    match f.field_type {
        FieldType::String => Some("\"abc def\""),
        FieldType::Integer => Some("3"),
        FieldType::Float => Some("2.5"),
        FieldType::Boolean => Some("true"),
        FieldType::Base64 => Some("\"AAAA\""),
        FieldType::Json => Some("\"{\\\"k\\\":1}\""),
        _ => None,
    }
}

fn sorted_fields(e: &Entity) -> Vec<&Field> {
    let mut v: Vec<&Field> = e.fields.values().collect();
    v.sort_by(|a, b| a.name.cmp(&b.name));
    v
}

/// (kind, text, params, label): the requests generated for every user entity of the model
pub fn model_requests(dm: &DataModel, ent_alias: &str, field_alias: &str) -> Vec<(String, String, Vec<(String, Pv)>, String)> {
    let mut out = vec![];
    let mut names: Vec<(&String, &Entity)> = vec![];
    for (ns, ents) in dm.namespaces() {
        if ns == "sys" {
            continue;
        }
        for (n, e) in ents {
            names.push((n, e));
        }
    }
    names.sort_by(|a, b| a.0.cmp(b.0));
    for (name, e) in names {
        let fields = sorted_fields(e);
        let scalars: Vec<&Field> = fields.iter().copied().filter(|f| lit_for(f).is_some()).collect();
        let refs: Vec<&Field> = fields.iter().copied().filter(|f| lit_for(f).is_none()).collect();
        // creation with every scalar field given literally
        let mut body = String::new();
        for f in &scalars {
            body.push_str(&format!("{}: {} ", f.name, lit_for(f).unwrap()));
        }
        // nested creation through every reference field (target scalar fields given literally)
        let mut nested = body.clone();
        for f in &refs {
            let (target, arr) = match &f.field_type {
                FieldType::Array(t) => (t, true),
                FieldType::Entity(t) => (t, false),
                _ => continue,
            };
            if let Ok(te) = dm.get_entity(target) {
                let mut tb = String::new();
                for tf in sorted_fields(te) {
                    if let Some(l) = lit_for(tf) {
                        tb.push_str(&format!("{}: {} ", tf.name, l));
                    }
                }
                if tb.is_empty() {
                    continue;
                }
                if arr {
                    nested.push_str(&format!("{}: [{{ {} }}] ", f.name, tb));
                } else {
                    nested.push_str(&format!("{}: {{ {} }} ", f.name, tb));
                }
            }
        }
        out.push((
            "mutation".into(),
            format!("mutate {{ {}: {} {{ {} }} }}", ent_alias, name, nested),
            vec![],
            "create".into(),
        ));
        if let Some(f) = scalars.first() {
            out.push((
                "mutation".into(),
                format!("mutate {{ {} {{ id: $id {}: {} }} }}", name, f.name, lit_for(f).unwrap()),
                vec![("id".into(), Pv::Seed(0))],
                "update".into(),
            ));
        }
        // selection of everything, aliases, sub selections
        let mut sel = String::from("id ");
        for (i, f) in scalars.iter().enumerate() {
            if i == 0 {
                sel.push_str(&format!("{}: {} ", field_alias, f.name));
            } else {
                sel.push_str(&format!("{} ", f.name));
            }
        }
        let mut nullable = vec![];
        for f in &refs {
            sel.push_str(&format!("{} {{ id }} ", f.name));
            nullable.push(f.name.clone());
        }
        let null_clause = if nullable.is_empty() {
            String::new()
        } else {
            format!("nullable({})", nullable.join(","))
        };
        out.push((
            "query".into(),
            format!("query {{ {}: {} ({}) {{ {} }} }}", ent_alias, name, null_clause, sel),
            vec![],
            "select-all".into(),
        ));
        // required references (EXISTS sub queries)
        if !refs.is_empty() {
            out.push((
                "query".into(),
                format!("query {{ {} {{ {} }} }}", name, sel),
                vec![],
                "select-required-refs".into(),
            ));
        }
        // filter / order / paging on every scalar field that can carry them
        for f in &scalars {
            if f.field_type == FieldType::Json {
                out.push((
                    "query".into(),
                    format!(
                        "query {{ {} ({}->$.k = 1) {{ id {}: {}->$.k }} }}",
                        name, f.name, field_alias, f.name
                    ),
                    vec![],
                    "json-selector".into(),
                ));
                continue;
            }
            let l = lit_for(f).unwrap();
            out.push((
                "query".into(),
                format!(
                    "query {{ {} ({} = {}, order_by({} asc), after({}), first 3) {{ id {} }} }}",
                    name, f.name, l, f.name, l, f.name
                ),
                vec![],
                "filter-order-paging".into(),
            ));
            out.push((
                "query".into(),
                format!(
                    "query {{ {} ({} != {}, order_by({} desc)) {{ {}: {} }} }}",
                    name, field_alias, l, field_alias, field_alias, f.name
                ),
                vec![],
                "filter-order-on-alias".into(),
            ));
        }
        for f in &refs {
            out.push((
                "query".into(),
                format!("query {{ {} ({} != null) {{ id {} {{ id }} }} }}", name, f.name, f.name),
                vec![],
                "ref-filter".into(),
            ));
        }
        if e.enable_full_text {
            out.push((
                "query".into(),
                format!("query {{ {} (search(\"abc\")) {{ id }} }}", name),
                vec![],
                "search".into(),
            ));
        }
        let mut agg = format!("{}: count() ", field_alias);
        if let Some(f) = scalars.first() {
            agg.push_str(&format!("mx: max({}) ", f.name));
        }
        out.push((
            "query".into(),
            format!("query {{ {} {{ {} }} }}", name, agg),
            vec![],
            "aggregate".into(),
        ));
        out.push((
            "deletion".into(),
            format!("delete {{ {}: {} {{ $id }} }}", ent_alias, name),
            vec![("id".into(), Pv::Seed(0))],
            "delete".into(),
        ));
    }
    out
}


fn id_from_result(value: &Option<String>) -> Option<String> {
    let v: Value = serde_json::from_str(value.as_ref()?).ok()?;
    let obj = v.as_object()?;
    let first = obj.values().next()?;
    first.get("id")?.as_str().map(|s| s.to_string())
}

/// accept a model text with the real parser, then create its indexes as the service does and run
/// the generated requests in a fresh light world. Returns (model verdict, per request results).
pub fn exercise_model(text: &str, ent_alias: &str, field_alias: &str) -> (Res, Vec<(String, String, Res)>) {
    let _ = take_panics();
    let parsed = catch_unwind(AssertUnwindSafe(|| {
        let mut dm = DataModel::new();
        dm.update_system(SYSTEM_DATA_MODEL).map_err(|e| lang_err(&e))?;
        dm.update(text).map_err(|e| lang_err(&e))?;
        Ok::<DataModel, Res>(dm)
    }));
    let panics = take_panics();
    let dm = match parsed {
        Err(_) => {
            return (
                Res {
                    oc: "panic".into(),
                    panics,
                    ..Default::default()
                },
                vec![],
            )
        }
        Ok(Err(mut r)) => {
            if !panics.is_empty() {
                r.oc = "panic".into();
                r.panics = panics;
            }
            return (r, vec![]);
        }
        Ok(Ok(dm)) => dm,
    };
    let mut results = vec![];
    let mut l = match Light::new("{}", &[]) {
        Ok(l) => l,
        Err(e) => {
            return (
                Res {
                    oc: "error:light-world".into(),
                    detail: e,
                    ..Default::default()
                },
                vec![],
            )
        }
    };
    l.p.model = dm.clone();
    // indexes, as GraphDatabase::update_data_model does on the writer connection
    let mut idx: Vec<(String, String)> = vec![];
    for (_ns, ents) in dm.namespaces() {
        for (_n, e) in ents {
            for (iname, index) in &e.indexes {
                idx.push((iname.clone(), index.create_query()));
            }
        }
    }
    idx.sort();
    for (_iname, sql) in idx {
        let r = match l.p.conn.execute(&sql, []) {
            Ok(_) => Res {
                oc: "ok".into(),
                ..Default::default()
            },
            Err(e) => db_err(&DbError::Database(e)),
        };
        results.push(("index".to_string(), "create-index".to_string(), r));
    }
    let reqs = model_requests(&dm, ent_alias, field_alias);
    for (kind, text, params, label) in reqs {
        set_current(&text);
        let r = l.exec(&kind, &text, &params);
        if kind == "mutation" && label == "create" {
            // the row created for this entity feeds $id of the following update / delete
            l.seeds.top.clear();
            if let Some(id) = id_from_result(&r.value) {
                l.seeds.top.push(id);
            }
        }
        results.push((kind, label, r));
    }
    (
        Res {
            oc: "ok".into(),
            ..Default::default()
        },
        results,
    )
}

// ---------------------------------------------------------------------------------------------
// oracle: symptoms of one executed case; records written by the shards, folded by the parent
// ---------------------------------------------------------------------------------------------

/// (symptom, what) of every oracle violation of one result. `probe` = symptoms of the liveness probe.
/// A panic on a service thread is the cause; the panics it provokes in the waiting caller are told in `what`.
pub fn symptoms_of(res: &Res, probe: &[String]) -> Vec<(String, String)> {
    let mut v: Vec<(String, String)> = vec![];
    let service: Vec<&PanicRec> = res.panics.iter().filter(|p| p.thread == "service").collect();
    let caller: Vec<&PanicRec> = res.panics.iter().filter(|p| p.thread != "service").collect();
    let after = if probe.is_empty() {
        String::new()
    } else {
        format!(" ; afterwards: {}", probe.join(", "))
    };
    let (causes, consequences) = if service.is_empty() { (caller, vec![]) } else { (service, caller) };
    let cons = if consequences.is_empty() {
        String::new()
    } else {
        format!(
            " ; then in the waiting caller: {}",
            consequences.iter().map(|p| format!("{} ({})", p.loc, p.msg)).collect::<Vec<_>>().join(", ")
        )
    };
    for p in causes {
        let s = format!("panic:{}", p.loc);
        if !v.iter().any(|x| x.0 == s) {
            v.push((s, format!("panic on the {} thread at {}: {}{}{}", p.thread, p.loc, p.msg, cons, after)));
        }
    }
    if let Some((c, msg)) = &res.engine {
        v.push((
            format!("engine:{}", c),
            format!("the database engine rejected a request that the language and the model accepted: {}", msg),
        ));
    }
    if res.bad_json {
        v.push(("result:invalid-json".into(), format!("the answer is not well formed JSON: {}", res.detail)));
    }
    if res.oc == "unanswered" {
        v.push(("hang:unanswered".into(), "no answer within the time limit".into()));
    }
    if res.panics.is_empty() {
        for s in probe {
            v.push((format!("wedge:{}", s), format!("after this input the instance no longer answers normally: {}", s)));
        }
    }
    v
}

/// raw keys (symptom|class) of one result
pub fn keys_of(class: &str, res: &Res, probe: &[String]) -> Vec<(String, String)> {
    symptoms_of(res, probe).into_iter().map(|(s, w)| (format!("{}|{}", s, class), w)).collect()
}

/// one executed case, as told to the parent: the class as a list of dimensions, whether it was
/// answered successfully, and the symptoms with the case needed to run it again
#[derive(Serialize, Deserialize, Clone, Debug)]
pub struct Record {
    pub d: Vec<String>,
    pub ok: bool,
    pub bad: Vec<(String, String)>,
    pub case: Option<Case>,
}

pub struct Sink {
    file: Option<std::io::BufWriter<std::fs::File>>,
    seen_ok: BTreeSet<u64>,
    pub memory: Vec<Record>,
}

impl Sink {
    pub fn open(shard: usize) -> Sink {
        let file = std::env::var("C14_SIDE_DIR").ok().and_then(|d| {
            let _ = std::fs::create_dir_all(&d);
            std::fs::File::create(format!("{}/shard-{}.jsonl", d, shard)).ok().map(std::io::BufWriter::new)
        });
        Sink {
            file,
            seen_ok: BTreeSet::new(),
            memory: vec![],
        }
    }
    pub fn put(&mut self, d: Vec<String>, ok: bool, bad: Vec<(String, String)>, case: impl FnOnce() -> Case) {
        use std::io::Write;
        if bad.is_empty() {
            // clean cases matter only once per class, and only the successful ones
            if !ok || !self.seen_ok.insert(hash64(&d)) {
                return;
            }
        }
        let rec = Record {
            d,
            ok,
            case: if bad.is_empty() { None } else { Some(case()) },
            bad,
        };
        match &mut self.file {
            Some(f) => {
                let _ = writeln!(f, "{}", serde_json::to_string(&rec).unwrap());
            }
            None => self.memory.push(rec),
        }
    }
    pub fn close(&mut self) {
        use std::io::Write;
        if let Some(f) = &mut self.file {
            let _ = f.flush();
        }
    }
}

fn is_ok(oc: &str) -> bool {
    oc == "ok" || oc.starts_with("ok:")
}

fn dims(class: &str) -> Vec<String> {
    class.split('|').map(|s| s.to_string()).collect()
}

fn tally(out: &mut Outcome, part: &str, class: &str, oc: &str) {
    out.evaluations += 1;
    out.count(&format!("{}:{}", part, oc));
    out.state(&(part, class, oc));
    out.nontrivial(&(part, oc));
}

// ---------------------------------------------------------------------------------------------
// fresh-world evaluation of a recorded case (confirmation and --replay)
// ---------------------------------------------------------------------------------------------

#[derive(Serialize, Deserialize, Clone, Debug)]
#[serde(tag = "t")]
pub enum Case {
    /// one request in a light world
    Stmt { case: StmtCase },
    /// a model text -> parser -> indexes + generated requests
    Model {
        text: String,
        ent_alias: String,
        field_alias: String,
        class: String,
    },
    /// bincode decode of one protocol type
    Wire { ty: String, hex: String, class: String },
    /// everything that needs a full-world instance (see c14_full)
    Full { case: c14_full::FullCase },
}

/// every raw (key, what) of a case evaluated in fresh worlds
pub fn eval_fresh(case: &Case) -> Vec<(String, String)> {
    match case {
        Case::Stmt { case } => {
            let setup = case.setup.clone();
            let mut l = match Light::new(&case.model, &setup) {
                Ok(l) => l,
                Err(e) => return vec![("machinery".into(), e)],
            };
            let r = l.exec(&case.kind, &case.text, &case.params);
            keys_of(&case.class, &r, &[])
        }
        Case::Model {
            text,
            ent_alias,
            field_alias,
            class,
        } => {
            let (m, results) = exercise_model(text, ent_alias, field_alias);
            let mut v = keys_of(&format!("{}|model", class), &m, &[]);
            for (kind, _label, r) in results {
                v.extend(keys_of(&format!("{}|{}", class, kind), &r, &[]));
            }
            let mut seen = BTreeSet::new();
            v.retain(|k| seen.insert(k.0.clone()));
            v
        }
        Case::Wire { ty, hex, class } => {
            let bytes = hex::decode(hex).unwrap_or_default();
            let _ = take_panics();
            let r = catch_unwind(AssertUnwindSafe(|| c14_full::decode_one(ty, &bytes)));
            let panics = take_panics();
            let res = Res {
                oc: if r.is_err() || !panics.is_empty() { "panic".into() } else { "ok".into() },
                panics,
                ..Default::default()
            };
            keys_of(class, &res, &[])
        }
        Case::Full { case } => c14_full::eval_fresh_blocking(case),
    }
}

// ---------------------------------------------------------------------------------------------
// part (i): token strings
// ---------------------------------------------------------------------------------------------

pub struct Frame {
    pub name: &'static str,
    pub pre: &'static str,
    pub post: &'static str,
    pub alpha: &'static [&'static str],
}
pub struct Grammar {
    pub name: &'static str,
    pub kind: &'static str,
    pub frames: &'static [Frame],
}

pub const PQ_MODEL: &str = "{ P { name: String, n: Integer default 0, f: Float nullable, j: Json nullable, q: Q nullable, qs: [Q] nullable } Q { name: String } }";
pub const PQ_SETUP: &[&str] = &[
    "mutate { Q { name: \"q one\" } }",
    "mutate { Q { name: \"q zero\" } }",
    "mutate { P { name: \"p one\" n: 1 f: 1.5 j: \"{\\\"k\\\":1}\" q: { id: \"@1@\" } qs: [ { id: \"@0@\" } ] } }",
    "mutate { P { name: \"p two\" } }",
];
/// index of the setup mutation that creates the main row / the referenced row
pub const MAIN_SEED: usize = 2;
pub const SUB_SEED: usize = 0;

pub static GRAMMARS: &[Grammar] = &[
    Grammar {
        name: "query",
        kind: "query",
        frames: &[
            Frame { name: "bare", pre: "", post: "", alpha: &["query", "{", "}", "(", ")", ":", ",", "P", "name", "x", "=", "$v", "\"s\"", "1", "null", "first"] },
            Frame { name: "entities", pre: "query { ", post: " }", alpha: &["{", "}", "(", ")", ":", ",", "P", "qs", "name", "id", "x", "=", "$v", "\"s\"", "1", "order_by(", "asc", "first", "count()"] },
            Frame { name: "params", pre: "query { P ( ", post: " ) { name qs { name } } }", alpha: &["name", "n", "j", "qs", "id", "cdate", "x", "=", ">", "$v", "\"s\"", "1", "1.5", "true", "null", ",", ")", "order_by(", "asc", "first", "after(", "search(", "nullable(", "j->$.k"] },
            Frame { name: "fields", pre: "query { P { ", post: " } }", alpha: &["{", "}", "(", ")", ":", ",", "name", "n", "j", "qs", "q", "id", "x", "=", "$v", "\"s\"", "1", "null", "order_by(", "asc", "first", "count()", "max(", "j->$.k"] },
            Frame { name: "sub-params", pre: "query { P { name qs ( ", post: " ) { name } } }", alpha: &["name", "id", "cdate", "x", "=", ">", "$v", "\"s\"", "1", "null", ",", ")", "order_by(", "asc", "first", "after(", "search(", "nullable("] },
        ],
    },
    Grammar {
        name: "mutation",
        kind: "mutation",
        frames: &[
            Frame { name: "bare", pre: "", post: "", alpha: &["mutate", "x", "{", "}", ":", "P", "name", "$v", "\"s\"", "1", "null", "[", "]", ","] },
            Frame { name: "entities", pre: "mutate { ", post: " }", alpha: &["{", "}", ":", ",", "P", "Q", "x", "name", "n", "j", "qs", "q", "id", "$v", "\"s\"", "1", "null", "[", "]"] },
            Frame { name: "fields", pre: "mutate { P { ", post: " } }", alpha: &["name", "n", "f", "j", "q", "qs", "id", "room_id", "x", ":", ",", "{", "}", "[", "]", "$v", "$w", "\"s\"", "\"{}\"", "1", "1.5", "true", "null"] },
            Frame { name: "nested", pre: "mutate { P { name : \"a\" qs : [ { ", post: " } ] } }", alpha: &["name", "id", "room_id", "x", ":", ",", "{", "}", "]", "[", "$v", "\"s\"", "1", "null"] },
        ],
    },
    Grammar {
        name: "deletion",
        kind: "deletion",
        frames: &[
            Frame { name: "bare", pre: "", post: "", alpha: &["delete", "x", "{", "}", "P", ":", "$v", "qs", "[", "]", ","] },
            Frame { name: "entities", pre: "delete { ", post: " }", alpha: &["{", "}", "P", "Q", "x", ":", "$v", "$w", "qs", "q", "name", "[", "]", ",", "\"s\"", "1", "id"] },
            Frame { name: "body", pre: "delete { P { ", post: " } }", alpha: &["$v", "$w", "qs", "q", "name", "x", "[", "]", ",", "{", "}", "\"s\"", "1"] },
        ],
    },
    Grammar {
        name: "model",
        kind: "model",
        frames: &[
            Frame { name: "bare", pre: "", post: "", alpha: &["{", "}", "ns", "E", "a", ":", "String", "(", ")", ",", "nullable"] },
            Frame { name: "namespace", pre: "{ ", post: " }", alpha: &["{", "}", "(", ")", ":", ",", "E", "T", "a", "id", "String", "Integer", "Json", "nullable", "default", "\"s\"", "1", "index(", "no_full_text_index", "@deprecated", "[", "]"] },
            Frame { name: "entity-body", pre: "{ T { x : String } E { ", post: " } }", alpha: &["a", "b", "_c", "id", ":", ",", "String", "Integer", "Float", "Boolean", "Base64", "Json", "T", "[", "]", "nullable", "default", "\"s\"", "1", "1.5", "true", "index(", ")", "@deprecated"] },
            Frame { name: "field-type", pre: "{ T { x : String } E { a : ", post: " } }", alpha: &["String", "Integer", "Float", "Boolean", "Base64", "Json", "T", "E", "Z", "[", "]", "nullable", "default", "\"s\"", "\"AAAA\"", "\"{}\"", "1", "-1", "1.5", "true", ",", "b", ":", "index(", ")"] },
        ],
    },
];

/// parameter profiles tried on every accepted statement that uses a variable
fn profiles() -> Vec<(&'static str, Pv)> {
    vec![
        ("String", Pv::S("s".into())),
        ("Integer", Pv::I(1)),
        ("Float", Pv::F("1.5".into())),
        ("Boolean", Pv::B(true)),
        ("Null", Pv::Null),
        ("Id.existing", Pv::Seed(MAIN_SEED)),
        ("Id.sub", Pv::Seed(SUB_SEED)),
        ("String.json-object", Pv::S("{\"k\":1}".into())),
    ]
}

fn token_features(tokens: &[&str]) -> String {
    let mut f = BTreeSet::new();
    for t in tokens {
        let feat = match *t {
            "order_by(" | "asc" => "order_by",
            "after(" => "paging",
            "search(" => "search",
            "nullable(" | "nullable" => "nullable",
            "first" => "limit",
            "count()" | "max(" => "aggregate",
            "j->$.k" => "json-selector",
            "cdate" | "id" | "room_id" => "system-field",
            "qs" | "q" => "entity-field",
            "null" => "null",
            "$v" | "$w" => "variable",
            "default" => "default",
            "index(" => "index",
            "j" | "Json" | "\"{}\"" => "json",
            "_c" => "underscore-name",
            "@deprecated" => "deprecated",
            "[" => "array",
            _ => continue,
        };
        f.insert(feat);
    }
    f.into_iter().collect::<Vec<_>>().join("+")
}

pub struct TokenUnit {
    pub g: usize,
    pub f: usize,
    pub len: usize,
    pub t0: usize,
}

pub fn token_units(max_len: usize) -> Vec<TokenUnit> {
    let mut v = vec![];
    for len in 1..=max_len {
        for (g, gr) in GRAMMARS.iter().enumerate() {
            for (f, fr) in gr.frames.iter().enumerate() {
                for t0 in 0..fr.alpha.len() {
                    v.push(TokenUnit { g, f, len, t0 });
                }
            }
        }
    }
    v
}

fn fast_parse(kind: &str, text: &str, model: &DataModel) -> Result<Result<(), LangError>, ()> {
    // the parse (and semantic validation) alone; Err(()) = it panicked
    catch_unwind(AssertUnwindSafe(|| match kind {
        "query" => QueryParser::parse(text, model).map(|_| ()),
        "mutation" => MutationParser::parse(text, model).map(|_| ()),
        "deletion" => DeletionParser::parse(text, model).map(|_| ()),
        _ => DataModel::new().update(text),
    }))
    .map_err(|_| ())
}

pub fn run_token_unit(u: &TokenUnit, out: &mut Outcome, local: &mut BTreeMap<String, u64>, sink: &mut Sink, model: &DataModel) {
    let gr = &GRAMMARS[u.g];
    let fr = &gr.frames[u.f];
    let part = "i";
    let setup: Vec<String> = PQ_SETUP.iter().map(|s| s.to_string()).collect();
    let mut world: Option<Light> = None;
    let n = fr.alpha.len();
    let mut idx = vec![0usize; u.len];
    idx[0] = u.t0;
    let mut toks: Vec<&str> = Vec::with_capacity(u.len);
    let mut text = String::with_capacity(128);
    let frame_class = format!("tokens:{}/{}", gr.name, fr.name);
    set_current(&format!("{} len={} t0={}", frame_class, u.len, fr.alpha[u.t0]));
    loop {
        toks.clear();
        text.clear();
        text.push_str(fr.pre);
        for (k, i) in idx.iter().enumerate() {
            if k > 0 {
                text.push(' ');
            }
            text.push_str(fr.alpha[*i]);
            toks.push(fr.alpha[*i]);
        }
        text.push_str(fr.post);
        out.evaluations += 1;
        let parsed = fast_parse(gr.kind, &text, model);
        match parsed {
            Ok(Err(e)) => {
                let oc = match &e {
                    LangError::Parser(_) => "reject:parse".to_string(),
                    o => format!("reject:semantic:{}", variant_name(o)),
                };
                let label = format!("i:{}:{}", gr.name, oc);
                match local.get_mut(&label) {
                    Some(c) => *c += 1,
                    None => {
                        local.insert(label, 1);
                    }
                }
                if oc != "reject:parse" {
                    out.state(&(part, &frame_class, &oc));
                    out.nontrivial(&(part, gr.name, &oc));
                }
            }
            Err(()) | Ok(Ok(())) => {
                // accepted (or the parser panicked): run it for real, in this unit's world
                HEARTBEAT.fetch_add(1, Ordering::Relaxed);
                let _ = take_panics();
                let feats = token_features(&toks);
                if gr.kind == "model" {
                    let class = format!("i|{}|{}", frame_class, feats);
                    let (m, results) = exercise_model(&text, "xa", "xf");
                    out.transitions += 1 + results.len() as u64;
                    let mut worst = m.oc.clone();
                    let mut bad: Vec<(Vec<String>, (String, String))> = vec![];
                    for s in symptoms_of(&m, &[]) {
                        bad.push((dims(&format!("{}|model", class)), s));
                    }
                    for (kind, _label, r) in &results {
                        if !is_ok(&r.oc) && !r.oc.starts_with("reject") {
                            worst = r.oc.clone();
                        }
                        for s in symptoms_of(r, &[]) {
                            bad.push((dims(&format!("{}|{}", class, kind)), s));
                        }
                    }
                    *local.entry(format!("i:model:accepted:{}", worst)).or_insert(0) += 1;
                    out.state(&(part, &text, &worst));
                    out.nontrivial(&(part, gr.name, &worst));
                    if out.samples.len() < 3 {
                        out.sample(json!({"part": "i", "grammar": gr.name, "frame": fr.name, "text": text, "outcome": worst}));
                    }
                    let mut seen = BTreeSet::new();
                    for (d, s) in bad {
                        if seen.insert((d.clone(), s.0.clone())) {
                            let t = text.clone();
                            let c = class.clone();
                            sink.put(d, false, vec![s], move || Case::Model {
                                text: t,
                                ent_alias: "xa".into(),
                                field_alias: "xf".into(),
                                class: c,
                            });
                        }
                    }
                } else {
                    if world.is_none() {
                        match Light::new(PQ_MODEL, &setup) {
                            Ok(l) => world = Some(l),
                            Err(e) => {
                                out.machinery_errors.push(format!("light world: {}", e));
                                return;
                            }
                        }
                    }
                    let has_var = toks.iter().any(|t| t.starts_with('$'));
                    // the text of an identifier has no meaning for the full text engine: not a search input
                    let is_search = toks.iter().any(|t| *t == "search(");
                    let profs: Vec<(&'static str, Pv)> = if has_var {
                        profiles().into_iter().filter(|p| !(is_search && p.0.starts_with("Id."))).collect()
                    } else {
                        vec![("none", Pv::Null)]
                    };
                    for (pname, pv) in profs {
                        let params: Vec<(String, Pv)> = if has_var {
                            vec![("v".to_string(), pv.clone()), ("w".to_string(), pv.clone())]
                        } else {
                            vec![]
                        };
                        let r = world.as_mut().unwrap().exec(gr.kind, &text, &params);
                        out.transitions += 1;
                        let class = format!("i|{}|{}|param={}", frame_class, feats, pname);
                        *local.entry(format!("i:{}:accepted:{}", gr.name, r.oc)).or_insert(0) += 1;
                        out.state(&(part, &text, pname, &r.oc));
                        out.nontrivial(&(part, gr.name, &r.oc));
                        if out.samples.len() < 3 && r.oc == "ok" {
                            out.sample(json!({"part": "i", "grammar": gr.name, "frame": fr.name, "text": text, "param": pname, "outcome": r.oc}));
                        }
                        let bad = symptoms_of(&r, &[]);
                        if !bad.is_empty() {
                            let case = StmtCase {
                                part: "i".into(),
                                model: PQ_MODEL.into(),
                                setup: setup.clone(),
                                kind: gr.kind.into(),
                                text: text.clone(),
                                params: params.clone(),
                                class: class.clone(),
                            };
                            sink.put(dims(&class), false, bad, move || Case::Stmt { case });
                            if !r.panics.is_empty() {
                                world = None; // a panic may leave the shared world in an odd state
                                if let Ok(l) = Light::new(PQ_MODEL, &setup) {
                                    world = Some(l);
                                }
                            }
                        }
                    }
                }
            }
        }
        // next sequence (positions 1.. vary, position 0 is fixed by the unit)
        let mut k = u.len;
        loop {
            if k == 1 {
                return;
            }
            k -= 1;
            idx[k] += 1;
            if idx[k] < n {
                break;
            }
            idx[k] = 0;
        }
    }
}

// ---------------------------------------------------------------------------------------------
// part (ii): parameter kind x field kind x position
// ---------------------------------------------------------------------------------------------

pub const T_MODEL: &str = "{ T { s_p: String, s_n: String nullable, s_d: String default \"d\", i_p: Integer, i_n: Integer nullable, i_d: Integer default 7, f_p: Float, f_n: Float nullable, f_d: Float default 1.5, b_p: Boolean, b_n: Boolean nullable, b_d: Boolean default true, x_p: Base64, x_n: Base64 nullable, x_d: Base64 default \"AAAA\", j_p: Json, j_n: Json nullable, j_d: Json default \"{\\\"k\\\":1}\", r: U nullable, rs: [U] nullable } U { name: String } Probe { v: String } }";
pub const T_REQUIRED: &str = "s_p: \"a\" i_p: 1 f_p: 1.5 b_p: true x_p: \"AAAA\" j_p: \"{}\"";
pub fn t_setup() -> Vec<String> {
    vec![
        "mutate { U { name: \"u zero\" } }".to_string(),
        "mutate { U { name: \"u one\" } }".to_string(),
        format!("mutate {{ T {{ {} s_n: \"txt\" i_n: 1 f_n: 1.5 b_n: true x_n: \"AAAA\" j_n: \"{{\\\"k\\\":1}}\" r: {{ id: \"@0@\" }} rs: [ {{ id: \"@1@\" }} ] }} }}", T_REQUIRED),
        format!("mutate {{ T {{ {} }} }}", T_REQUIRED),
    ]
}

/// (field name, kind.variant)
pub const T_FIELDS: &[(&str, &str)] = &[
    ("s_p", "String.plain"), ("s_n", "String.nullable"), ("s_d", "String.default"),
    ("i_p", "Integer.plain"), ("i_n", "Integer.nullable"), ("i_d", "Integer.default"),
    ("f_p", "Float.plain"), ("f_n", "Float.nullable"), ("f_d", "Float.default"),
    ("b_p", "Boolean.plain"), ("b_n", "Boolean.nullable"), ("b_d", "Boolean.default"),
    ("x_p", "Base64.plain"), ("x_n", "Base64.nullable"), ("x_d", "Base64.default"),
    ("j_p", "Json.plain"), ("j_n", "Json.nullable"), ("j_d", "Json.default"),
];
pub const SYS_FIELDS: &[&str] = &["id", "room_id", "cdate", "mdate", "verifying_key", "_entity", "_json", "_binary", "_signature", "sys_peer", "sys_room"];

pub fn pv_values() -> Vec<(&'static str, Pv)> {
    vec![
        ("Boolean", Pv::B(true)),
        ("Integer", Pv::I(1)),
        ("Integer.negative", Pv::I(-1)),
        ("Integer.max", Pv::I(i64::MAX)),
        ("Integer.min", Pv::I(i64::MIN)),
        ("Float", Pv::F("1.5".into())),
        ("Float.nan", Pv::F("nan".into())),
        ("Float.inf", Pv::F("inf".into())),
        ("String.text", Pv::S("txt".into())),
        ("String.empty", Pv::S(String::new())),
        ("String.quotes", Pv::S("it's \"q\" \\".into())),
        ("String.non-ascii", Pv::S("h\u{e9}llo \u{540d}\u{524d}".into())),
        ("String.nul", Pv::S("a\u{0}b".into())),
        ("String.base64", Pv::S("AAAA".into())),
        ("String.json-object", Pv::S("{\"k\":1}".into())),
        ("String.json-array", Pv::S("[1,2]".into())),
        ("String.json-scalar", Pv::S("1".into())),
        ("Binary.valid", Pv::Bin("AAAA".into())),
        ("Binary.invalid", Pv::Bin("!!".into())),
        ("Null", Pv::Null),
        ("Id.existing", Pv::Seed(MAIN_SEED)),
    ]
}

pub const LITERALS: &[(&str, &str)] = &[
    ("lit.String", "\"txt\""),
    ("lit.String.quote", "\"it's \\\"q\\\"\""),
    ("lit.String.base64", "\"AAAA\""),
    ("lit.String.json-object", "\"{\\\"k\\\":1}\""),
    ("lit.Integer", "1"),
    ("lit.Integer.negative", "-1"),
    ("lit.Integer.overflow", "99999999999999999999"),
    ("lit.Float", "1.5"),
    ("lit.Float.exp", "1.0e400"),
    ("lit.Boolean", "true"),
    ("lit.Null", "null"),
];

fn t_case(kind: &str, text: String, params: Vec<(String, Pv)>, class: String) -> StmtCase {
    StmtCase {
        part: "ii".into(),
        model: T_MODEL.into(),
        setup: t_setup(),
        kind: kind.into(),
        text,
        params,
        class,
    }
}

fn create_text(field: &str, value: &str) -> String {
    // the plain (required) fields are given literally, except the one under test
    let mut body = String::new();
    for part in ["s_p: \"a\"", "i_p: 1", "f_p: 1.5", "b_p: true", "x_p: \"AAAA\"", "j_p: \"{}\""] {
        if !part.starts_with(&format!("{}:", field)) {
            body.push_str(part);
            body.push(' ');
        }
    }
    format!("mutate {{ T {{ {} {}: {} }} }}", body, field, value)
}

pub fn param_cases() -> Vec<StmtCase> {
    let mut v = vec![];
    let values = pv_values();
    // positions that take a field: the value is a variable or a literal
    for (fname, fclass) in T_FIELDS {
        let mut forms: Vec<(String, String, Vec<(String, Pv)>)> = vec![]; // (value class, value text, params)
        for (vc, pv) in &values {
            forms.push((vc.to_string(), "$v".to_string(), vec![("v".to_string(), pv.clone())]));
        }
        forms.push(("Absent".into(), "$v".into(), vec![]));
        for (lc, lt) in LITERALS {
            forms.push((lc.to_string(), lt.to_string(), vec![]));
        }
        for (vc, vt, params) in forms {
            let with_id = |p: &Vec<(String, Pv)>| {
                let mut p = p.clone();
                p.push(("id".to_string(), Pv::Seed(MAIN_SEED)));
                p
            };
            v.push(t_case("mutation", create_text(fname, &vt), params.clone(), format!("ii|mutation-create|{}|{}", fclass, vc)));
            v.push(t_case(
                "mutation",
                format!("mutate {{ T {{ id: $id {}: {} }} }}", fname, vt),
                with_id(&params),
                format!("ii|mutation-update|{}|{}", fclass, vc),
            ));
            if fname.starts_with("j_") {
                // Json fields are filtered and selected through selectors
                v.push(t_case(
                    "query",
                    format!("query {{ T ({}->$.k = {}) {{ id a: {}->$.k b: {}->0 }} }}", fname, vt, fname, fname),
                    params.clone(),
                    format!("ii|json-filter|{}|{}", fclass, vc),
                ));
            }
            v.push(t_case(
                "query",
                format!("query {{ T ({} = {}) {{ id {} }} }}", fname, vt, fname),
                params.clone(),
                format!("ii|filter-eq|{}|{}", fclass, vc),
            ));
            v.push(t_case(
                "query",
                format!("query {{ T ({} >= {}) {{ id }} }}", fname, vt),
                params.clone(),
                format!("ii|filter-gte|{}|{}", fclass, vc),
            ));
            v.push(t_case(
                "query",
                format!("query {{ T (al != {}) {{ al: {} }} }}", vt, fname),
                params.clone(),
                format!("ii|filter-alias|{}|{}", fclass, vc),
            ));
            v.push(t_case(
                "query",
                format!("query {{ T (order_by({} asc), after({})) {{ id {} }} }}", fname, vt, fname),
                params.clone(),
                format!("ii|paging-after|{}|{}", fclass, vc),
            ));
            v.push(t_case(
                "query",
                format!("query {{ T (order_by(al desc, id asc), before({}, $id)) {{ id al: {} }} }}", vt, fname),
                with_id(&params),
                format!("ii|paging-before-alias|{}|{}", fclass, vc),
            ));
            v.push(t_case(
                "query",
                format!("query {{ T {{ id rs({} = {}) {{ name }} }} }}", "name", vt),
                params.clone(),
                format!("ii|sub-filter|String.plain|{}", vc),
            ));
        }
        // aggregates over the field
        for func in ["max", "min", "sum", "avg"] {
            v.push(t_case(
                "query",
                format!("query {{ T (c > $v) {{ c: count() m: {}({}) }} }}", func, fname),
                vec![("v".into(), Pv::I(0))],
                format!("ii|aggregate-{}|{}|Integer", func, fclass),
            ));
        }
        v.push(t_case(
            "query",
            format!("query {{ T (order_by({} desc), first 2, skip 1) {{ {} c: count() }} }}", fname, fname),
            vec![],
            format!("ii|group-by|{}|-", fclass),
        ));
    }
    // the sub-filter case above does not depend on the field: keep one copy per value class
    {
        let mut seen = BTreeSet::new();
        v.retain(|c| !c.class.starts_with("ii|sub-filter|") || seen.insert(c.class.clone()));
    }
    // system fields: filter, order, paging, selection, at top level and inside a sub entity
    for sf in SYS_FIELDS {
        for (vc, pv) in &values {
            v.push(t_case(
                "query",
                format!("query {{ T ({} = $v) {{ id }} }}", sf),
                vec![("v".into(), pv.clone())],
                format!("ii|filter-eq|system.{}|{}", sf, vc),
            ));
            v.push(t_case(
                "query",
                format!("query {{ T (order_by({} asc), after($v)) {{ id }} }}", sf),
                vec![("v".into(), pv.clone())],
                format!("ii|paging-after|system.{}|{}", sf, vc),
            ));
            v.push(t_case(
                "mutation",
                create_text(sf, "$v"),
                vec![("v".into(), pv.clone())],
                format!("ii|mutation-create|system.{}|{}", sf, vc),
            ));
        }
        v.push(t_case("query", format!("query {{ T {{ {} }} }}", sf), vec![], format!("ii|select|system.{}|-", sf)));
        v.push(t_case("query", format!("query {{ T {{ a: {} }} }}", sf), vec![], format!("ii|select-alias|system.{}|-", sf)));
        v.push(t_case("query", format!("query {{ T {{ {} {{ id }} }} }}", sf), vec![], format!("ii|select-sub|system.{}|-", sf)));
        v.push(t_case("query", format!("query {{ T (order_by({} desc), first 1) {{ id }} }}", sf), vec![], format!("ii|order|system.{}|-", sf)));
        v.push(t_case("query", format!("query {{ T {{ id rs(order_by({} asc)) {{ name }} }} }}", sf), vec![], format!("ii|sub-order|system.{}|-", sf)));
        v.push(t_case("query", format!("query {{ T {{ id rs({} != null) {{ name }} }} }}", sf), vec![], format!("ii|sub-filter-null|system.{}|-", sf)));
        v.push(t_case("query", format!("query {{ T {{ id r(order_by({} asc)) {{ name }} }} }}", sf), vec![], format!("ii|ref-order|system.{}|-", sf)));
        v.push(t_case("query", format!("query {{ T {{ m: max({}) c: count() }} }}", sf), vec![], format!("ii|aggregate-max|system.{}|-", sf)));
        v.push(t_case("query", format!("query {{ T (search(\"txt\"), {} != null) {{ id }} }}", sf), vec![], format!("ii|search-filter|system.{}|-", sf)));
    }
    // limit, search, deletion, reference positions: every value kind
    for (vc, pv) in &values {
        let p = vec![("v".to_string(), pv.clone())];
        v.push(t_case("query", "query { T (first $v) { id } }".into(), p.clone(), format!("ii|limit-first|-|{}", vc)));
        v.push(t_case("query", "query { T (skip $v) { id } }".into(), p.clone(), format!("ii|limit-skip|-|{}", vc)));
        v.push(t_case("query", "query { T { id rs(first $v, skip $v) { name } } }".into(), p.clone(), format!("ii|limit-sub|-|{}", vc)));
        if !vc.starts_with("Id.") {
            // the text of an identifier has no meaning for the full text engine: not a search input
            v.push(t_case("query", "query { T (search($v)) { id } }".into(), p.clone(), format!("ii|search|-|{}", vc)));
            v.push(t_case("query", "query { T { id rs(search($v)) { name } } }".into(), p.clone(), format!("ii|search-sub|-|{}", vc)));
        }
        v.push(t_case("deletion", "delete { T { $v } }".into(), p.clone(), format!("ii|delete-id|-|{}", vc)));
        let mut p2 = p.clone();
        p2.push(("id".into(), Pv::Seed(MAIN_SEED)));
        v.push(t_case("deletion", "delete { T { $id rs[$v] } }".into(), p2.clone(), format!("ii|delete-ref|-|{}", vc)));
        v.push(t_case("mutation", format!("mutate {{ T {{ {} r: {{ id: $v }} }} }}", T_REQUIRED), p.clone(), format!("ii|mutation-ref-id|-|{}", vc)));
        v.push(t_case("mutation", format!("mutate {{ T {{ {} rs: [{{ id: $v }}] }} }}", T_REQUIRED), p.clone(), format!("ii|mutation-array-id|-|{}", vc)));
        v.push(t_case("mutation", format!("mutate {{ T {{ {} room_id: $v }} }}", T_REQUIRED), p.clone(), format!("ii|mutation-room-id|-|{}", vc)));
    }
    // search texts of the full text engine
    for (sc, s) in [
        ("search.one-char", "a"),
        ("search.two-chars", "ab"),
        ("search.double-quote", "say \"hi"),
        ("search.star", "ab*"),
        ("search.operator", "abc AND"),
        ("search.paren", "(abc"),
        ("search.column", "text:abc"),
        ("search.minus", "-abc"),
        ("search.caret", "^abc"),
        ("search.plus", "abc + def"),
        ("search.near", "NEAR(abc def)"),
    ] {
        v.push(t_case("query", "query { T (search($v)) { id } }".into(), vec![("v".into(), Pv::S(s.into()))], format!("ii|search|-|{}", sc)));
    }
    for (lc, lt) in LITERALS {
        v.push(t_case("query", format!("query {{ T (search({})) {{ id }} }}", lt), vec![], format!("ii|search|-|{}", lc)));
        v.push(t_case("query", format!("query {{ T (first {}) {{ id }} }}", lt), vec![], format!("ii|limit-first|-|{}", lc)));
        v.push(t_case("mutation", format!("mutate {{ T {{ {} r: {} }} }}", T_REQUIRED, lt), vec![], format!("ii|mutation-ref|-|{}", lc)));
        v.push(t_case("mutation", format!("mutate {{ T {{ id: $id rs: {} }} }}", lt), vec![("id".into(), Pv::Seed(MAIN_SEED))], format!("ii|mutation-array|-|{}", lc)));
        v.push(t_case("query", format!("query {{ T (r = {}) {{ id r {{ name }} }} }}", lt), vec![], format!("ii|filter-ref|-|{}", lc)));
        v.push(t_case("query", format!("query {{ T (rs != {}, nullable(rs)) {{ id rs {{ name }} }} }}", lt), vec![], format!("ii|filter-array|-|{}", lc)));
    }
    // feature combinations of one query: selection shape x filter x ordering / paging (every pair of options the
    // compiler assembles into one SQL statement: WHERE, GROUP BY, HAVING, ORDER BY, LIMIT)
    {
        let selections: [(&str, &str); 5] = [
            ("plain", "id s_p"),
            ("group-count", "s_p c: count()"),
            ("group-max", "s_p c: max(i_p)"),
            ("count-only", "c: count()"),
            ("with-sub", "id s_p rs { name }"),
        ];
        let filters: [(&str, &str); 5] = [
            ("none", ""),
            ("field", "i_p >= 0"),
            ("aggregate", "c > 0"),
            ("search", "search(\"txt\")"),
            ("field+aggregate", "i_p >= 0, c > 0"),
        ];
        let pagings: [(&str, &str); 9] = [
            ("none", ""),
            ("order", "order_by(s_p asc)"),
            ("first", "order_by(s_p asc), first 2"),
            ("first-skip", "order_by(s_p desc), first 2, skip 1"),
            ("after", "order_by(s_p asc), after(\"a\")"),
            ("before", "order_by(s_p asc), before(\"z\")"),
            ("after-param", "order_by(s_p desc), after($v)"),
            ("before-param", "order_by(s_p desc), before($v)"),
            ("before-first", "order_by(s_p asc), before(\"z\"), first 1"),
        ];
        for (sn, sel) in selections {
            for (fnm, fil) in filters {
                for (pn, pag) in pagings {
                    if fnm.contains("aggregate") && !sel.contains("c:") {
                        continue;
                    }
                    if *sn == *"count-only" && *pn != *"none" {
                        // nothing selected to order by
                        continue;
                    }
                    let opts: Vec<&str> = [fil, pag].into_iter().filter(|x| !x.is_empty()).collect();
                    let head = if opts.is_empty() { String::new() } else { format!("({})", opts.join(", ")) };
                    let params = if pag.contains("$v") { vec![("v".to_string(), Pv::S("m".into()))] } else { vec![] };
                    v.push(t_case("query", format!("query {{ T {} {{ {} }} }}", head, sel), params, format!("ii|combo|{}|{}+{}", sn, fnm, pn)));
                }
            }
        }
    }
    // an extra, unknown parameter is ignored or refused, never fatal
    v.push(t_case("query", "query { T { id } }".into(), vec![("zz".into(), Pv::I(1))], "ii|extra-parameter|-|Integer".into()));
    v
}

// ---------------------------------------------------------------------------------------------
// part (iii): identifiers
// ---------------------------------------------------------------------------------------------

/// the engine's own keyword list (sqlite3_keyword_name), the C API is part of the bundled library
pub fn sqlite_keywords() -> Vec<String> {
    let mut v = vec![];
    unsafe {
        let n = rusqlite::ffi::sqlite3_keyword_count();
        for i in 0..n {
            let mut p: *const std::os::raw::c_char = std::ptr::null();
            let mut len: std::os::raw::c_int = 0;
            if rusqlite::ffi::sqlite3_keyword_name(i, &mut p, &mut len) == 0 && !p.is_null() {
                let s = std::slice::from_raw_parts(p as *const u8, len as usize);
                v.push(String::from_utf8_lossy(s).to_lowercase());
            }
        }
    }
    v.sort();
    v.dedup();
    v
}

pub fn identifiers() -> Vec<(String, String)> {
    let mut v: Vec<(String, String)> = vec![("abc".into(), "plain".into())];
    for k in sqlite_keywords() {
        v.push((k, "sql-keyword".into()));
    }
    for k in ["Order", "GROUP", "Select"] {
        v.push((k.into(), "sql-keyword".into()));
    }
    for k in ["1a", "9z9", "7", "007"] {
        v.push((k.into(), "digit-first".into()));
    }
    for k in ["_a", "_"] {
        v.push((k.into(), "underscore-first".into()));
    }
    for k in ["\u{e9}t\u{e9}", "\u{540d}\u{524d}", "\u{d1}and\u{fa}", "a\u{300}", "\u{0661}\u{0662}"] {
        v.push((k.into(), "non-ascii".into()));
    }
    v.push(("a".into(), "length-1".into()));
    v.push(("a".repeat(64), "length-64".into()));
    for k in [
        "query", "mutate", "delete", "first", "skip", "search", "order_by", "asc", "desc", "after", "before", "nullable", "default", "index", "null", "true", "false", "count", "avg", "max",
        "min", "sum", "value", "rank", "rowid", "_node", "json", "string", "id", "room_id", "cdate", "mdate", "sys",
    ] {
        if !v.iter().any(|x| x.0 == k) {
            v.push((k.into(), "language-keyword".into()));
        }
    }
    v
}

pub const ROLES: &[&str] = &[
    "namespace", "entity", "namespaced-entity", "field", "field-default", "field-json", "field-ref", "field-array", "ref-target", "entity-alias", "field-alias", "request-name", "variable-name",
];

/// the case for one identifier in one role: either a model to exercise or a list of requests on a fixed model
pub fn ident_case(ident: &str, class: &str, role: &str) -> Vec<Case> {
    let kc = format!("iii|{}|{}", role, class);
    let model = |text: String, ea: &str, fa: &str| Case::Model {
        text,
        ent_alias: ea.to_string(),
        field_alias: fa.to_string(),
        class: kc.clone(),
    };
    match role {
        "namespace" => vec![model(format!("{} {{ E {{ a: String, n: Integer default 1, r: {}.F nullable }} F {{ name: String }} }}", ident, ident), "xa", "xf")],
        "entity" => vec![model(format!("{{ {} {{ a: String, n: Integer default 1 }} }}", ident), "xa", "xf")],
        "namespaced-entity" => vec![model(format!("ns {{ {} {{ a: String, n: Integer default 1 }} }}", ident), "xa", "xf")],
        "field" => vec![model(format!("{{ E {{ {}: String, n: Integer default 1, index({}, n) }} }}", ident, ident), "xa", "xf")],
        "field-default" => vec![model(format!("{{ E {{ {}: String default \"d\", n: Integer }} }}", ident), "xa", "xf")],
        "field-json" => vec![model(format!("{{ E {{ a: String, {}: Json nullable }} }}", ident), "xa", "xf")],
        "field-ref" => vec![model(format!("{{ E {{ a: String, {}: F nullable }} F {{ name: String }} }}", ident), "xa", "xf")],
        "field-array" => vec![model(format!("{{ E {{ a: String, {}: [F] }} F {{ name: String }} }}", ident), "xa", "xf")],
        "ref-target" => vec![model(format!("{{ E {{ a: String, r: {} , rs: [{}] nullable }} {} {{ name: String }} }}", ident, ident, ident), "xa", "xf")],
        "entity-alias" => vec![model("{ E { a: String, r: F nullable } F { name: String } }".to_string(), ident, "xf")],
        "field-alias" => vec![model("{ E { a: String, r: F nullable } F { name: String } }".to_string(), "xa", ident)],
        "request-name" | "variable-name" => {
            let m = "{ E { a: String } }";
            let setup = vec!["mutate { E { a: \"one\" } }".to_string()];
            let (qn, var) = if role == "request-name" { (ident, "v") } else { ("", ident) };
            let mk = |kind: &str, text: String, params: Vec<(String, Pv)>| Case::Stmt {
                case: StmtCase {
                    part: "iii".into(),
                    model: m.into(),
                    setup: setup.clone(),
                    kind: kind.into(),
                    text,
                    params,
                    class: format!("{}|{}", kc, kind),
                },
            };
            vec![
                mk("query", format!("query {} {{ E (a = ${}) {{ a }} }}", qn, var), vec![(var.to_string(), Pv::S("one".into()))]),
                mk("mutation", format!("mutate {} {{ E {{ a: ${} }} }}", qn, var), vec![(var.to_string(), Pv::S("two".into()))]),
                mk("deletion", format!("delete {} {{ E {{ ${} }} }}", qn, var), vec![(var.to_string(), Pv::Seed(0))]),
            ]
        }
        _ => vec![],
    }
}

// ---------------------------------------------------------------------------------------------
// work units, sharding, folding, confirmation, replay
// ---------------------------------------------------------------------------------------------

pub enum Unit {
    Tokens(TokenUnit),
    ParamsLight(usize, usize),
    Idents(usize, usize),
    Full(&'static str, Vec<c14_full::FullCase>),
    Wire,
}

const FULL_CHUNK: usize = 120;
const LIGHT_CHUNK: usize = 600;
const IDENT_CHUNK: usize = 8;

pub fn units(tier: Tier) -> (Vec<Unit>, Vec<StmtCase>, Vec<(String, String)>) {
    let params = param_cases();
    let idents = identifiers();
    let mut v = vec![];
    // long running first, then the rest in a fixed order; the assignment to shards is round robin
    v.push(Unit::Wire);
    let mut full: Vec<(&'static str, Vec<c14_full::FullCase>)> = vec![];
    let pf: Vec<c14_full::FullCase> = params.iter().map(|c| c14_full::FullCase::Stmt { case: c.clone() }).collect();
    for ch in pf.chunks(FULL_CHUNK) {
        full.push(("v-params", ch.to_vec()));
    }
    for ch in c14_full::row_cases().chunks(FULL_CHUNK / 2) {
        full.push(("v-rows", ch.to_vec()));
    }
    for ch in c14_full::inbound_cases().chunks(FULL_CHUNK / 2) {
        full.push(("v-inbound", ch.to_vec()));
    }
    for ch in c14_full::invite_cases().chunks(FULL_CHUNK * 2) {
        full.push(("v-invite", ch.to_vec()));
    }
    full.push(("v-model-update", c14_full::model_update_cases()));
    for (p, c) in full {
        v.push(Unit::Full(p, c));
    }
    let mut i = 0;
    while i < params.len() {
        v.push(Unit::ParamsLight(i, (i + LIGHT_CHUNK).min(params.len())));
        i += LIGHT_CHUNK;
    }
    let mut i = 0;
    while i < idents.len() {
        v.push(Unit::Idents(i, (i + IDENT_CHUNK).min(idents.len())));
        i += IDENT_CHUNK;
    }
    let max_len = tier.pick(4, 5);
    let mut tu = token_units(max_len);
    // the longest sequences dominate: spread them first
    tu.sort_by(|a, b| b.len.cmp(&a.len).then(a.g.cmp(&b.g)).then(a.f.cmp(&b.f)).then(a.t0.cmp(&b.t0)));
    for t in tu {
        v.push(Unit::Tokens(t));
    }
    (v, params, idents)
}

fn run_params_light(cases: &[StmtCase], out: &mut Outcome, sink: &mut Sink) {
    let setup = t_setup();
    let mut l = match Light::new(T_MODEL, &setup) {
        Ok(l) => l,
        Err(e) => {
            out.machinery_errors.push(format!("T world: {}", e));
            return;
        }
    };
    for c in cases {
        set_current(&c.class);
        let r = l.exec(&c.kind, &c.text, &c.params);
        out.transitions += 1;
        tally(out, "ii", &c.class, &r.oc);
        if out.samples.len() < 2 && r.oc == "ok" {
            out.sample(json!({"part": "ii", "world": "light", "class": c.class, "text": c.text, "outcome": r.oc}));
        }
        let bad = symptoms_of(&r, &[]);
        let panicked = !r.panics.is_empty();
        let cc = c.clone();
        sink.put(dims(&c.class), is_ok(&r.oc), bad, move || Case::Stmt { case: cc });
        if panicked {
            // a panic may leave the shared world in an odd state: start again
            if let Ok(n) = Light::new(T_MODEL, &setup) {
                l = n;
            }
        }
    }
}

fn run_idents(idents: &[(String, String)], out: &mut Outcome, sink: &mut Sink) {
    for (ident, class) in idents {
        for role in ROLES {
            for case in ident_case(ident, class, role) {
                set_current(&format!("iii {} {}", role, class));
                match &case {
                    Case::Model { text, ent_alias, field_alias, class: kc } => {
                        let (m, results) = exercise_model(text, ent_alias, field_alias);
                        out.transitions += 1 + results.len() as u64;
                        tally(out, "iii", &format!("{}|model", kc), &m.oc);
                        let c1 = case.clone();
                        sink.put(dims(&format!("{}|model", kc)), is_ok(&m.oc), symptoms_of(&m, &[]), move || c1);
                        for (kind, label, r) in &results {
                            tally(out, "iii", &format!("{}|{}|{}", kc, kind, label), &r.oc);
                            let c2 = case.clone();
                            sink.put(dims(&format!("{}|{}", kc, kind)), is_ok(&r.oc), symptoms_of(r, &[]), move || c2);
                        }
                    }
                    Case::Stmt { case: sc } => {
                        let mut l = match Light::new(&sc.model, &sc.setup) {
                            Ok(l) => l,
                            Err(e) => {
                                out.machinery_errors.push(e);
                                continue;
                            }
                        };
                        let r = l.exec(&sc.kind, &sc.text, &sc.params);
                        out.transitions += 1;
                        tally(out, "iii", &sc.class, &r.oc);
                        let c2 = case.clone();
                        sink.put(dims(&sc.class), is_ok(&r.oc), symptoms_of(&r, &[]), move || c2);
                    }
                    _ => {}
                }
            }
        }
    }
}

fn matches(pattern: &[String], d: &[String]) -> bool {
    pattern.len() == d.len() && pattern.iter().zip(d.iter()).all(|(p, x)| p == "*" || p == x)
}

/// Findings of the whole run from the records of all shards.
/// Token part: a witness whose features are a superset of the features of another witness of the
/// same (symptom, frame) is the same defect seen through a longer request.
/// Other parts: a dimension of the class is replaced by `*` when no successfully answered case of
/// the run matches the widened class (that dimension does not matter for the defect).
pub fn fold(records: &[Record]) -> Vec<(String, String, Case, u64, String)> {
    // (folded key, what, witness case, number of cases, raw key of the witness)
    let mut ok: BTreeSet<Vec<String>> = BTreeSet::new();
    for r in records {
        if r.ok {
            ok.insert(r.d.clone());
        }
    }
    // symptom -> list of (dims, what, case), in a fixed order: fewer features / simpler class first
    let mut by_symptom: BTreeMap<String, Vec<(Vec<String>, String, Case)>> = BTreeMap::new();
    for r in records {
        for (s, what) in &r.bad {
            if let Some(c) = &r.case {
                by_symptom.entry(s.clone()).or_default().push((r.d.clone(), what.clone(), c.clone()));
            }
        }
    }
    let mut found: Vec<(String, String, Case, u64, String)> = vec![];
    for (symptom, mut list) in by_symptom {
        list.sort_by(|a, b| a.0.cmp(&b.0).then(a.1.cmp(&b.1)));
        let mut groups: Vec<(Vec<String>, String, Case, u64, String)> = vec![];
        // token part: features = token features + the parameter profile (when there is a variable)
        fn feats(d: &[String]) -> BTreeSet<String> {
            let mut f: BTreeSet<String> = d[2].split('+').filter(|s| !s.is_empty()).map(|s| s.to_string()).collect();
            for x in &d[3..] {
                if x.starts_with("param=") && x != "param=none" {
                    f.insert(x.clone());
                }
            }
            f
        }
        fn rest(d: &[String]) -> Vec<String> {
            d[3..].iter().filter(|x| !x.starts_with("param=")).cloned().collect()
        }
        let mut tokens: Vec<&(Vec<String>, String, Case)> = list.iter().filter(|x| x.0[0] == "i").collect();
        tokens.sort_by(|a, b| feats(&a.0).len().cmp(&feats(&b.0).len()).then(a.0.cmp(&b.0)));
        for (d, what, case) in tokens {
            let f = feats(d);
            let hit = groups.iter_mut().find(|g| g.0[0] == "i" && g.0[1] == d[1] && rest(&g.0) == rest(d) && feats(&g.0).is_subset(&f));
            match hit {
                Some(g) => g.3 += 1,
                None => groups.push((d.clone(), what.clone(), case.clone(), 1, format!("{}|{}", symptom, d.join("|")))),
            }
        }
        // other parts
        for (d, what, case) in list.iter().filter(|x| x.0[0] != "i") {
            if let Some(g) = groups.iter_mut().find(|g| g.0[0] != "i" && matches(&g.0, d)) {
                g.3 += 1;
                continue;
            }
            let mut pat = d.clone();
            for k in (1..pat.len()).rev() {
                let saved = pat[k].clone();
                pat[k] = "*".to_string();
                if ok.iter().any(|o| matches(&pat, o)) {
                    pat[k] = saved;
                }
            }
            groups.push((pat, what.clone(), case.clone(), 1, format!("{}|{}", symptom, d.join("|"))));
        }
        for (pat, what, case, n, raw) in groups {
            found.push((format!("{}|{}", symptom, pat.join("|")), what, case, n, raw));
        }
    }
    found.sort_by(|a, b| a.0.cmp(&b.0));
    found
}

/// run every witness twice in fresh worlds, in child processes (the panic hook is process wide)
fn confirm_all(found: &[(String, String, Case, u64, String)], dir: &str) -> Vec<Result<(), String>> {
    let exe = std::env::current_exe().unwrap();
    let mut results: Vec<Result<(), String>> = vec![Ok(()); found.len()];
    let par = ncpu().min(16).max(1);
    let mut next = 0usize;
    let mut running: Vec<(usize, std::process::Child)> = vec![];
    while next < found.len() || !running.is_empty() {
        while next < found.len() && running.len() < par {
            let j = next;
            next += 1;
            let path = format!("{}/confirm-{}.json", dir, j);
            let body = json!({"key": found[j].4, "replay": serde_json::to_value(&found[j].2).unwrap()});
            let _ = std::fs::write(&path, body.to_string());
            match std::process::Command::new(&exe)
                .arg("C14")
                .arg("--replay")
                .arg(&path)
                .stdout(std::process::Stdio::null())
                .stderr(std::process::Stdio::null())
                .spawn()
            {
                Ok(c) => running.push((j, c)),
                Err(e) => results[j] = Err(e.to_string()),
            }
        }
        let mut k = 0;
        let mut progressed = false;
        while k < running.len() {
            match running[k].1.try_wait() {
                Ok(Some(status)) => {
                    let (j, _) = running.remove(k);
                    progressed = true;
                    let code = status.code().unwrap_or(-1);
                    if code != 1 {
                        results[j] = Err(format!("exit code {} (1 = reproduced twice, 0 = not reproduced, 2 = the two rounds differ)", code));
                    }
                }
                Ok(None) => k += 1,
                Err(e) => {
                    let (j, _) = running.remove(k);
                    results[j] = Err(e.to_string());
                }
            }
        }
        if !progressed {
            std::thread::sleep(std::time::Duration::from_millis(5));
        }
    }
    results
}

fn replay(path: &str) -> i32 {
    install_hook();
    start_watchdog(120);
    set_clock(T0);
    let text = std::fs::read_to_string(path).expect("replay file");
    let v: Value = serde_json::from_str(&text).expect("json");
    let r = if v["replay"].get("case").is_some() && v["replay"].get("raw_key").is_some() {
        v["replay"].clone()
    } else {
        json!({"case": v["replay"].clone(), "raw_key": v["key"].clone()})
    };
    let case: Case = match serde_json::from_value(r["case"].clone()) {
        Ok(c) => c,
        Err(e) => {
            eprintln!("cannot read the case: {}", e);
            return 2;
        }
    };
    let wanted = r["raw_key"].as_str().unwrap_or("").to_string();
    println!("case: {}", serde_json::to_string(&case).unwrap());
    let mut all = vec![];
    for round in 1..=2 {
        let keys = eval_fresh(&case);
        println!("replay round {}: {} finding(s)", round, keys.len());
        for (k, what) in &keys {
            println!("  raw key={} :: {}", k, what);
        }
        let mut ks = keys.into_iter().map(|k| k.0).collect::<Vec<_>>();
        ks.sort();
        all.push(ks);
    }
    if all[0] != all[1] {
        println!("replay divergence between the two rounds");
        return 2;
    }
    if all[0].contains(&wanted) {
        println!("reproduced: {}", wanted);
        1
    } else {
        println!("not reproduced: {}", wanted);
        0
    }
}

pub fn run(args: &Args) -> i32 {
    if let Some(p) = &args.replay {
        return replay(p);
    }
    if args.extra.first().map(|s| s.as_str()) == Some("--wire-child") {
        let from: u64 = args.extra.get(1).and_then(|s| s.parse().ok()).unwrap_or(0);
        let to: Option<u64> = args.extra.get(2).and_then(|s| s.parse().ok());
        let progress = args.extra.get(3).cloned().unwrap_or_else(|| "/tmp/c14-wire-progress".into());
        let careful = args.extra.get(4).map(|s| s == "careful").unwrap_or(false);
        return c14_full::wire_child(from, to, &progress, careful);
    }
    let start = Instant::now();
    if let Some((i, n)) = args.shard {
        install_hook();
        start_watchdog(120);
        set_clock(T0);
        let root = scratch_root();
        let _g = ScratchGuard(root.clone());
        let mut out = Outcome::default();
        let mut sink = Sink::open(i);
        let (units, params, idents) = units(args.tier);
        let mut local: BTreeMap<String, u64> = BTreeMap::new();
        let mut timing: BTreeMap<&str, f64> = BTreeMap::new();
        let rt = crate::world::runtime();
        let pq = match crate::light::new_model(PQ_MODEL) {
            Ok(m) => m,
            Err(e) => {
                out.machinery_errors.push(format!("PQ model: {}", e));
                emit_shard_outcome(&out);
                return 0;
            }
        };
        for (ui, u) in units.iter().enumerate() {
            if ui % n != i {
                continue;
            }
            let t_unit = Instant::now();
            let kind_name = match u {
                Unit::Tokens(_) => "tokens",
                Unit::ParamsLight(..) => "params-light",
                Unit::Idents(..) => "idents",
                Unit::Full(p, _) => p,
                Unit::Wire => "wire",
            };
            match u {
                Unit::Tokens(t) => run_token_unit(t, &mut out, &mut local, &mut sink, &pq),
                Unit::ParamsLight(a, b) => run_params_light(&params[*a..*b], &mut out, &mut sink),
                Unit::Idents(a, b) => run_idents(&idents[*a..*b], &mut out, &mut sink),
                Unit::Full(part, cases) => {
                    let r = rt.block_on(async { c14_full::run_full_unit(part, cases, &mut out, &mut sink, &root).await });
                    if let Err(e) = r {
                        out.machinery_errors.push(format!("full world unit {}: {}", part, e));
                    }
                }
                Unit::Wire => c14_full::run_wire(&mut out),
            }
            *timing.entry(kind_name).or_insert(0.0) += t_unit.elapsed().as_secs_f64();
        }
        if std::env::var("C14_TIMING").is_ok() {
            eprintln!("shard {} timing {:?} total {:.1}", i, timing, start.elapsed().as_secs_f64());
        }
        for (k, c) in local {
            *out.outcomes.entry(k).or_insert(0) += c;
        }
        sink.close();
        out.notes.sort();
        out.notes.dedup();
        out.notes.truncate(10);
        emit_shard_outcome(&out);
        return 0;
    }
    let side = scratch_root().join("side");
    let _g = ScratchGuard(scratch_root());
    let _ = std::fs::create_dir_all(&side);
    let side_s = side.to_string_lossy().to_string();
    std::env::set_var("C14_SIDE_DIR", &side_s);
    let shards = ncpu().min(16);
    let mut out = run_sharded(args, shards);
    // the records of all shards, in shard order
    let mut records: Vec<Record> = vec![];
    for i in 0..shards {
        if let Ok(text) = std::fs::read_to_string(format!("{}/shard-{}.jsonl", side_s, i)) {
            for line in text.lines() {
                match serde_json::from_str::<Record>(line) {
                    Ok(r) => records.push(r),
                    Err(e) => out.machinery_errors.push(format!("unreadable record of shard {}: {}", i, e)),
                }
            }
        } else {
            out.machinery_errors.push(format!("no record file of shard {}", i));
        }
    }
    let found = fold(&records);
    let confirmed = confirm_all(&found, &side_s);
    for ((key, what, case, n, raw), c) in found.iter().zip(confirmed.iter()) {
        match c {
            Ok(()) => {
                out.violation(key.clone(), what.clone(), json!({"raw_key": raw, "case": serde_json::to_value(case).unwrap()}));
                if *n > 1 {
                    *out.outcomes.entry(format!("viol:{}", key)).or_insert(0) += n - 1;
                }
            }
            Err(e) => {
                out.count(&format!("unreproduced:{}", key));
                out.machinery_errors.push(format!("replay divergence: {} (witness {}) was seen in the enumeration, two fresh re-runs: {}", key, raw, e));
            }
        }
    }
    let max_len = args.tier.pick(4, 5);
    let mut alpha = serde_json::Map::new();
    for g in GRAMMARS {
        for f in g.frames {
            alpha.insert(format!("{}/{}", g.name, f.name), json!({"frame": format!("{}<tokens>{}", f.pre, f.post), "alphabet": f.alpha}));
        }
    }
    let kw = sqlite_keywords().len();
    let meta = CheckMeta {
        prop: "C14",
        level: "model_checking",
        rule: "E-SHAPE, every case under catch_unwind + a process wide panic hook (thread, location): (i) every token sequence up to the length bound over the listed alphabet of each syntactic frame of the four grammars -> real parser, accepted ones executed in the light world with 8 parameter profiles; (ii) field kind x {plain,nullable,default} x parameter kind / literal kind x position (create, update, filter, alias filter, paging, limit, search, json selector, aggregate, deletion, reference), light world and full world; (iii) identifier class x role -> model + generated requests; (iv) bincode decode of 22 protocol types (all strings of length <= 2, every truncation, byte change and length inflation of valid encodings, in a child process), rows x key length x signature length x content variant x path, protocol queries through the real serving routine, invitation bytes; (v) on the full-world instance a probe (mutation, query, signature verification, reader pool head count) after each input. states = distinct (input class, outcome); non trivial = distinct (part, outcome). Finding key = symptom (panic location | engine error class | probe symptom) + input class; a class dimension is `*` when no successfully answered case matches the widened class".into(),
        bounds: json!({
            "token_length_max": max_len,
            "frames": Value::Object(alpha),
            "parameter_profiles_per_accepted_statement": profiles().len(),
            "parameter_cases": param_cases().len(),
            "parameter_values": pv_values().iter().map(|p| p.0).collect::<Vec<_>>(),
            "literal_kinds": LITERALS.iter().map(|p| p.0).collect::<Vec<_>>(),
            "identifiers": identifiers().len(),
            "engine_keywords": kw,
            "identifier_roles": ROLES,
            "wire_types": c14_full::WIRE_TYPES,
            "wire_cases": c14_full::WireSpace::new().total,
            "row_cases": c14_full::row_cases().len(),
            "key_lengths": c14_full::KEY_LENS,
            "signature_lengths": c14_full::SIG_LENS,
            "row_variants": c14_full::ROW_VARIANTS,
            "inbound_cases": c14_full::inbound_cases().len(),
            "invite_cases": c14_full::invite_cases().len(),
            "reader_threads": c14_full::READERS,
        }),
        assumptions: vec![
            "hangs are looked for with a time limit of 30 s per service call (a failed probe without a recorded panic is asked a second time) and a 120 s watchdog on synchronous calls".into(),
            "the QUIC stream framing of endpoint.rs is exercised at the decode layer only (bincode from a slice, as the endpoint does after reading a frame)".into(),
            "accept_invite is exercised through its three input dependent steps (decode, application check, Invite::insert) on the real service, without a PeerManager".into(),
            "the light world calls the real phase functions in pipeline order; the full world is the real service".into(),
            "a request accepted by the parser, the semantic validation and the parameter validation counts as valid for the language and the model".into(),
        ],
        exhaustive_claim: true,
    };
    finish(args, &meta, &out, start)
}
