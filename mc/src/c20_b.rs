//! C20 part B — exit paths of a room synchronisation task.
//!
//! Two real `LocalPeerService::start` connection tasks of one instance L share one real `RoomLockService`.
//! The harness is the remote side of both: it receives their protocol queries, answers them (honest answers
//! come from the real `process_inbound` over the real database of a second instance R), withholds them,
//! answers with an error, closes the event channel or the answer channel. Every order of these driver events
//! up to the bound is executed on a fresh pair of connections.
use crate::common::*;
use crate::rooms::MODEL;
use crate::world::*;
use discret::verif::database::query_language::parameter::{Parameters, ParametersAdd};
use discret::verif::database::system_entities::{AllowedPeer, Peer};
use discret::verif::event_service::Event;
use discret::verif::network::peer_manager::TokenType;
use discret::verif::network::ConnectionInfo;
use discret::verif::security::{HardwareFingerprint, Uid};
use discret::verif::synchronisation::peer_inbound_service::{LocalPeerService, QueryService};
use discret::verif::synchronisation::peer_outbound_service::{InboundQueryService, RemotePeerHandle};
use discret::verif::synchronisation::room_locking_service::RoomLockService;
use discret::verif::synchronisation::{Answer, Error as SyncError, LocalEvent, Query, QueryProtocol, RemoteEvent};
use serde_json::{json, Value};
use std::collections::{BTreeMap, HashSet, VecDeque};
use std::path::PathBuf;
use std::sync::atomic::AtomicBool;
use std::sync::Arc;
use std::time::Duration;
use tokio::sync::{broadcast, mpsc, Mutex};

/// driver events; `c` is the connection (0 or 1)
#[derive(Clone, Copy, Debug, PartialEq, Eq, Hash, PartialOrd, Ord)]
pub enum BEv {
    /// the remote side announces it is ready: the connection asks for the room list
    Ready(u8),
    /// the oldest unanswered query of the connection is answered honestly (completely)
    Ans(u8),
    /// the room list query gets its list but not yet its completion marker
    Part(u8),
    /// the oldest unanswered query of the connection is answered with an error
    Err(u8),
    /// the remote_event channel of the connection is closed
    CloseEv(u8),
    /// the answer channel (and query channel) of the connection is closed
    CloseAns(u8),
    /// the remote side announces new data in the room (a further request of the same room)
    Changed(u8),
}
impl BEv {
    pub fn show(&self) -> String {
        match self {
            BEv::Ready(c) => format!("ready({})", c),
            BEv::Ans(c) => format!("answer({})", c),
            BEv::Part(c) => format!("partial_room_list({})", c),
            BEv::Err(c) => format!("error_answer({})", c),
            BEv::CloseEv(c) => format!("close_events({})", c),
            BEv::CloseAns(c) => format!("close_answers({})", c),
            BEv::Changed(c) => format!("room_data_changed({})", c),
        }
    }
    pub fn parse(s: &str) -> Option<BEv> {
        let (name, rest) = s.split_once('(')?;
        let c: u8 = rest.trim_end_matches(')').parse().ok()?;
        Some(match name {
            "ready" => BEv::Ready(c),
            "answer" => BEv::Ans(c),
            "partial_room_list" => BEv::Part(c),
            "error_answer" => BEv::Err(c),
            "close_events" => BEv::CloseEv(c),
            "close_answers" => BEv::CloseAns(c),
            "room_data_changed" => BEv::Changed(c),
            _ => return None,
        })
    }
    fn conn(&self) -> usize {
        match self {
            BEv::Ready(c) | BEv::Ans(c) | BEv::Part(c) | BEv::Err(c) | BEv::CloseEv(c) | BEv::CloseAns(c) | BEv::Changed(c) => *c as usize,
        }
    }
}

pub struct BWorld {
    pub l: FPeer,
    pub r: FPeer,
    pub room: Uid,
    events: broadcast::Receiver<Event>,
}

pub async fn build_world(root: &PathBuf) -> Result<BWorld, String> {
    set_clock(T0 + 3_600_000);
    let l = FPeer::start("L", 1, MODEL, root).await?;
    let r = FPeer::start("R", 2, MODEL, root).await?;
    let mut p = Parameters::default();
    p.add("adm", b64(&r.verifying_key)).map_err(|e| e.to_string())?;
    p.add("u", b64(&l.verifying_key)).map_err(|e| e.to_string())?;
    let q = r
        .db
        .mutate_raw(
            "mutate { sys.Room { admin:[{verif_key:$adm}] authorisations:[{ name:\"g0\" rights:[{entity:\"ns.P\" mutate_self:true mutate_all:true}] users:[{verif_key:$u}] }] } }",
            Some(p),
        )
        .await
        .map_err(|e| format!("room: {}", e))?;
    let room = q.mutate_entities[0].node_to_mutate.id;
    r.barrier().await;
    let mut p = Parameters::default();
    p.add("room", b64(&room)).map_err(|e| e.to_string())?;
    r.mutate("mutate { ns.P { room_id:$room name:\"x\" } }", Some(p)).await?;
    r.barrier().await;
    // L gets everything once, so that every explored pull is the same "nothing new" pull
    for _ in 0..2 {
        let st = pull(&l, &r, room, PullOpts::default()).await;
        if !st.ok {
            return Err(format!("preparation pull failed: {:?}", st.error));
        }
    }
    let events = l.subscribe().await;
    Ok(BWorld { l, r, room, events })
}

/// the same world with a second room shared by both devices: one room list then asks for two locks at once
pub async fn build_world_two_rooms(root: &PathBuf) -> Result<BWorld, String> {
    let w = build_world(root).await?;
    let mut p = Parameters::default();
    p.add("adm", b64(&w.r.verifying_key)).map_err(|e| e.to_string())?;
    p.add("u", b64(&w.l.verifying_key)).map_err(|e| e.to_string())?;
    let q = w
        .r
        .db
        .mutate_raw(
            "mutate { sys.Room { admin:[{verif_key:$adm}] authorisations:[{ name:\"g0\" rights:[{entity:\"ns.P\" mutate_self:true mutate_all:true}] users:[{verif_key:$u}] }] } }",
            Some(p),
        )
        .await
        .map_err(|e| format!("room: {}", e))?;
    let room2 = q.mutate_entities[0].node_to_mutate.id;
    w.r.barrier().await;
    let mut p = Parameters::default();
    p.add("room", b64(&room2)).map_err(|e| e.to_string())?;
    w.r.mutate("mutate { ns.P { room_id:$room name:\"y\" } }", Some(p)).await?;
    w.r.barrier().await;
    for _ in 0..2 {
        let st = pull(&w.l, &w.r, room2, PullOpts::default()).await;
        if !st.ok {
            return Err(format!("preparation pull of the second room failed: {:?}", st.error));
        }
    }
    let events = w.l.subscribe().await;
    Ok(BWorld { l: w.l, r: w.r, room: w.room, events })
}

fn kind(q: &Query) -> &'static str {
    match q {
        Query::ProveIdentity(_) => "ProveIdentity",
        Query::HardwareFingerprint() => "HardwareFingerprint",
        Query::RoomList => "RoomList",
        Query::RoomDefinition(_) => "RoomDefinition",
        Query::RoomNode(_) => "RoomNode",
        Query::RoomLog(_) => "RoomLog",
        Query::RoomLogAt(_, _) => "RoomLogAt",
        Query::EdgeDeletionLog(_, _, _) => "EdgeDeletionLog",
        Query::NodeDeletionLog(_, _, _) => "NodeDeletionLog",
        Query::RoomDailyNodes(_, _, _) => "RoomDailyNodes",
        Query::Nodes(_, _) => "Nodes",
        Query::Edges(_, _) => "Edges",
        Query::PeersForRoom(_) => "PeersForRoom",
    }
}
fn is_pull(k: &str) -> bool {
    !matches!(k, "ProveIdentity" | "HardwareFingerprint" | "RoomList" | "RoomList.completion")
}

struct Conn {
    ev_tx: Option<mpsc::Sender<RemoteEvent>>,
    ev_out_rx: mpsc::Receiver<RemoteEvent>,
    rx_q: Option<mpsc::Receiver<QueryProtocol>>,
    tx_a: Option<mpsc::Sender<Answer>>,
    handle: RemotePeerHandle,
    rx_mid: mpsc::Receiver<Answer>,
    remote_key: Arc<Mutex<Vec<u8>>>,
    conn_ready: Arc<AtomicBool>,
    /// unanswered queries, oldest first
    outstanding: VecDeque<(QueryProtocol, &'static str)>,
    /// completion of a partially answered room list
    stash: Option<Vec<Answer>>,
    received: Vec<&'static str>,
    ready_sent: bool,
    list_delivered: bool,
    ready_events_from_l: usize,
    // exit path marks
    ev_closed_during_pull: bool,
    ans_closed_during_pull: bool,
    error_in_pull: bool,
    room_list_error_after_partial: bool,
    room_list_error: bool,
    pull_started_at: Option<usize>,
    // kept alive for the duration of the run
    _local_tx: broadcast::Sender<LocalEvent>,
    _in_q_tx: mpsc::Sender<QueryProtocol>,
    _in_ans_rx: mpsc::Receiver<Answer>,
}
impl Conn {
    fn pull_outstanding(&self) -> bool {
        self.tx_a.is_some() && self.outstanding.iter().any(|(_, k)| is_pull(k))
    }
    fn cut_completes_pull(&self) -> bool {
        self.tx_a.is_some() && self.outstanding.iter().any(|(_, k)| *k == "PeersForRoom")
    }
    fn room_list_outstanding(&self) -> bool {
        self.tx_a.is_some() && self.outstanding.iter().any(|(_, k)| *k == "RoomList")
    }
    fn marks(&self) -> Vec<&'static str> {
        let mut m = vec![];
        if self.ev_closed_during_pull {
            m.push("events_closed_during_pull");
        }
        if self.ans_closed_during_pull {
            m.push("answers_closed_during_pull");
        }
        if self.error_in_pull {
            m.push("error_answer_in_pull");
        }
        if self.room_list_error_after_partial {
            m.push("room_list_error_after_partial_list");
        }
        if self.room_list_error {
            m.push("room_list_error");
        }
        m
    }
}

#[derive(Clone, Copy, Debug, PartialEq, Eq)]
enum Expect {
    None,
    NewQuery,
    NewQueryOrSynchronized,
    /// a pull whose multi-answer query (PeersForRoom) is cut off by the closed answer channel reads the cut as
    /// the end of the answer and completes as a success
    Synchronized,
    WaitingOrQuery,
    ReadyFromL,
}

pub struct Run<'a> {
    w: &'a mut BWorld,
    lock: RoomLockService,
    limit: usize,
    conns: Vec<Conn>,
    fingerprint: HardwareFingerprint,
    sync_events: usize,
    /// a withheld query fails after NETWORK_TIMEOUT_SEC (10 s, real time): a run must stay well below
    started: std::time::Instant,
    /// which connection the lock service granted the room to last (derived from the probe; names the exit path in keys)
    owner: Option<usize>,
    prev_waiting: Vec<usize>,
    prev_locked: usize,
    step: usize,
    pub trace: Vec<String>,
    pub viols: Vec<(String, String)>,
    pub labels: Vec<String>,
}

fn circuit_of(i: usize) -> [u8; 32] {
    let mut c = [0x51u8; 32];
    c[0] = i as u8;
    c
}

impl<'a> Run<'a> {
    pub async fn start(w: &'a mut BWorld, limit: usize) -> Result<Run<'a>, String> {
        let lock = RoomLockService::start(limit);
        let fingerprint = HardwareFingerprint { id: [7u8; 16], name: "mc".to_string() };
        // forget events of earlier runs
        while w.events.try_recv().is_ok() {}
        let mut run = Run { w, lock, limit, conns: vec![], fingerprint, sync_events: 0, started: std::time::Instant::now(), owner: None, prev_waiting: vec![], prev_locked: 0, step: 0, trace: vec![], viols: vec![], labels: vec![] };
        for i in 0..2 {
            let c = run.open_connection(i);
            run.conns.push(c);
        }
        // prologue: both connections prove the identity of the remote side (answered honestly)
        run.settle().await?;
        for i in 0..2 {
            if run.conns[i].outstanding.front().map(|(_, k)| *k) != Some("ProveIdentity") {
                return Err(format!("connection {} did not start with ProveIdentity: {:?}", i, run.conns[i].received));
            }
            run.answer(i, false).await?;
        }
        for i in 0..2 {
            run.wait_expect(i, Expect::ReadyFromL, 0, 0).await?;
        }
        run.settle().await?;
        for i in 0..2 {
            if run.conns[i].ready_events_from_l != 1 {
                return Err(format!("connection {} was not established (Ready events from L: {})", i, run.conns[i].ready_events_from_l));
            }
        }
        Ok(run)
    }

    fn open_connection(&mut self, i: usize) -> Conn {
        let l = &self.w.l;
        let r = &self.w.r;
        let (ev_tx, ev_rx) = mpsc::channel::<RemoteEvent>(16);
        let (ev_out_tx, ev_out_rx) = mpsc::channel::<RemoteEvent>(16);
        let (tx_q, rx_q) = mpsc::channel::<QueryProtocol>(32);
        let (tx_a, rx_a) = mpsc::channel::<Answer>(32);
        let query_service = QueryService::start(tx_q, rx_a);
        let (local_tx, local_rx) = broadcast::channel::<LocalEvent>(16);
        let (in_ans_tx, in_ans_rx) = mpsc::channel::<Answer>(16);
        let (in_q_tx, in_q_rx) = mpsc::channel::<QueryProtocol>(16);
        let remote_verifying_key: Arc<Mutex<Vec<u8>>> = Arc::new(Mutex::new(Vec::new()));
        let conn_ready = Arc::new(AtomicBool::new(true));
        let mut conn_id = [0x33u8; 16];
        conn_id[0] = i as u8;
        let circuit = circuit_of(i);
        let inbound = InboundQueryService::start(
            self.fingerprint.clone(),
            circuit,
            conn_id,
            RemotePeerHandle { db: l.db.clone(), allowed_room: HashSet::new(), verifying_key: l.verifying_key.clone(), reply: in_ans_tx },
            in_q_rx,
            l.peer_service.clone(),
            remote_verifying_key.clone(),
            conn_ready.clone(),
        );
        let info = ConnectionInfo {
            endpoint_id: [0x11u8; 16],
            remote_id: conn_id,
            conn_id,
            meeting_token: [1u8; 7],
            peer_verifying_key: r.verifying_key.clone(),
        };
        let token = TokenType::AllowedPeer(AllowedPeer {
            peer: Peer { id: b64(&[0x22u8; 16]), verifying_key: b64(&r.verifying_key) },
            meeting_token: "t".to_string(),
        });
        LocalPeerService::start(
            ev_rx,
            local_rx,
            circuit,
            info,
            l.verifying_key.clone(),
            token,
            remote_verifying_key,
            conn_ready,
            self.lock.clone(),
            query_service,
            ev_out_tx,
            l.peer_service.clone(),
            inbound,
            &l.services,
        );
        let (tx_mid, rx_mid) = mpsc::channel::<Answer>(256);
        Conn {
            ev_tx: Some(ev_tx),
            ev_out_rx,
            rx_q: Some(rx_q),
            tx_a: Some(tx_a),
            handle: RemotePeerHandle { allowed_room: HashSet::new(), db: r.db.clone(), verifying_key: r.verifying_key.clone(), reply: tx_mid },
            rx_mid,
            remote_key: Arc::new(Mutex::new(l.verifying_key.clone())),
            conn_ready: Arc::new(AtomicBool::new(true)),
            outstanding: VecDeque::new(),
            stash: None,
            received: vec![],
            ready_sent: false,
            list_delivered: false,
            ready_events_from_l: 0,
            ev_closed_during_pull: false,
            ans_closed_during_pull: false,
            error_in_pull: false,
            room_list_error_after_partial: false,
            room_list_error: false,
            pull_started_at: None,
            _local_tx: local_tx,
            _in_q_tx: in_q_tx,
            _in_ans_rx: in_ans_rx,
        }
    }

    fn pump_in(&mut self) {
        let step = self.step;
        for c in self.conns.iter_mut() {
            if let Some(rx) = c.rx_q.as_mut() {
                while let Ok(q) = rx.try_recv() {
                    let k = kind(&q.query);
                    if k == "RoomDefinition" && c.pull_started_at.is_none() {
                        c.pull_started_at = Some(step);
                    }
                    c.received.push(k);
                    c.outstanding.push_back((q, k));
                }
            }
            while let Ok(e) = c.ev_out_rx.try_recv() {
                if matches!(e, RemoteEvent::Ready) {
                    c.ready_events_from_l += 1;
                }
            }
        }
        while let Ok(e) = self.w.events.try_recv() {
            if let Event::RoomSynchronized(_) = e {
                self.sync_events += 1;
            }
        }
    }

    async fn probe(&self) -> (Vec<usize>, usize, usize) {
        let (pending, locked, available) = self.lock.verif_probe().await;
        (pending.iter().filter(|(_, rooms)| !rooms.is_empty()).map(|(c, _)| c[0] as usize).collect(), locked.len(), available)
    }

    async fn snapshot(&mut self) -> String {
        self.pump_in();
        let (pending, locked, available) = self.probe().await;
        let disc = self.w.l.peer_msgs.lock().await.iter().filter(|m| m.starts_with("PeerDisconnected")).count();
        let mut s = String::new();
        for (i, c) in self.conns.iter().enumerate() {
            s.push_str(&format!(
                "c{}[recv {} open:{}{}{}] ",
                i,
                c.received.len(),
                c.outstanding.iter().map(|(_, k)| *k).collect::<Vec<_>>().join(","),
                if c.stash.is_some() { " (list partially answered)" } else { "" },
                if c.tx_a.is_none() { " answers closed" } else { "" },
            ));
        }
        s.push_str(&format!("lock[waiting {:?} locked {} available {}] synchronized {} disconnects {}", pending, locked, available, self.sync_events, disc));
        s
    }

    /// wait until nothing observable changes any more
    async fn settle(&mut self) -> Result<String, String> {
        let mut last: Option<String> = None;
        let mut stable = 0;
        let t0 = std::time::Instant::now();
        while t0.elapsed() < Duration::from_secs(6) {
            for _ in 0..8 {
                tokio::task::yield_now().await;
            }
            self.w.l.barrier().await;
            let _ = self.w.l.sql("SELECT 1").await;
            let snap = self.snapshot().await;
            if last.as_ref() == Some(&snap) {
                stable += 1;
                if stable >= 3 {
                    return Ok(snap);
                }
            } else {
                stable = 0;
                last = Some(snap);
            }
            tokio::time::sleep(Duration::from_millis(1)).await;
        }
        Err("no quiescence within 6 s".to_string())
    }

    async fn forward(&mut self, i: usize, answers: Vec<Answer>) {
        if let Some(tx) = self.conns[i].tx_a.as_ref() {
            for a in answers {
                let _ = tx.send(a).await;
            }
        }
    }

    /// answer the oldest unanswered query of connection `i` honestly; `partial` keeps back the completion marker
    async fn answer(&mut self, i: usize, partial: bool) -> Result<&'static str, String> {
        if let Some(rest) = self.conns[i].stash.take() {
            // the completion of a partially answered room list
            self.conns[i].outstanding.pop_front();
            self.forward(i, rest).await;
            return Ok("RoomList.completion");
        }
        let Some((q, k)) = self.conns[i].outstanding.pop_front() else {
            return Err(format!("no query to answer on connection {}", i));
        };
        let fp = self.fingerprint.clone();
        let id = q.id;
        let c = &mut self.conns[i];
        let r = InboundQueryService::process_inbound(q, &mut c.handle, &c.remote_key, &c.conn_ready, &fp).await;
        if let Err(e) = r {
            return Err(format!("serving {} failed: {}", k, e));
        }
        let mut answers = vec![];
        while let Ok(a) = c.rx_mid.try_recv() {
            answers.push(a);
        }
        if answers.is_empty() {
            return Err(format!("no answer produced for {}", k));
        }
        if partial {
            let (now, later): (Vec<Answer>, Vec<Answer>) = answers.into_iter().partition(|a| !a.complete);
            if now.is_empty() || later.is_empty() {
                return Err(format!("room list answer has no list/completion split ({} / {})", now.len(), later.len()));
            }
            // the query stays outstanding until its completion is delivered
            c.stash = Some(later);
            c.outstanding.push_front((QueryProtocol { id, query: Query::RoomList }, "RoomList"));
            self.forward(i, now).await;
        } else {
            self.forward(i, answers).await;
        }
        Ok(k)
    }

    async fn error_answer(&mut self, i: usize) -> Result<(), String> {
        let Some((q, k)) = self.conns[i].outstanding.pop_front() else {
            return Err(format!("no query to answer on connection {}", i));
        };
        let c = &mut self.conns[i];
        if k == "RoomList" {
            if c.stash.take().is_some() {
                c.room_list_error_after_partial = true;
            } else {
                c.room_list_error = true;
            }
        } else if is_pull(k) {
            c.error_in_pull = true;
        }
        let a = Answer {
            id: q.id,
            success: false,
            complete: false,
            serialized: bincode::serialize(&SyncError::RemoteTechnical("injected".to_string())).unwrap(),
        };
        self.forward(i, vec![a]).await;
        Ok(())
    }

    /// which driver events are possible now (the schedule generator only uses these)
    pub fn enabled(&self) -> Vec<BEv> {
        let mut v = vec![];
        for (i, c) in self.conns.iter().enumerate() {
            let i = i as u8;
            if !c.ready_sent && c.ev_tx.is_some() {
                v.push(BEv::Ready(i));
            }
            if c.tx_a.is_some() && !c.outstanding.is_empty() {
                v.push(BEv::Ans(i));
                if c.outstanding.front().map(|(_, k)| *k) == Some("RoomList") && c.stash.is_none() {
                    v.push(BEv::Part(i));
                }
                v.push(BEv::Err(i));
            }
            // While the room list is being received the connection loop is inside its handler; a close of the
            // event channel would become ready together with the queued grant and `select!` would pick at
            // random: that race is not driven (its two orders are the schedules with the close before `ready`
            // and after the completed list).
            if c.ev_tx.is_some() && !c.room_list_outstanding() {
                v.push(BEv::CloseEv(i));
            }
            if c.tx_a.is_some() {
                v.push(BEv::CloseAns(i));
            }
        }
        v
    }

    fn too_slow(&self) -> Result<(), String> {
        if self.started.elapsed() > Duration::from_secs(8) {
            return Err(format!(
                "the run took {:.1} s: withheld queries are about to hit the 10 s network timeout of the code under test, the observations would not be those of the schedule",
                self.started.elapsed().as_secs_f64()
            ));
        }
        Ok(())
    }

    fn loop_alive(&self, i: usize) -> bool {
        let c = &self.conns[i];
        c.ev_tx.is_some() && !c.room_list_error && !c.room_list_error_after_partial
    }

    /// An honest answer (or a remote event on a running loop) has one definite observable consequence that may
    /// need database threads of L to come about: wait for it, then for quiescence.
    async fn wait_expect(&mut self, i: usize, e: Expect, received0: usize, sync0: usize) -> Result<(), String> {
        if e == Expect::None {
            return Ok(());
        }
        let locked0 = self.prev_locked;
        let t0 = std::time::Instant::now();
        while t0.elapsed() < Duration::from_secs(6) {
            for _ in 0..8 {
                tokio::task::yield_now().await;
            }
            self.pump_in();
            let more = self.conns[i].received.len() > received0;
            let done = match e {
                Expect::None => true,
                Expect::NewQuery => more,
                Expect::NewQueryOrSynchronized => more || self.sync_events > sync0,
                Expect::Synchronized => self.sync_events > sync0,
                Expect::WaitingOrQuery => {
                    // the request reached the lock service: the connection waits, or the room got locked for it
                    let (waiting, locked, _) = self.probe().await;
                    more || waiting.contains(&i) || locked > locked0
                }
                Expect::ReadyFromL => self.conns[i].ready_events_from_l >= 1,
            };
            if done {
                return Ok(());
            }
            self.w.l.barrier().await;
            tokio::time::sleep(Duration::from_millis(1)).await;
        }
        Err(format!("the expected consequence {:?} on connection {} did not happen: {:?}", e, i, self.trace))
    }

    pub async fn apply(&mut self, ev: BEv) -> Result<(), String> {
        self.step += 1;
        let i = ev.conn();
        self.pump_in();
        let (received0, sync0) = (self.conns[i].received.len(), self.sync_events);
        let mut expect = Expect::None;
        match ev {
            BEv::Ready(_) => {
                let tx = self.conns[i].ev_tx.clone().ok_or("events closed")?;
                tx.send(RemoteEvent::Ready).await.map_err(|e| e.to_string())?;
                self.conns[i].ready_sent = true;
                if self.loop_alive(i) && self.conns[i].tx_a.is_some() {
                    expect = Expect::NewQuery;
                }
            }
            BEv::Changed(_) => {
                let tx = self.conns[i].ev_tx.clone().ok_or("events closed")?;
                tx.send(RemoteEvent::RoomDataChanged(self.w.room)).await.map_err(|e| e.to_string())?;
                if self.loop_alive(i) && self.conns[i].list_delivered {
                    expect = Expect::WaitingOrQuery;
                }
            }
            BEv::Ans(_) | BEv::Part(_) => {
                let k = self.answer(i, matches!(ev, BEv::Part(_))).await?;
                if k == "RoomList" {
                    self.conns[i].list_delivered = true;
                    expect = Expect::WaitingOrQuery;
                } else if is_pull(k) {
                    expect = Expect::NewQueryOrSynchronized;
                }
            }
            BEv::Err(_) => self.error_answer(i).await?,
            BEv::CloseEv(_) => {
                if self.conns[i].pull_outstanding() {
                    self.conns[i].ev_closed_during_pull = true;
                }
                self.conns[i].ev_tx = None;
            }
            BEv::CloseAns(_) => {
                if self.conns[i].pull_outstanding() {
                    self.conns[i].ans_closed_during_pull = true;
                }
                if self.conns[i].cut_completes_pull() {
                    expect = Expect::Synchronized;
                }
                self.conns[i].tx_a = None;
                self.conns[i].rx_q = None;
                self.conns[i].outstanding.clear();
                self.conns[i].stash = None;
            }
        }
        self.wait_expect(i, expect, received0, sync0).await?;
        let snap = self.settle().await?;
        self.update_owner(Some(i)).await;
        self.trace.push(format!("{:<24} -> {}", ev.show(), snap));
        self.judge_step();
        self.too_slow()?;
        Ok(())
    }

    fn judge_step(&mut self) {
        // undeniable overlap: both connection tasks wait for the answer to a query of a pull of the room
        if self.conns[0].pull_outstanding() && self.conns[1].pull_outstanding() {
            let first = if self.conns[0].pull_started_at <= self.conns[1].pull_started_at { 0 } else { 1 };
            let marks = self.conns[first].marks();
            let key = format!(
                "B/two_pulls_in_flight/{}",
                if marks.is_empty() { "first_connection_still_open".to_string() } else { marks.join("+") }
            );
            if !self.viols.iter().any(|(k, _)| *k == key) {
                self.viols.push((key, format!("connection {} started a pull of the room while the pull of connection {} was still waiting for an answer", 1 - first, first)));
            }
        }
        let (c0, c1) = (&self.conns[0], &self.conns[1]);
        if c0.pull_outstanding() || c1.pull_outstanding() {
            // information only: a pull running without the lock
            if let Some(t) = self.trace.last() {
                if t.contains("locked 0") && !self.labels.iter().any(|l| l == "info:pull_in_flight_while_room_not_locked") {
                    self.labels.push("info:pull_in_flight_while_room_not_locked".to_string());
                }
            }
        }
    }

    /// follow the grants through the probe: a connection that leaves the waiting list while its loop runs was
    /// granted the room; a room newly locked was granted to the connection the event acted on
    async fn update_owner(&mut self, actor: Option<usize>) {
        let (waiting, locked, _) = self.probe().await;
        if locked == 0 {
            self.owner = None;
        } else {
            let gone: Vec<usize> = self
                .prev_waiting
                .iter()
                .copied()
                .filter(|c| !waiting.contains(c) && *c < 2 && self.conns[*c].ev_tx.is_some() && !self.conns[*c].room_list_error && !self.conns[*c].room_list_error_after_partial)
                .collect();
            if let Some(g) = gone.first() {
                self.owner = Some(*g);
            } else if self.prev_locked == 0 {
                self.owner = actor;
            }
        }
        self.prev_waiting = waiting;
        self.prev_locked = locked;
    }

    /// both connections end (what is still open is closed, events first), then the final oracle
    pub async fn finish(&mut self) -> Result<(), String> {
        for i in 0..2 {
            if self.conns[i].ev_tx.is_some() {
                if self.conns[i].pull_outstanding() {
                    self.conns[i].ev_closed_during_pull = true;
                }
                // the documented race exclusion also holds here: finish the room list first
                if self.conns[i].room_list_outstanding() {
                    self.conns[i].tx_a = None;
                    self.conns[i].rx_q = None;
                    self.conns[i].outstanding.clear();
                    self.conns[i].stash = None;
                    self.settle().await?;
                self.update_owner(None).await;
                    self.update_owner(None).await;
                }
                self.conns[i].ev_tx = None;
                self.settle().await?;
                self.update_owner(None).await;
            }
            if self.conns[i].tx_a.is_some() {
                let expect = if self.conns[i].cut_completes_pull() { Expect::Synchronized } else { Expect::None };
                self.pump_in();
                let (received0, sync0) = (self.conns[i].received.len(), self.sync_events);
                self.conns[i].tx_a = None;
                self.conns[i].rx_q = None;
                self.conns[i].outstanding.clear();
                self.conns[i].stash = None;
                self.wait_expect(i, expect, received0, sync0).await?;
                self.settle().await?;
                self.update_owner(None).await;
            }
        }
        let snap = self.settle().await?;
        self.trace.push(format!("{:<24} -> {}", "both connections ended", snap));
        let (pending, locked, available) = self.probe().await;
        if locked != 0 || available != self.limit {
            // exit path of the connection the room was granted to last
            let path = match self.owner {
                Some(o) => {
                    let mut marks = self.conns[o].marks();
                    marks.sort();
                    if marks.is_empty() {
                        "plain_close".to_string()
                    } else {
                        marks.join("+")
                    }
                }
                None => "holder_unknown".to_string(),
            };
            self.viols.push((
                format!("B/lock_left_after_connections_ended/{}", path),
                format!("after both connections ended the lock service shows locked {} available {} (limit {}), waiting {:?}", locked, available, self.limit, pending),
            ));
        }
        let disc = self.w.l.peer_msgs.lock().await.iter().filter(|m| m.starts_with("PeerDisconnected")).count();
        self.labels.push(format!("end:disconnect_messages_{}", disc.min(9)));
        self.too_slow()?;
        Ok(())
    }
}

#[derive(Clone, Debug)]
pub struct RunResult {
    pub seq: Vec<BEv>,
    pub trace: Vec<String>,
    pub enabled_after: Vec<BEv>,
    pub viols: Vec<(String, String)>,
    pub labels: Vec<String>,
}

pub async fn run_sequence(w: &mut BWorld, limit: usize, seq: &[BEv]) -> Result<RunResult, String> {
    run_sequence_opt(w, limit, seq, true).await
}

/// `strict`: an event that is not enabled is a machinery failure (generated schedules); otherwise it is skipped
/// and noted in the trace (fixed schedules, whose later events may lose their meaning on a changed tree)
pub async fn run_sequence_opt(w: &mut BWorld, limit: usize, seq: &[BEv], strict: bool) -> Result<RunResult, String> {
    w.l.peer_msgs.lock().await.clear();
    let mut run = Run::start(w, limit).await?;
    for e in seq {
        let possible = match e {
            BEv::Changed(c) => run.conns[*c as usize].ev_tx.is_some(),
            _ => run.enabled().contains(e),
        };
        if !possible {
            if strict {
                return Err(format!("event {} is not enabled after {:?}", e.show(), run.trace));
            }
            run.trace.push(format!("{:<24} -> skipped: not possible here", e.show()));
            run.labels.push("info:event_of_fixed_schedule_skipped".to_string());
            continue;
        }
        run.apply(*e).await?;
    }
    let enabled_after = run.enabled();
    run.finish().await?;
    Ok(RunResult { seq: seq.to_vec(), trace: run.trace.clone(), enabled_after, viols: run.viols.clone(), labels: run.labels.clone() })
}

fn seq_json(seq: &[BEv]) -> Value {
    Value::Array(seq.iter().map(|e| json!(e.show())).collect())
}
fn seq_from(v: &Value) -> Vec<BEv> {
    v.as_array()
        .map(|a| a.iter().filter_map(|x| x.as_str().and_then(BEv::parse)).collect())
        .unwrap_or_default()
}

/// class of a trace: the observations without the schedule itself
fn trace_class(r: &RunResult) -> String {
    r.trace.iter().map(|t| t.split("->").nth(1).unwrap_or("").trim().to_string()).collect::<Vec<_>>().join(" / ")
}

fn record(out: &mut Outcome, limit: usize, r: &RunResult) {
    out.evaluations += 1;
    out.transitions += r.seq.len() as u64 + 1;
    let verdict: Vec<&str> = r.viols.iter().map(|(k, _)| k.as_str()).collect();
    out.state(&("B", limit, trace_class(r).rsplit(" / ").next().map(|s| s.to_string())));
    out.nontrivial(&("B", limit, trace_class(r), &verdict));
    if verdict.is_empty() {
        out.count("B:ok");
    } else {
        out.count("B:violation");
    }
    for l in &r.labels {
        out.count(&format!("B:{}", l));
    }
    for (k, what) in &r.viols {
        out.violation(
            k.clone(),
            format!("limit {}: schedule [{}]: {}", limit, r.seq.iter().map(|e| e.show()).collect::<Vec<_>>().join(", "), what),
            json!({"part": "B", "limit": limit, "events": seq_json(&r.seq)}),
        );
    }
}

/// quick tier: a fixed subset of orders (the clean paths, every exit path once, the two known witnesses)
fn quick_orders() -> Vec<Vec<BEv>> {
    use BEv::*;
    vec![
        // clean: one connection synchronises the room completely (room list, room definition, peers)
        vec![Ready(0), Ans(0), Ans(0), Ans(0)],
        // both connections ask, the second waits until the first is done
        vec![Ready(0), Ans(0), Ready(1), Ans(1), Ans(0), Ans(0)],
        // error answer at the first / the second query of the pull
        vec![Ready(0), Ans(0), Err(0), Ready(1), Ans(1), Ans(1)],
        vec![Ready(0), Ans(0), Ans(0), Err(0)],
        // answers closed inside the pull
        vec![Ready(0), Ans(0), CloseAns(0), Ready(1), Ans(1)],
        // events closed inside the pull, then the other connection asks for the room
        vec![Ready(0), Ans(0), CloseEv(0), Ready(1), Ans(1)],
        // ... and the first pull ends afterwards (second release)
        vec![Ready(0), Ans(0), CloseEv(0), Ready(1), Ans(1), CloseAns(0)],
        // events closed while waiting for the lock
        vec![Ready(0), Ans(0), Ready(1), Ans(1), CloseEv(1), Ans(0)],
        // room list error before any list
        vec![Ready(0), Err(0), Ready(1), Ans(1)],
        // room list: list delivered, then an error instead of the completion
        vec![Ready(0), Part(0), Err(0)],
        vec![Ready(0), Part(0), Err(0), Ready(1), Ans(1)],
        // room list: list delivered, answers closed before the completion
        vec![Ready(0), Part(0), CloseAns(0), Ready(1), Ans(1)],
        // closed before anything
        vec![CloseEv(0), Ready(1), Ans(1), Ans(1)],
        // the remote announces new data while the room is being pulled: a second request of the same connection
        vec![Ready(0), Ans(0), Changed(0), Ans(0), Ans(0), Ans(0)],
    ]
}

fn world_root(tag: &str) -> PathBuf {
    scratch_root().join(tag)
}

/// worker: runs the sequences `k` of the level file with `k % n == i`, writes its results next to it
pub fn run_shard(args: &Args) -> i32 {
    let (i, n) = args.shard.unwrap();
    let mut out = Outcome::default();
    let file = args.extra.iter().find_map(|e| e.strip_prefix("--bfile=").map(|s| s.to_string()));
    let Some(file) = file else {
        out.machinery_errors.push("worker without --bfile".to_string());
        emit_shard_outcome(&out);
        return 0;
    };
    let level: Value = serde_json::from_str(&std::fs::read_to_string(&file).unwrap_or_default()).unwrap_or(Value::Null);
    let limit = level["limit"].as_u64().unwrap_or(1) as usize;
    let seqs: Vec<Vec<BEv>> = level["sequences"].as_array().map(|a| a.iter().map(seq_from).collect()).unwrap_or_default();
    let root = world_root(&format!("b{}", i));
    let _g = ScratchGuard(scratch_root());
    let rt = runtime();
    let mut results = vec![];
    let res: Result<(), String> = rt.block_on(async {
        let mut w = build_world(&root).await?;
        for (k, seq) in seqs.iter().enumerate() {
            if k % n != i {
                continue;
            }
            let r = run_sequence(&mut w, limit, seq).await.map_err(|e| format!("schedule {:?}: {}", seq.iter().map(|e| e.show()).collect::<Vec<_>>(), e))?;
            record(&mut out, limit, &r);
            results.push(json!({
                "k": k,
                "trace": r.trace,
                "enabled": seq_json(&r.enabled_after),
            }));
        }
        Ok(())
    });
    if let Err(e) = res {
        out.machinery_errors.push(e);
    }
    let _ = std::fs::write(format!("{}.out.{}", file, i), serde_json::to_string(&results).unwrap());
    emit_shard_outcome(&out);
    0
}

pub fn explore(args: &Args, out: &mut Outcome) -> Value {
    let limit = 1usize;
    if args.tier == Tier::Quick {
        let root = world_root("bq");
        let _g = ScratchGuard(scratch_root());
        let rt = runtime();
        let orders = quick_orders();
        let res: Result<(), String> = rt.block_on(async {
            let mut w = build_world(&root).await?;
            for seq in &orders {
                let a = run_sequence_opt(&mut w, limit, seq, false).await.map_err(|e| format!("schedule {:?}: {}", seq.iter().map(|e| e.show()).collect::<Vec<_>>(), e))?;
                let b = run_sequence_opt(&mut w, limit, seq, false).await?;
                if a.trace != b.trace || a.viols != b.viols {
                    return Err(format!("two runs of one schedule differ: {:?}\n{:#?}\n{:#?}", seq.iter().map(|e| e.show()).collect::<Vec<_>>(), a.trace, b.trace));
                }
                record(out, limit, &a);
                if out.samples.len() < 12 && (a.viols.is_empty() == (out.samples.len() % 2 == 0)) {
                    out.samples.push(json!({"part": "B", "schedule": seq_json(seq), "trace": a.trace}));
                }
            }
            Ok(())
        });
        if let Err(e) = res {
            out.machinery_errors.push(format!("B: {}", e));
        }
        // two rooms and two slots: one room list makes a connection ask for (and be granted) two locks at once; the
        // orders in which a connection ends before its tasks have taken their grants
        let root2 = world_root("bq2");
        let rt2 = runtime();
        let res2: Result<(), String> = rt2.block_on(async {
            let mut w = build_world_two_rooms(&root2).await?;
            for seq in orders.iter().filter(|s| s.iter().any(|e| e.show().starts_with("partial_room_list") || e.show().starts_with("close_") || e.show().starts_with("error_answer"))) {
                let mut a = run_sequence_opt(&mut w, 2, seq, false).await.map_err(|e| format!("two rooms, schedule {:?}: {}", seq.iter().map(|e| e.show()).collect::<Vec<_>>(), e))?;
                // with two rooms, two pulls at once are legitimate (the monitor of the one-room world cannot tell the
                // rooms apart): this batch judges the end state only - nothing stays locked, every slot is back
                a.viols.retain(|(k, _)| k.starts_with("B/lock_left_after_connections_ended"));
                for v in a.viols.iter_mut() {
                    v.0 = v.0.replacen("B/lock_left_after_connections_ended", "B/two-rooms/lock_left_after_connections_ended", 1);
                }
                record(out, 2, &a);
            }
            Ok(())
        });
        if let Err(e) = res2 {
            out.machinery_errors.push(format!("B (two rooms): {}", e));
        }
        out.capped.push(format!("B quick tier: fixed subset of {} orders (every order up to 6 events only in the thorough tier)", orders.len()));
        return json!({"limit": limit, "connections": 2, "rooms": 1, "orders": orders.len(), "selection": "fixed subset (clean paths, every exit path, known witnesses), each run twice", "max_events": 6});
    }
    // thorough: every order of enabled driver events up to 6, level by level (the enabled set after a prefix is
    // observed by running the prefix), the first event on connection 0 (the two connections are interchangeable)
    let max_len = args
        .extra
        .iter()
        .find_map(|e| e.strip_prefix("--blen=").and_then(|s| s.parse::<usize>().ok()))
        .unwrap_or(6);
    let dir = PathBuf::from(format!("{}/c20b-{}", std::env::temp_dir().display(), std::process::id()));
    let _ = std::fs::create_dir_all(&dir);
    let mut level: Vec<Vec<BEv>> = vec![vec![BEv::Ready(0)], vec![BEv::CloseEv(0)], vec![BEv::CloseAns(0)]];
    let mut traces: BTreeMap<Vec<BEv>, Vec<String>> = BTreeMap::new();
    let mut per_level = vec![];
    for len in 1..=max_len {
        if level.is_empty() {
            break;
        }
        let file = dir.join(format!("level{}.json", len));
        let body = json!({"limit": limit, "sequences": level.iter().map(|s| seq_json(s)).collect::<Vec<_>>()});
        if std::fs::write(&file, serde_json::to_string(&body).unwrap()).is_err() {
            out.machinery_errors.push("B: cannot write the level file".to_string());
            break;
        }
        let n = ncpu().clamp(1, 16).min(level.len());
        let mut a2 = args.clone();
        a2.extra.push(format!("--bfile={}", file.display()));
        let merged = run_sharded(&a2, n);
        let failed = !merged.machinery_errors.is_empty();
        out.merge(merged);
        if failed {
            break;
        }
        let mut next = vec![];
        let mut new_traces: BTreeMap<Vec<BEv>, Vec<String>> = BTreeMap::new();
        let mut results: BTreeMap<usize, (Vec<String>, Vec<BEv>)> = BTreeMap::new();
        for i in 0..n {
            let text = std::fs::read_to_string(format!("{}.out.{}", file.display(), i)).unwrap_or_default();
            let v: Value = serde_json::from_str(&text).unwrap_or(Value::Null);
            for r in v.as_array().cloned().unwrap_or_default() {
                let k = r["k"].as_u64().unwrap_or(0) as usize;
                let trace: Vec<String> = r["trace"].as_array().map(|a| a.iter().map(|x| x.as_str().unwrap_or("").to_string()).collect()).unwrap_or_default();
                results.insert(k, (trace, seq_from(&r["enabled"])));
            }
        }
        if results.len() != level.len() {
            out.machinery_errors.push(format!("B: level {}: {} results for {} schedules", len, results.len(), level.len()));
            break;
        }
        for (k, seq) in level.iter().enumerate() {
            let (trace, enabled) = &results[&k];
            // determinism: the observations along the prefix are those of the run of the prefix
            if let Some(parent) = traces.get(&seq[..seq.len() - 1].to_vec()) {
                let np = parent.len() - 1;
                if trace.len() < np || trace[..np] != parent[..np] {
                    out.machinery_errors.push(format!(
                        "B: observations along a prefix differ between two runs: {:?}\n{:#?}\n{:#?}",
                        seq.iter().map(|e| e.show()).collect::<Vec<_>>(),
                        parent,
                        trace
                    ));
                }
            }
            if out.samples.len() < 12 && k % 97 == 0 {
                out.samples.push(json!({"part": "B", "schedule": seq_json(seq), "trace": trace}));
            }
            if len < max_len {
                for e in enabled {
                    let mut s = seq.clone();
                    s.push(*e);
                    next.push(s);
                }
            }
            new_traces.insert(seq.clone(), trace.clone());
        }
        per_level.push(level.len());
        traces = new_traces;
        level = next;
    }
    let _ = std::fs::remove_dir_all(&dir);
    out.notes.push(format!("B limit {}: schedules per length {:?}", limit, per_level));
    json!({"limit": limit, "connections": 2, "rooms": 1, "max_events": max_len, "schedules_per_length": per_level,
           "driver_events": ["ready", "answer", "partial_room_list", "error_answer", "close_events", "close_answers"],
           "selection": "every order of enabled events, first event on connection 0"})
}

pub fn replay(r: &Value) -> i32 {
    let limit = r["limit"].as_u64().unwrap_or(1) as usize;
    let seq = seq_from(&r["events"]);
    let root = world_root("br");
    let _g = ScratchGuard(scratch_root());
    let rt = runtime();
    let res: Result<i32, String> = rt.block_on(async {
        let mut w = build_world(&root).await?;
        let a = run_sequence_opt(&mut w, limit, &seq, false).await?;
        let b = run_sequence_opt(&mut w, limit, &seq, false).await?;
        println!("replay (part B, limit {}), schedule [{}]:", limit, seq.iter().map(|e| e.show()).collect::<Vec<_>>().join(", "));
        for t in &a.trace {
            println!("  {}", t);
        }
        for (k, what) in &a.viols {
            println!("    VIOLATED {} :: {}", k, what);
        }
        if a.trace != b.trace || a.viols != b.viols {
            eprintln!("machinery error: the two replays differ\n{:#?}", b.trace);
            return Ok(2);
        }
        println!("second run identical");
        Ok(if a.viols.is_empty() { 0 } else { 1 })
    });
    match res {
        Ok(c) => c,
        Err(e) => {
            eprintln!("machinery error: {}", e);
            2
        }
    }
}
