//! C03 — synchronisation converges; C11 — a deleted row stays deleted.
//! E-SCHED in the full world: scripted histories on 3 (2, 4) real peers, then EVERY order of directed
//! pulls up to a length bound (with optional interruption of one pull between answers), then
//! round-robin pulls until a full round writes nothing; convergence oracle at quiescence and a
//! tombstone monitor after every step.
use crate::common::*;
use crate::rooms::*;
use crate::syncworld::*;
use crate::world::*;
use serde_json::{json, Value};
use std::collections::{BTreeMap, BTreeSet};
use std::time::Instant;

#[derive(Clone)]
pub struct Hist {
    pub name: &'static str,
    pub peers: usize,
    pub steps: Vec<Step>,
    /// slots whose row is deleted in the history (C11 monitor)
    pub deleted_nodes: Vec<usize>,
    pub deleted_refs: Vec<(usize, usize)>,
    /// written versions per slot (winner must be one of them)
    pub c11: bool,
}

fn cp(peer: usize, slot: usize, name: &'static str) -> Step {
    Step::CreateP { peer, slot, name }
}
fn cq(peer: usize, slot: usize, name: &'static str) -> Step {
    Step::CreateQ { peer, slot, name }
}
fn up(peer: usize, slot: usize, name: &'static str) -> Step {
    Step::Update { peer, slot, name }
}

pub fn histories(tier: Tier) -> Vec<Hist> {
    let mut h = vec![
        Hist { name: "create", peers: 3, steps: vec![Step::Clock(1), cp(0, 0, "a")], deleted_nodes: vec![], deleted_refs: vec![], c11: false },
        Hist {
            name: "create-then-update-on-another-peer-next-day",
            peers: 3,
            steps: vec![Step::Clock(1), cp(0, 0, "a"), Step::PullAll, Step::Clock(5), up(1, 0, "b")],
            deleted_nodes: vec![], deleted_refs: vec![], c11: false,
        },
        Hist {
            name: "concurrent-update-same-millisecond",
            peers: 3,
            steps: vec![Step::Clock(1), cp(0, 0, "a"), Step::PullAll, Step::Clock(2), up(0, 0, "x"), Step::Clock(2), up(1, 0, "y")],
            deleted_nodes: vec![], deleted_refs: vec![], c11: false,
        },
        Hist {
            name: "concurrent-update-same-day-different-ms",
            peers: 3,
            steps: vec![Step::Clock(1), cp(0, 0, "a"), Step::PullAll, Step::Clock(2), up(0, 0, "x"), Step::ClockMs(2, 7), up(1, 0, "y")],
            deleted_nodes: vec![], deleted_refs: vec![], c11: false,
        },
        Hist {
            name: "concurrent-update-different-days",
            peers: 3,
            steps: vec![Step::Clock(1), cp(0, 0, "a"), Step::PullAll, Step::Clock(5), up(0, 0, "x"), Step::Clock(9), up(1, 0, "y")],
            deleted_nodes: vec![], deleted_refs: vec![], c11: false,
        },
        Hist {
            name: "second-entity-same-day",
            peers: 3,
            steps: vec![Step::Clock(1), cp(0, 0, "a"), Step::PullAll, Step::Clock(2), cq(0, 1, "q")],
            deleted_nodes: vec![], deleted_refs: vec![], c11: false,
        },
        Hist {
            name: "second-entity-earlier-day",
            peers: 3,
            steps: vec![Step::Clock(9), cp(0, 0, "a"), Step::PullAll, Step::Clock(5), cq(2, 1, "q")],
            deleted_nodes: vec![], deleted_refs: vec![], c11: false,
        },
        Hist {
            name: "second-entity-next-day",
            peers: 3,
            steps: vec![Step::Clock(1), cp(0, 0, "a"), Step::PullAll, Step::Clock(5), cq(0, 1, "q")],
            deleted_nodes: vec![], deleted_refs: vec![], c11: false,
        },
        Hist {
            name: "reference-added-then-removed-elsewhere",
            peers: 3,
            steps: vec![Step::Clock(1), cp(0, 0, "a"), cq(0, 1, "q"), Step::AddRef { peer: 0, p: 0, q: 1 }, Step::PullAll, Step::Clock(5), Step::DelRef { peer: 1, p: 0, q: 1 }],
            deleted_nodes: vec![], deleted_refs: vec![(0, 1)], c11: true,
        },
        Hist {
            name: "node-deleted-same-day",
            peers: 3,
            steps: vec![Step::Clock(1), cp(0, 0, "a"), Step::PullAll, Step::Clock(2), Step::Delete { peer: 0, slot: 0 }],
            deleted_nodes: vec![0], deleted_refs: vec![], c11: true,
        },
        Hist {
            name: "node-deleted-later-day-by-another-peer",
            peers: 3,
            steps: vec![Step::Clock(1), cp(0, 0, "a"), Step::PullAll, Step::Clock(5), Step::Delete { peer: 1, slot: 0 }],
            deleted_nodes: vec![0], deleted_refs: vec![], c11: true,
        },
        Hist {
            name: "updated-then-deleted-by-author-peers-hold-older-version",
            peers: 3,
            steps: vec![Step::Clock(1), cp(0, 0, "a"), Step::PullAll, Step::Clock(5), up(0, 0, "b"), Step::Clock(6), Step::Delete { peer: 0, slot: 0 }],
            deleted_nodes: vec![0], deleted_refs: vec![], c11: true,
        },
        Hist {
            name: "updated-elsewhere-then-deleted-by-a-peer-that-pulled-the-update",
            peers: 3,
            steps: vec![Step::Clock(1), cp(0, 0, "a"), Step::PullAll, Step::Clock(5), up(1, 0, "b"), Step::Pull { dst: 0, src: 1 }, Step::Clock(9), Step::Delete { peer: 0, slot: 0 }],
            deleted_nodes: vec![0], deleted_refs: vec![], c11: true,
        },
        Hist {
            name: "update-and-delete-race",
            peers: 3,
            steps: vec![Step::Clock(1), cp(0, 0, "a"), Step::PullAll, Step::Clock(5), up(1, 0, "z"), Step::Clock(6), Step::Delete { peer: 0, slot: 0 }],
            deleted_nodes: vec![0], deleted_refs: vec![], c11: true,
        },
        Hist {
            name: "cross-day-update-of-own-row",
            peers: 3,
            steps: vec![Step::Clock(1), cp(0, 0, "a"), Step::Pull { dst: 1, src: 0 }, Step::Clock(5), up(0, 0, "b")],
            deleted_nodes: vec![], deleted_refs: vec![], c11: false,
        },
        Hist {
            name: "definition-change-between-writes",
            peers: 3,
            steps: vec![
                Step::Clock(1), cp(0, 0, "a"), Step::PullAll, Step::Clock(5),
                Step::RoomEvent(REvent::AddRight { group: 0, entity: "ns.Q".into(), own: true, all: false }),
                Step::Clock(6), cq(1, 1, "q"),
            ],
            deleted_nodes: vec![], deleted_refs: vec![], c11: false,
        },
        Hist {
            name: "reference-removed-while-source-row-updated-elsewhere",
            peers: 3,
            steps: vec![
                Step::Clock(1), cp(0, 0, "a"), cq(0, 1, "q"), Step::Clock(2), Step::AddRef { peer: 0, p: 0, q: 1 }, Step::PullAll,
                Step::Clock(5), Step::DelRef { peer: 0, p: 0, q: 1 }, Step::Pull { dst: 1, src: 0 },
                Step::Clock(6), up(2, 0, "c"),
            ],
            deleted_nodes: vec![], deleted_refs: vec![(0, 1)], c11: true,
        },
        Hist {
            name: "reference-removed-then-source-row-updated-same-day-elsewhere",
            peers: 3,
            steps: vec![
                Step::Clock(1), cp(0, 0, "a"), cq(0, 1, "q"), Step::ClockMs(1, 500), Step::AddRef { peer: 0, p: 0, q: 1 }, Step::PullAll,
                Step::Clock(2), Step::DelRef { peer: 1, p: 0, q: 1 }, Step::Pull { dst: 0, src: 1 },
                Step::ClockMs(2, 9), up(2, 0, "c"),
            ],
            deleted_nodes: vec![], deleted_refs: vec![(0, 1)], c11: true,
        },
        // three days: a middle day exists on one peer only while BOTH peers wrote on the newest day (the exchange must
        // compare histories, not only the last day)
        Hist {
            name: "older-day-missing-while-both-wrote-the-newest-day",
            peers: 3,
            steps: vec![
                Step::Clock(1), cp(0, 0, "a"), Step::PullAll,
                Step::Clock(5), cp(0, 1, "b"),
                Step::Clock(9), cp(0, 2, "c"), Step::ClockMs(9, 3), cp(1, 3, "d"),
            ],
            deleted_nodes: vec![], deleted_refs: vec![], c11: false,
        },
        Hist {
            name: "older-day-deletion-missing-while-both-wrote-the-newest-day",
            peers: 3,
            steps: vec![
                Step::Clock(1), cp(0, 0, "a"), cp(0, 1, "k"), Step::PullAll,
                Step::Clock(5), Step::Delete { peer: 0, slot: 0 },
                Step::Clock(9), cp(0, 2, "c"), Step::ClockMs(9, 3), cp(1, 3, "d"),
            ],
            deleted_nodes: vec![0], deleted_refs: vec![], c11: true,
        },
        // a reference removed and then added again on the same peer: the old deletion record, replayed by another
        // peer later on, must not remove the new reference
        Hist {
            name: "reference-removed-then-added-again",
            peers: 3,
            steps: vec![
                Step::Clock(1), cp(0, 0, "a"), cq(0, 1, "q"), Step::ClockMs(1, 10), Step::AddRef { peer: 0, p: 0, q: 1 }, Step::PullAll,
                Step::Clock(5), Step::DelRef { peer: 0, p: 0, q: 1 }, Step::Pull { dst: 1, src: 0 },
                Step::ClockMs(5, 50), Step::AddRef { peer: 0, p: 0, q: 1 },
                Step::ClockMs(5, 60), cp(1, 2, "x"),
            ],
            deleted_nodes: vec![], deleted_refs: vec![], c11: false,
        },
        // a member who joined AFTER the last change of a row deletes it: its right counts at the date of the deletion
        Hist {
            name: "late-member:row-deleted-by-a-member-who-joined-after-its-last-change",
            peers: 3,
            steps: vec![
                Step::Clock(1), cp(0, 0, "a"), Step::Pull { dst: 1, src: 0 },
                Step::Clock(5), Step::RoomEvent(REvent::AddUser { group: 0, key: 2, enabled: true }),
                Step::Clock(6), Step::Pull { dst: 2, src: 0 }, Step::Pull { dst: 1, src: 0 },
                Step::Clock(9), Step::Delete { peer: 2, slot: 0 },
            ],
            deleted_nodes: vec![0], deleted_refs: vec![], c11: true,
        },
        // day boundaries: the first and the last millisecond of a day belong to exactly one day for the summary,
        // the served rows and the deletion records alike
        Hist {
            name: "update-at-first-ms-of-a-day",
            peers: 3,
            steps: vec![Step::Clock(1), cp(0, 0, "a"), Step::PullAll, Step::Clock(4), up(0, 0, "b")],
            deleted_nodes: vec![], deleted_refs: vec![], c11: false,
        },
        Hist {
            name: "create-at-last-ms-of-a-day-and-first-ms-of-next",
            peers: 3,
            steps: vec![Step::ClockMs(4, -1), cp(0, 0, "a"), Step::Clock(4), cq(0, 1, "q")],
            deleted_nodes: vec![], deleted_refs: vec![], c11: false,
        },
        Hist {
            name: "node-deleted-at-first-ms-of-a-day",
            peers: 3,
            steps: vec![Step::Clock(1), cp(0, 0, "a"), Step::PullAll, Step::Clock(4), Step::Delete { peer: 1, slot: 0 }],
            deleted_nodes: vec![0], deleted_refs: vec![], c11: true,
        },
        Hist {
            name: "reference-removed-at-first-ms-of-a-day",
            peers: 3,
            steps: vec![Step::Clock(1), cp(0, 0, "a"), cq(0, 1, "q"), Step::AddRef { peer: 0, p: 0, q: 1 }, Step::PullAll, Step::Clock(4), Step::DelRef { peer: 1, p: 0, q: 1 }],
            deleted_nodes: vec![], deleted_refs: vec![(0, 1)], c11: true,
        },
    ];
    if tier == Tier::Thorough {
        h.push(Hist {
            name: "two-peers-create",
            peers: 2,
            steps: vec![Step::Clock(1), cp(0, 0, "a"), Step::PullAll, Step::Clock(2), cp(1, 1, "b"), cp(0, 2, "c")],
            deleted_nodes: vec![], deleted_refs: vec![], c11: false,
        });
        h.push(Hist {
            name: "four-peers-delete-later-day",
            peers: 4,
            steps: vec![Step::Clock(1), cp(0, 0, "a"), Step::PullAll, Step::Clock(5), Step::Delete { peer: 0, slot: 0 }],
            deleted_nodes: vec![0], deleted_refs: vec![], c11: true,
        });
        h.push(Hist {
            name: "three-writers-same-row",
            peers: 3,
            steps: vec![Step::Clock(1), cp(0, 0, "a"), Step::PullAll, Step::Clock(2), up(0, 0, "x"), Step::ClockMs(2, 1), up(1, 0, "y"), Step::Clock(2), up(2, 0, "w")],
            deleted_nodes: vec![], deleted_refs: vec![], c11: false,
        });
    }
    h
}

/// which history a property's run uses
pub fn select(prop: &str, tier: Tier) -> Vec<Hist> {
    histories(tier).into_iter().filter(|h| prop == "C03" || h.c11).collect()
}

#[derive(Clone, Debug)]
pub struct Path {
    pub hist: usize,
    pub order: Vec<(usize, usize)>,
    /// interrupt pull number `.0` of the order after `.1` answers
    pub cut: Option<(usize, usize)>,
}

pub fn paths(prop: &str, tier: Tier) -> Vec<Path> {
    let hs = select(prop, tier);
    let mut res = vec![];
    let maxlen = match (prop, tier) {
        ("C03", Tier::Quick) => 2,
        ("C03", Tier::Thorough) => 4,
        (_, Tier::Quick) => 3,
        (_, Tier::Thorough) => 5,
    };
    for (hi, h) in hs.iter().enumerate() {
        for len in 0..=maxlen {
            // longest orders only with 3 peers at most
            if h.peers > 3 && len > 3 {
                continue;
            }
            for o in pull_orders(h.peers, len) {
                res.push(Path { hist: hi, order: o, cut: None });
            }
        }
        // interruptions: every single pull of every order of length <= 2 cut after n answers
        if prop == "C03" {
            let cuts: Vec<usize> = if tier == Tier::Thorough { (1..=12).collect() } else { vec![2, 4, 6, 8] };
            for o in pull_orders(h.peers, 1).into_iter().chain(if tier == Tier::Thorough { pull_orders(h.peers, 2) } else { vec![] }) {
                for k in 0..o.len() {
                    for &c in &cuts {
                        res.push(Path { hist: hi, order: o.clone(), cut: Some((k, c)) });
                    }
                }
            }
        }
    }
    res
}

fn first_table_diff(a: &[(String, Vec<Sv>)], b: &[(String, Vec<Sv>)]) -> Option<String> {
    let sa: BTreeSet<&(String, Vec<Sv>)> = a.iter().collect();
    let sb: BTreeSet<&(String, Vec<Sv>)> = b.iter().collect();
    for t in ["node", "edge", "node_tombstone", "edge_tombstone"] {
        let ta: BTreeSet<_> = sa.iter().filter(|r| r.0 == t).collect();
        let tb: BTreeSet<_> = sb.iter().filter(|r| r.0 == t).collect();
        if ta != tb {
            return Some(t.to_string());
        }
    }
    None
}

/// C11 monitor: on every peer, a row whose tombstone is stored must not be visible at a version <= the deleted one
async fn tombstone_monitor(w: &SyncWorld<'_>, h: &Hist) -> Result<Option<String>, String> {
    for p in 0..w.n {
        let c = w.content(p).await?;
        for slot in &h.deleted_nodes {
            if let Some((id, _)) = w.slots.get(slot) {
                let idh = hex::encode_upper(id);
                let tomb: Vec<i64> = c
                    .iter()
                    .filter(|r| r.0 == "node_tombstone" && r.1[0].text() == Some(&idh))
                    .filter_map(|r| r.1[2].int())
                    .collect();
                if let Some(m) = tomb.iter().max() {
                    let vis = c.iter().find(|r| r.0 == "node" && r.1[0].text() == Some(&idh) && r.1[2].int().map(|d| d <= *m).unwrap_or(false));
                    if vis.is_some() {
                        return Ok(Some("node".into()));
                    }
                }
            }
        }
        for (ps, qs) in &h.deleted_refs {
            if let (Some((pid, _)), Some((qid, _))) = (w.slots.get(ps), w.slots.get(qs)) {
                let (ph, qh) = (hex::encode_upper(pid), hex::encode_upper(qid));
                let tomb: Vec<i64> = c
                    .iter()
                    .filter(|r| r.0 == "edge_tombstone" && r.1[0].text() == Some(&ph) && r.1[2].text() == Some(&qh))
                    .filter_map(|r| r.1[3].int())
                    .collect();
                if let Some(m) = tomb.iter().max() {
                    let vis = c.iter().find(|r| r.0 == "edge" && r.1[0].text() == Some(&ph) && r.1[2].text() == Some(&qh) && r.1[3].int().map(|d| d <= *m).unwrap_or(false));
                    if vis.is_some() {
                        return Ok(Some("reference".into()));
                    }
                }
            }
        }
    }
    Ok(None)
}

pub async fn run_path(u: &Universe, prop: &str, h: &Hist, path: &Path, out: &mut Outcome, verbose: bool) -> Result<(), String> {
    // histories named "late-member:..." start with one member less: the last identity joins during the history
    let members = if h.name.starts_with("late-member:") { h.peers - 1 } else { h.peers };
    let mut w = SyncWorld::new_with_members(u, h.peers, members).await?;
    let replay = json!({"history": h.name, "order": path.order, "cut": path.cut});
    for s in &h.steps {
        w.step(s).await?;
    }
    let mut monitor_hit: Option<(String, usize)> = None;
    if prop == "C11" {
        if let Some(k) = tombstone_monitor(&w, h).await? {
            monitor_hit = Some((k, 0));
        }
    }
    // the clock moves on: pulls happen the day after the last write
    set_clock(tick(20));
    for (i, (dst, src)) in path.order.iter().enumerate() {
        let opts = match path.cut {
            Some((k, c)) if k == i => PullOpts { cut_after: Some(c), allowed: None },
            _ => PullOpts::default(),
        };
        let st = w.pull(*dst, *src, opts).await;
        out.transitions += st.answers as u64;
        if verbose {
            println!("    pull {}<-{} {:?}", NAMES[*dst], NAMES[*src], st);
        }
        if prop == "C11" && monitor_hit.is_none() {
            if let Some(k) = tombstone_monitor(&w, h).await? {
                monitor_hit = Some((k, i + 1));
            }
        }
    }
    let rounds = w.close(3 * h.peers * h.peers).await?;
    out.transitions += w.protocol_answers as u64;
    out.evaluations += 1;
    if prop == "C11" && monitor_hit.is_none() {
        if let Some(k) = tombstone_monitor(&w, h).await? {
            monitor_hit = Some((k, path.order.len() + 1));
        }
    }
    let mut verdict = String::from("converged");
    if !w.errors.is_empty() && verbose {
        println!("    script errors {:?}", w.errors);
    }
    // contents
    let mut contents = vec![];
    for p in 0..h.peers {
        contents.push(w.content(p).await?);
    }
    if prop == "C03" {
        if rounds.is_none() {
            verdict = "no-quiescence".into();
            out.violation(format!("history={} clause=no-quiescence", h.name), "round-robin synchronisation keeps transferring rows", replay.clone());
        }
        for p in 1..h.peers {
            if let Some(t) = first_table_diff(&contents[0], &contents[p]) {
                verdict = format!("differ:{}", t);
                // references are outside the daily summary: a pull interrupted after the rows of a day are stored and
                // before their references are asked for is a root cause of its own (known finding), kept apart from
                // differences that need no interruption
                let interrupted = if t == "edge" && path.cut.is_some() { " after-interrupted-pull" } else { "" };
                out.violation(
                    format!("history={} clause=content-differs table={}{}", h.name, t, interrupted),
                    format!("after quiescence {} and {} hold different {} rows", NAMES[0], NAMES[p], t),
                    replay.clone(),
                );
                break;
            }
        }
        if verdict == "converged" {
            let q0 = w.queries(0).await;
            for p in 1..h.peers {
                let qp = w.queries(p).await;
                if q0 != qp {
                    verdict = "differ:query".into();
                    out.violation(format!("history={} clause=query-results-differ", h.name), "converged tables but different query results", replay.clone());
                }
            }
            // same stored content => same log (C09 cross-peer clause, reported under C03's key space)
            let l0 = w.daily_log(0).await?;
            for p in 1..h.peers {
                if w.daily_log(p).await? != l0 {
                    // C03 does not speak about the logs: this is C09's cross-peer clause, counted here and
                    // decided by the C09 check
                    out.count("converged-content-but-logs-differ");
                    break;
                }
            }
        }
    } else {
        if let Some((kind, at)) = &monitor_hit {
            verdict = format!("resurrected:{}", kind);
            out.violation(
                format!("history={} kind={} clause=visible-again-after-deletion-applied", h.name, kind),
                format!("a peer that had applied the deletion shows the {} again (first seen after step {} of the order)", kind, at),
                replay.clone(),
            );
        }
        // at quiescence: absent everywhere, tombstone everywhere
        for p in 0..h.peers {
            for slot in &h.deleted_nodes {
                if let Some((id, _)) = w.slots.get(slot) {
                    let idh = hex::encode_upper(id);
                    let present = contents[p].iter().any(|r| r.0 == "node" && r.1[0].text() == Some(&idh));
                    let tomb = contents[p].iter().any(|r| r.0 == "node_tombstone" && r.1[0].text() == Some(&idh));
                    if present || !tomb {
                        if verdict == "converged" {
                            verdict = format!("final:{}{}", if present { "row-present" } else { "" }, if !tomb { "-tombstone-missing" } else { "" });
                        }
                        out.violation(
                            format!("history={} kind=node clause=after-full-sync:{}{}", h.name, if present { "row-present" } else { "" }, if !tomb { "+tombstone-missing" } else { "" }),
                            format!("after every member synchronised, {} still {}", NAMES[p], if present { "shows the deleted row" } else { "lacks the deletion record" }),
                            replay.clone(),
                        );
                    }
                }
            }
            for (ps, qs) in &h.deleted_refs {
                if let (Some((pid, _)), Some((qid, _))) = (w.slots.get(ps), w.slots.get(qs)) {
                    let (ph, qh) = (hex::encode_upper(pid), hex::encode_upper(qid));
                    let present = contents[p].iter().any(|r| r.0 == "edge" && r.1[0].text() == Some(&ph) && r.1[2].text() == Some(&qh));
                    let tomb = contents[p].iter().any(|r| r.0 == "edge_tombstone" && r.1[0].text() == Some(&ph) && r.1[2].text() == Some(&qh));
                    if present || !tomb {
                        if verdict == "converged" {
                            verdict = "final:reference".into();
                        }
                        out.violation(
                            format!("history={} kind=reference clause=after-full-sync:{}{}", h.name, if present { "reference-present" } else { "" }, if !tomb { "+tombstone-missing" } else { "" }),
                            format!("after every member synchronised, {} still {}", NAMES[p], if present { "shows the deleted reference" } else { "lacks the deletion record" }),
                            replay.clone(),
                        );
                    }
                }
            }
        }
    }
    out.count(&verdict);
    // canonical end state: table kinds and row counts per peer + verdict (ids differ per path)
    let shape: Vec<BTreeMap<String, usize>> = contents
        .iter()
        .map(|c| {
            let mut m = BTreeMap::new();
            for r in c {
                *m.entry(r.0.clone()).or_insert(0) += 1;
            }
            m
        })
        .collect();
    out.state(&(h.name, &shape, &verdict));
    out.nontrivial(&(h.name, path.order.len(), &verdict, path.cut.is_some()));
    if verbose {
        println!("    rounds {:?} verdict {} shape {:?}", rounds, verdict, shape);
    }
    if out.samples.len() < 6 && out.evaluations % 29 == 1 {
        out.sample(json!({"history": h.name, "steps": format!("{:?}", h.steps), "order": path.order.iter().map(|(d, s)| format!("{}<-{}", NAMES[*d], NAMES[*s])).collect::<Vec<_>>(), "cut": path.cut, "verdict": verdict}));
    }
    Ok(())
}

fn replay(prop: &'static str, path: &str, tier: Tier) -> i32 {
    let text = std::fs::read_to_string(path).expect("replay file");
    let v: Value = serde_json::from_str(&text).expect("json");
    let r = &v["replay"];
    let hs = histories(Tier::Thorough);
    let h = hs.iter().find(|h| h.name == r["history"].as_str().unwrap()).expect("history").clone();
    let order: Vec<(usize, usize)> = serde_json::from_value(r["order"].clone()).unwrap();
    let cut: Option<(usize, usize)> = serde_json::from_value(r["cut"].clone()).unwrap_or(None);
    let _ = tier;
    let root = scratch_root();
    let _g = ScratchGuard(root.clone());
    for round in 0..2 {
        let rt = runtime();
        let mut out = Outcome::default();
        let res: Result<(), String> = rt.block_on(async {
            set_clock(tick(0));
            let u = Universe::start(&root).await?;
            run_path(&u, prop, &h, &Path { hist: 0, order: order.clone(), cut }, &mut out, true).await
        });
        println!("replay round {}: {:?}", round, res);
        for v in &out.violations {
            println!("  {} :: {}", v.key, v.what);
        }
    }
    0
}

pub fn run(args: &Args, prop: &'static str) -> i32 {
    if let Some(p) = &args.replay {
        return replay(prop, p, args.tier);
    }
    let start = Instant::now();
    let hs = select(prop, args.tier);
    let ps = paths(prop, args.tier);
    if let Some((i, n)) = args.shard {
        let root = scratch_root();
        let _g = ScratchGuard(root.clone());
        let mut out = Outcome::default();
        let mine: Vec<&Path> = ps.iter().enumerate().filter(|(k, _)| k % n == i).map(|(_, p)| p).collect();
        for chunk in mine.chunks(40) {
            let rt = runtime();
            let r: Result<(), String> = rt.block_on(async {
                set_clock(tick(0));
                let u = Universe::start(&root).await?;
                for p in chunk {
                    run_path(&u, prop, &hs[p.hist], p, &mut out, false).await?;
                }
                Ok(())
            });
            drop(rt);
            if let Err(e) = r {
                out.machinery_errors.push(e);
                break;
            }
        }
        emit_shard_outcome(&out);
        return 0;
    }
    let mut out = run_sharded(args, ncpu().min(16));
    out.traces_validated = out.evaluations;
    let meta = if prop == "C03" {
        CheckMeta {
            prop: "C03",
            level: "model_checking",
            rule: "every scripted history x every sequence of directed pulls among the members up to the length bound (consecutive repeats removed) x single interruptions of one pull after n answers, each followed by round-robin pulls to quiescence, all with the real pull routine against the real serving routine; states = distinct (history, per-peer table shape, verdict); non-trivial = distinct (history, order length, verdict, interrupted)".into(),
            bounds: json!({"histories": hs.len(), "paths": ps.len(), "max_order_length": args.tier.pick(2, 4), "peers": "3 (2 and 4 in thorough)", "interruptions": args.tier.pick("orders of length 1, cut after 2/4/6/8 answers", "orders of length <= 2, cut after 1..12 answers")}),
            assumptions: vec![
                "all members hold every right in the room (authorisation is C02/C12's subject)".into(),
                "writes happen before the enumerated pulls; a further round that writes nothing (SQLite data_version unchanged on every member) is quiescence".into(),
                "references are compared when both end rows are present".into(),
            ],
            exhaustive_claim: true,
        }
    } else {
        CheckMeta {
            prop: "C11",
            level: "model_checking",
            rule: "every deletion history x every sequence of directed pulls up to the length bound, tombstone monitor after every step (a peer holding the deletion record must not show the row at the deleted or an older version), then round-robin to quiescence and the final clause (row absent, deletion record present on every member); states/non-trivial as for C03".into(),
            bounds: json!({"histories": hs.len(), "paths": ps.len(), "max_order_length": args.tier.pick(3, 5), "peers": "3 (4 in thorough)"}),
            assumptions: vec![
                "all members hold every right in the room".into(),
                "the deletion record is the one the real deletion path wrote".into(),
            ],
            exhaustive_claim: true,
        }
    };
    finish(args, &meta, &out, start)
}
