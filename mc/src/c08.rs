//! C08 — a peer is served data only for rooms it is a member of.
//! Explicit-state search over the serving state of one connection (authenticated key, ready flag, the set of
//! rooms the connection may read, the clock) driven through the REAL `process_inbound`; in every distinct
//! serving state every query kind x identifier tuple is issued and every answer decoded: anything belonging
//! to a room where the oracle says the requester is not a member now (or anything before authentication) is a leak.
use crate::common::*;
use crate::rooms::*;
use crate::syncworld::params;
use crate::world::*;
use discret::verif::database::daily_log::{DailyLog, RoomDefinitionLog};
use discret::verif::database::edge::{Edge, EdgeDeletionEntry};
use discret::verif::database::node::{Node, NodeDeletionEntry, NodeIdentifier};
use discret::verif::database::room_node::RoomNode;
use discret::verif::event_service::Event;
use discret::verif::security::{HardwareFingerprint, Uid};
use discret::verif::synchronisation::peer_outbound_service::{InboundQueryService, RemotePeerHandle};
use discret::verif::synchronisation::{Answer, Query, QueryProtocol};
use serde_json::json;
use std::collections::{BTreeMap, BTreeSet, HashMap, HashSet, VecDeque};
use std::sync::atomic::AtomicBool;
use std::sync::Arc;
use std::time::Instant;
use tokio::sync::{mpsc, Mutex};

/// rooms of the victim (device A), named by the membership class of the requester B
const CLASSES: [&str; 7] = ["member", "former-member", "future-member", "never-member", "admin-only", "user-admin-only", "disabled-admin"];
const T_EARLY: i64 = 4;
const T_LATE: i64 = 12;

#[derive(Clone, Debug, PartialEq, Eq, Hash, PartialOrd, Ord, serde::Serialize)]
enum Ev {
    Authenticate,
    RoomList,
    Clock(i64),
    /// the local event "room definition changed" reaches the connection for the room of this class
    Notify(usize),
}

struct RoomFix {
    class: &'static str,
    id: Uid,
    ro: RO,
    /// row ids living in this room
    p: Uid,
    q: Uid,
    room_obj: Option<discret::Room>,
}

struct Victim {
    u: Universe,
    rooms: Vec<RoomFix>,
    owner: HashMap<Uid, usize>,
}

async fn build_victim(root: &std::path::PathBuf) -> Result<Victim, String> {
    set_clock(tick(0));
    let u = Universe::start(root).await?;
    let mut ev_rx = u.peers[0].subscribe().await;
    let b = 1usize;
    let mut rooms = vec![];
    for class in CLASSES {
        let groups: Vec<(Vec<(&str, bool, bool)>, Vec<usize>, Vec<usize>)> = match class {
            "member" | "former-member" => vec![(vec![("*", true, true)], vec![b, 2], vec![])],
            "user-admin-only" => vec![(vec![("*", true, true)], vec![2], vec![b])],
            _ => vec![(vec![("*", true, true)], vec![2], vec![])],
        };
        let mut room = u.create_room(0, tick(0), &groups).await?;
        match class {
            "former-member" => {
                u.apply_event(&mut room, &REvent::AddUser { group: 0, key: b, enabled: false }, 0, tick(8)).await?;
            }
            "future-member" => {
                u.apply_event(&mut room, &REvent::AddUser { group: 0, key: b, enabled: true }, 0, tick(8)).await?;
            }
            "admin-only" => {
                u.apply_event(&mut room, &REvent::AddAdmin { key: b, enabled: true }, 0, tick(1)).await?;
            }
            "disabled-admin" => {
                u.apply_event(&mut room, &REvent::AddAdmin { key: b, enabled: true }, 0, tick(1)).await?;
                u.apply_event(&mut room, &REvent::AddAdmin { key: b, enabled: false }, 0, tick(8)).await?;
            }
            _ => {}
        }
        // content: a P row with a reference to a Q row, a deleted P row, a deleted reference (all by A, day of tick 2)
        set_clock(tick(2));
        let rid = b64(&room.id);
        let a = &u.peers[0];
        let q = a.db.mutate_raw("mutate { ns.Q { room_id:$r name:\"q\" } }", Some(params(&[("r", rid.clone())]))).await.map_err(|e| e.to_string())?;
        let qid = q.mutate_entities[0].node_to_mutate.id;
        let p = a
            .db
            .mutate_raw("mutate { ns.P { room_id:$r name:\"secret\" qs:[{id:$q}] } }", Some(params(&[("r", rid.clone()), ("q", b64(&qid))])))
            .await
            .map_err(|e| e.to_string())?;
        let pid = p.mutate_entities[0].node_to_mutate.id;
        let q2 = a.db.mutate_raw("mutate { ns.Q { room_id:$r name:\"q2\" } }", Some(params(&[("r", rid.clone())]))).await.map_err(|e| e.to_string())?;
        let q2id = q2.mutate_entities[0].node_to_mutate.id;
        a.mutate("mutate { ns.P { id:$p qs:[{id:$q}] } }", Some(params(&[("p", b64(&pid)), ("q", b64(&q2id))]))).await?;
        let p2 = a.db.mutate_raw("mutate { ns.P { room_id:$r name:\"gone\" } }", Some(params(&[("r", rid.clone())]))).await.map_err(|e| e.to_string())?;
        let p2id = p2.mutate_entities[0].node_to_mutate.id;
        a.delete("delete { ns.P { $p } }", Some(params(&[("p", b64(&p2id))]))).await?;
        a.delete("delete { ns.P { $p qs[$q] } }", Some(params(&[("p", b64(&pid)), ("q", b64(&q2id))]))).await?;
        a.barrier().await;
        rooms.push(RoomFix { class, id: room.id, ro: room.ro.clone(), p: pid, q: qid, room_obj: None });
    }
    // references across rooms: every row P of another room points to the member room's Q row, and the member
    // room's P row points to every other room's Q row (a reference belongs to the room of its SOURCE row)
    {
        set_clock(tick(2) + 500);
        let a = &u.peers[0];
        let (mp, mq) = (rooms[0].p, rooms[0].q);
        for f in rooms.iter().skip(1) {
            a.mutate("mutate { ns.P { id:$p qs:[{id:$q}] } }", Some(params(&[("p", b64(&f.p)), ("q", b64(&mq))]))).await?;
            a.mutate("mutate { ns.P { id:$p qs:[{id:$q}] } }", Some(params(&[("p", b64(&mp)), ("q", b64(&f.q))]))).await?;
        }
        a.barrier().await;
    }
    // the in-memory rooms, as the local event carries them
    loop {
        match ev_rx.try_recv() {
            Ok(Event::RoomModified(r)) => {
                for f in rooms.iter_mut() {
                    if f.id == r.id {
                        f.room_obj = Some((*r).clone());
                    }
                }
            }
            Ok(_) => {}
            Err(tokio::sync::broadcast::error::TryRecvError::Lagged(_)) => {}
            Err(_) => break,
        }
    }
    // lagging is possible with many rooms: fall back to reloading from storage
    for f in rooms.iter_mut() {
        f.room_obj = Some(crate::c10::reload_room(&u.peers[0], &f.id).await?);
    }
    let mut owner = HashMap::new();
    for (i, f) in rooms.iter().enumerate() {
        let r = u.peers[0].sql(&format!("SELECT id FROM _node WHERE room_id = x'{}'", hex::encode_upper(f.id))).await?;
        for row in r {
            let mut id = [0u8; 16];
            id.copy_from_slice(row[0].blob().unwrap());
            owner.insert(id, i);
        }
        owner.insert(f.id, i);
    }
    Ok(Victim { u, rooms, owner })
}

struct Conn {
    handle: RemotePeerHandle,
    rx: mpsc::Receiver<Answer>,
    key: Arc<Mutex<Vec<u8>>>,
    ready: Arc<AtomicBool>,
    fp: HardwareFingerprint,
    next_id: u64,
    clock: i64,
}

impl Conn {
    fn new(v: &Victim) -> Conn {
        let (tx, rx) = mpsc::channel::<Answer>(256);
        Conn {
            handle: RemotePeerHandle {
                allowed_room: HashSet::new(),
                db: v.u.peers[0].db.clone(),
                verifying_key: v.u.peers[0].verifying_key.clone(),
                reply: tx,
            },
            rx,
            key: Arc::new(Mutex::new(vec![])),
            ready: Arc::new(AtomicBool::new(false)),
            fp: HardwareFingerprint { id: [3u8; 16], name: "victim".into() },
            next_id: 0,
            clock: tick(T_EARLY),
        }
    }

    async fn ask(&mut self, q: Query) -> Result<Vec<Answer>, String> {
        set_clock(self.clock);
        self.next_id += 1;
        let msg = QueryProtocol { id: self.next_id, query: q };
        let r = InboundQueryService::process_inbound(msg, &mut self.handle, &self.key, &self.ready, &self.fp).await;
        let mut res = vec![];
        while let Ok(a) = self.rx.try_recv() {
            res.push(a);
        }
        if let Err(e) = r {
            // an error returned by the handler closes nothing by itself: record as an answer-less outcome
            let _ = e;
        }
        Ok(res)
    }

    async fn apply(&mut self, v: &Victim, e: &Ev) -> Result<(), String> {
        match e {
            Ev::Authenticate => {
                // what initialise_connection does after the identity proof succeeded
                *self.key.lock().await = v.u.keys[1].clone();
                self.ready.store(true, std::sync::atomic::Ordering::Relaxed);
            }
            Ev::RoomList => {
                let _ = self.ask(Query::RoomList).await?;
            }
            Ev::Clock(t) => self.clock = tick(*t),
            Ev::Notify(i) => {
                // the REAL handler of local events of a connection (LocalPeerService::process_local_event) with a
                // detached service handle: the rooms it grants are then added to the connection as the service task does
                if let Some(room) = &v.rooms[*i].room_obj {
                    let (svc, mut granted) = InboundQueryService::verif_detached();
                    let (etx, mut erx) = mpsc::channel::<discret::verif::synchronisation::RemoteEvent>(16);
                    discret::verif::synchronisation::peer_inbound_service::LocalPeerService::verif_process_local_event(
                        discret::verif::synchronisation::LocalEvent::RoomDefinitionChanged(Arc::new(room.clone())),
                        &self.key,
                        &etx,
                        &HashSet::new(),
                        &svc,
                    )
                    .await
                    .map_err(|e| e.to_string())?;
                    while let Ok(uid) = granted.try_recv() {
                        self.handle.allowed_room.insert(uid);
                    }
                    while erx.try_recv().is_ok() {}
                }
            }
        }
        Ok(())
    }

    async fn state_key(&self, v: &Victim) -> (bool, bool, Vec<usize>, i64) {
        let auth = !self.key.lock().await.is_empty();
        let ready = self.ready.load(std::sync::atomic::Ordering::Relaxed);
        let mut allowed: Vec<usize> = self.handle.allowed_room.iter().filter_map(|r| v.rooms.iter().position(|f| f.id == *r)).collect();
        allowed.sort();
        (auth, ready, allowed, self.clock)
    }
}

fn queries_for(v: &Victim, i: usize) -> Vec<(&'static str, Query)> {
    let f = &v.rooms[i];
    let day = tick(2);
    let u = &v.u;
    vec![
        ("RoomDefinition", Query::RoomDefinition(f.id)),
        ("RoomNode", Query::RoomNode(f.id)),
        ("RoomLog", Query::RoomLog(f.id)),
        ("RoomLogAt", Query::RoomLogAt(f.id, day)),
        ("EdgeDeletionLog", Query::EdgeDeletionLog(f.id, u.p_short.clone(), day)),
        ("NodeDeletionLog", Query::NodeDeletionLog(f.id, u.p_short.clone(), day)),
        ("RoomDailyNodes", Query::RoomDailyNodes(f.id, u.p_short.clone(), day)),
        ("Nodes", Query::Nodes(f.id, vec![f.p, f.q])),
        ("Edges", Query::Edges(f.id, vec![(f.p, 0)])),
        ("PeersForRoom", Query::PeersForRoom(f.id)),
    ]
}

/// queries that name room `i` but identifiers of room `j`
fn cross_queries(v: &Victim, i: usize, j: usize) -> Vec<(&'static str, Query)> {
    let a = &v.rooms[i];
    let b = &v.rooms[j];
    vec![
        ("Nodes-foreign-ids", Query::Nodes(a.id, vec![b.p, b.q, b.id])),
        ("Edges-foreign-ids", Query::Edges(a.id, vec![(b.p, 0)])),
    ]
}

/// rooms whose data appears in the answers
fn rooms_in_answers(v: &Victim, kind: &str, named: usize, answers: &[Answer]) -> Result<BTreeSet<usize>, String> {
    let mut found = BTreeSet::new();
    let owner_of = |id: &Uid| -> Option<usize> { v.owner.get(id).copied() };
    for a in answers {
        if !a.success || a.serialized.is_empty() {
            continue;
        }
        let s = &a.serialized;
        match kind {
            "RoomList" => {
                if let Ok(l) = bincode::deserialize::<VecDeque<Uid>>(s) {
                    for r in l {
                        if let Some(i) = owner_of(&r) {
                            found.insert(i);
                        }
                    }
                }
            }
            "RoomDefinition" => {
                if let Ok(Some(d)) = bincode::deserialize::<Option<RoomDefinitionLog>>(s) {
                    if let Some(i) = owner_of(&d.room_id) {
                        found.insert(i);
                    }
                }
            }
            "RoomNode" => {
                if let Ok(Some(d)) = bincode::deserialize::<Option<RoomNode>>(s) {
                    if let Some(i) = owner_of(&d.node.id) {
                        found.insert(i);
                    }
                }
            }
            "RoomLog" | "RoomLogAt" => {
                if let Ok(l) = bincode::deserialize::<Vec<DailyLog>>(s) {
                    for d in l {
                        if let Some(i) = owner_of(&d.room_id) {
                            found.insert(i);
                        }
                    }
                }
            }
            "EdgeDeletionLog" => {
                if let Ok(l) = bincode::deserialize::<Vec<EdgeDeletionEntry>>(s) {
                    for d in l {
                        if let Some(i) = owner_of(&d.room_id) {
                            found.insert(i);
                        }
                    }
                }
            }
            "NodeDeletionLog" => {
                if let Ok(l) = bincode::deserialize::<Vec<NodeDeletionEntry>>(s) {
                    for d in l {
                        if let Some(i) = owner_of(&d.room_id) {
                            found.insert(i);
                        }
                    }
                }
            }
            "RoomDailyNodes" => {
                if let Ok(l) = bincode::deserialize::<HashSet<NodeIdentifier>>(s) {
                    for d in l {
                        if let Some(i) = owner_of(&d.id) {
                            found.insert(i);
                        }
                    }
                }
            }
            "Nodes" | "Nodes-foreign-ids" => {
                if let Ok(l) = bincode::deserialize::<Vec<Node>>(s) {
                    for d in l {
                        if let Some(i) = d.room_id.as_ref().and_then(owner_of).or_else(|| owner_of(&d.id)) {
                            found.insert(i);
                        }
                    }
                }
            }
            "Edges" | "Edges-foreign-ids" => {
                if let Ok(l) = bincode::deserialize::<Vec<Edge>>(s) {
                    for d in l {
                        if let Some(i) = owner_of(&d.src) {
                            found.insert(i);
                        }
                    }
                }
            }
            "PeersForRoom" => {
                if let Ok(l) = bincode::deserialize::<Vec<Node>>(s) {
                    if !l.is_empty() {
                        found.insert(named);
                    }
                }
            }
            _ => {}
        }
    }
    Ok(found)
}

async fn explore(root: &std::path::PathBuf, tier: Tier, out: &mut Outcome, verbose_key: Option<&str>) -> Result<(), String> {
    let v = build_victim(root).await?;
    let depth = tier.pick(4, 5);
    let mut alphabet = vec![Ev::Authenticate, Ev::RoomList, Ev::Clock(T_EARLY), Ev::Clock(T_LATE)];
    for i in 0..CLASSES.len() {
        alphabet.push(Ev::Notify(i));
    }
    let mut seen: BTreeMap<(bool, bool, Vec<usize>, i64), Vec<Ev>> = BTreeMap::new();
    let mut frontier: VecDeque<Vec<Ev>> = VecDeque::new();
    frontier.push_back(vec![]);
    while let Some(hist) = frontier.pop_front() {
        let mut c = Conn::new(&v);
        for e in &hist {
            c.apply(&v, e).await?;
            out.transitions += 1;
        }
        let k = c.state_key(&v).await;
        if seen.contains_key(&k) {
            continue;
        }
        seen.insert(k.clone(), hist.clone());
        out.state(&k);
        // evaluate every request in this serving state
        let (auth, _ready, _allowed, clock) = k.clone();
        let member_now: Vec<bool> = v.rooms.iter().map(|f| f.ro.member(1, clock)).collect();
        let mut check = |kind: &str, named: usize, found: BTreeSet<usize>, out: &mut Outcome, hist: &Vec<Ev>| {
            for r in found {
                let class = v.rooms[r].class;
                let leak = !auth || !member_now[r];
                let verdict = format!("{}:{}:{}", kind, class, if leak { "LEAK" } else { "served" });
                out.count(&verdict);
                out.nontrivial(&(kind.to_string(), class, leak));
                if leak {
                    let key = format!(
                        "query={} room-class={}{} auth={}",
                        kind,
                        class,
                        if r != named { "(named:other)" } else { "" },
                        if auth { "yes" } else { "no" }
                    );
                    if verbose_key == Some(key.as_str()) {
                        println!("  leak in state {:?} after {:?}", k, hist);
                    }
                    out.violation(
                        key,
                        format!("{} returned data of a room where the requester is {} at the time of the request", kind, class),
                        json!({"events": hist, "query": kind, "room_class": class}),
                    );
                }
            }
        };
        let ans = c.ask(Query::RoomList).await?;
        out.evaluations += 1;
        // asking RoomList may itself initialise the readable set: evaluate the other requests on a replayed copy
        check("RoomList", usize::MAX, rooms_in_answers(&v, "RoomList", usize::MAX, &ans)?, out, &hist);
        let mut c = Conn::new(&v);
        for e in &hist {
            c.apply(&v, e).await?;
        }
        for i in 0..v.rooms.len() {
            for (kind, q) in queries_for(&v, i) {
                let ans = c.ask(q).await?;
                out.evaluations += 1;
                out.transitions += 1;
                let found = rooms_in_answers(&v, kind, i, &ans)?;
                if found.is_empty() {
                    out.count(&format!("{}:{}:nothing", kind, v.rooms[i].class));
                }
                check(kind, i, found, out, &hist);
            }
            for j in 0..v.rooms.len() {
                if i == j {
                    continue;
                }
                for (kind, q) in cross_queries(&v, i, j) {
                    let ans = c.ask(q).await?;
                    out.evaluations += 1;
                    out.transitions += 1;
                    let found = rooms_in_answers(&v, kind, i, &ans)?;
                    check(kind, i, found, out, &hist);
                }
            }
        }
        let ans = c.ask(Query::HardwareFingerprint()).await?;
        out.evaluations += 1;
        if ans.iter().any(|a| a.success && !a.serialized.is_empty()) {
            out.violation("query=HardwareFingerprint served-to-another-key", "hardware fingerprint returned to a peer that is not the device owner", json!({"events": hist}));
        }
        if out.samples.len() < 5 {
            out.sample(json!({"serving_state": format!("{:?}", k), "reached_by": hist}));
        }
        if hist.len() < depth {
            for e in &alphabet {
                let mut h = hist.clone();
                h.push(e.clone());
                frontier.push_back(h);
            }
        }
    }
    out.notes.push(format!("distinct serving states: {}", seen.len()));
    Ok(())
}

pub fn run(args: &Args) -> i32 {
    let start = Instant::now();
    let root = scratch_root();
    let _g = ScratchGuard(root.clone());
    let mut out = Outcome::default();
    let vk: Option<String> = args.replay.as_ref().map(|p| {
        let v: serde_json::Value = serde_json::from_str(&std::fs::read_to_string(p).expect("replay file")).unwrap();
        v["key"].as_str().unwrap().to_string()
    });
    let rounds = if vk.is_some() { 2 } else { 1 };
    for round in 0..rounds {
        let rt = runtime();
        let mut o = Outcome::default();
        let r = rt.block_on(explore(&root, args.tier, &mut o, vk.as_deref()));
        drop(rt);
        if let Err(e) = r {
            o.machinery_errors.push(e);
        }
        if vk.is_some() {
            println!("replay round {}: {}", round, if o.violations.iter().any(|v| Some(&v.key) == vk.as_ref()) { "reproduced" } else { "NOT reproduced" });
        }
        out = o;
    }
    if vk.is_some() {
        return 0;
    }
    out.traces_validated = out.evaluations;
    let meta = CheckMeta {
        prop: "C08",
        level: "model_checking",
        rule: "breadth-first search over events {authenticate, RoomList, clock early/late, definition-change notification per room class} on one connection, deduplicated on the serving state (authenticated, ready, readable room set, clock); in every distinct state every query kind x room (7 membership classes) plus cross-room identifier tuples goes through the real process_inbound and every answer is decoded; non-trivial = distinct (query kind, room class, leak?)".into(),
        bounds: json!({"room_classes": CLASSES.len(), "event_depth": args.tier.pick(4, 5), "query_kinds": 13}),
        assumptions: vec![
            "rights oracle: member = admin, user or user admin enabled at the time of the request".into(),
            "the definition-change notification is emulated with the rule of LocalPeerService::process_local_event (room.has_user(key) => add_allowed_room) using the real Room::has_user; authentication sets the key and ready flag as initialise_connection does after a successful proof (the proof itself is C19's subject)".into(),
            "canonical serving state = (authenticated, ready, readable set, clock): process_inbound reads nothing else of the connection".into(),
        ],
        exhaustive_claim: true,
    };
    finish(args, &meta, &out, start)
}
