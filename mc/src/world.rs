//! Full world: real `GraphDatabaseService` instances (actors, reader/writer threads, SQLCipher file)
//! wired back to back through the real pull (`synchronise_room`) and the real serving routine
//! (`InboundQueryService::process_inbound`).
use discret::verif::configuration::Configuration;
use discret::verif::database::graph_database::GraphDatabaseService;
use discret::verif::database::query_language::parameter::Parameters;
use discret::verif::database::sqlite_database::Writeable;
use discret::verif::discret::DiscretServices;
use discret::verif::event_service::{Event, EventService};
use discret::verif::peer_connection_service::{PeerConnectionMessage, PeerConnectionService};
use discret::verif::security::{HardwareFingerprint, Uid};
use discret::verif::signature_verification_service::SignatureVerificationService;
use discret::verif::synchronisation::peer_inbound_service::{LocalPeerService, QueryService};
use discret::verif::synchronisation::peer_outbound_service::{
    InboundQueryService, RemotePeerHandle,
};
use discret::verif::synchronisation::{Answer, QueryProtocol};
use discret::verif_hooks;
use std::collections::HashSet;
use std::path::PathBuf;
use std::sync::atomic::{AtomicBool, AtomicU64, AtomicUsize, Ordering};
use std::sync::Arc;
use tokio::sync::{broadcast, mpsc, oneshot, Mutex};

pub const DAY: i64 = 86_400_000;
/// 2024-01-01T00:00:00Z, base of the harness clock
pub const T0: i64 = 1_704_067_200_000;

pub fn set_clock(ms: i64) {
    verif_hooks::set_now(Some(ms));
}

pub fn b64(data: &[u8]) -> String {
    discret::base64_encode(data)
}

pub fn uid_from_b64(s: &str) -> Uid {
    discret::verif::security::uid_decode(s).expect("uid")
}

pub fn key_material(seed: u8) -> [u8; 32] {
    let mut k = [seed; 32];
    k[0] = 0xA5;
    k[31] = seed.wrapping_mul(31).wrapping_add(7);
    k
}

#[derive(Clone, Debug, PartialEq, Eq, Hash, PartialOrd, Ord, serde::Serialize)]
pub enum Sv {
    Null,
    Int(i64),
    Real(String),
    Text(String),
    Blob(Vec<u8>),
}
impl Sv {
    pub fn blob(&self) -> Option<&Vec<u8>> {
        match self {
            Sv::Blob(b) => Some(b),
            _ => None,
        }
    }
    pub fn int(&self) -> Option<i64> {
        match self {
            Sv::Int(i) => Some(*i),
            _ => None,
        }
    }
    pub fn text(&self) -> Option<&str> {
        match self {
            Sv::Text(t) => Some(t),
            _ => None,
        }
    }
}

pub fn sql_rows_conn(conn: &rusqlite::Connection, sql: &str) -> Result<Vec<Vec<Sv>>, String> {
    let mut stmt = conn.prepare(sql).map_err(|e| e.to_string())?;
    let n = stmt.column_count();
    let mut rows = stmt.query([]).map_err(|e| e.to_string())?;
    let mut out = vec![];
    while let Some(row) = rows.next().map_err(|e| e.to_string())? {
        let mut r = Vec::with_capacity(n);
        for i in 0..n {
            let v = row.get_ref(i).map_err(|e| e.to_string())?;
            r.push(match v {
                rusqlite::types::ValueRef::Null => Sv::Null,
                rusqlite::types::ValueRef::Integer(i) => Sv::Int(i),
                rusqlite::types::ValueRef::Real(f) => Sv::Real(format!("{:?}", f)),
                rusqlite::types::ValueRef::Text(t) => {
                    Sv::Text(String::from_utf8_lossy(t).to_string())
                }
                rusqlite::types::ValueRef::Blob(b) => Sv::Blob(b.to_vec()),
            });
        }
        out.push(r);
    }
    Ok(out)
}

static PEER_COUNTER: AtomicUsize = AtomicUsize::new(0);

pub struct FPeer {
    pub name: String,
    pub seed: u8,
    pub app_key: String,
    pub dir: PathBuf,
    pub db: GraphDatabaseService,
    pub verifying_key: Vec<u8>,
    pub private_room: Uid,
    pub events: EventService,
    pub services: DiscretServices,
    pub peer_service: PeerConnectionService,
    /// messages sent by the code under test to the peer connection service (harness owned)
    pub peer_msgs: Arc<Mutex<Vec<String>>>,
    pub config: Configuration,
}

pub fn small_config() -> Configuration {
    Configuration {
        parallelism: 1,
        enable_multicast: false,
        enable_beacons: false,
        ..Default::default()
    }
}

impl FPeer {
    pub async fn start(name: &str, seed: u8, model: &str, root: &PathBuf) -> Result<FPeer, String> {
        let n = PEER_COUNTER.fetch_add(1, Ordering::SeqCst);
        let dir = root.join(format!("{}-{}", name, n));
        Self::start_in(name, seed, model, dir, small_config()).await
    }

    pub async fn start_in(
        name: &str,
        seed: u8,
        model: &str,
        dir: PathBuf,
        config: Configuration,
    ) -> Result<FPeer, String> {
        std::fs::create_dir_all(&dir).map_err(|e| e.to_string())?;
        let app_key = "mc verif app".to_string();
        let km = key_material(seed);
        let mut pubk = [0u8; 32];
        pubk[0] = seed;
        let events = EventService::new();
        let (db, verifying_key, private_room) = GraphDatabaseService::start(
            &app_key,
            model,
            &km,
            &pubk,
            dir.clone(),
            &config,
            events.clone(),
        )
        .await
        .map_err(|e| format!("start {}: {}", name, e))?;
        let sig = SignatureVerificationService::start(1);
        let services = DiscretServices {
            events: events.clone(),
            database: db.clone(),
            signature_verification: sig,
        };
        let (sender, mut receiver) = mpsc::channel::<PeerConnectionMessage>(64);
        let peer_msgs = Arc::new(Mutex::new(Vec::new()));
        let pm = peer_msgs.clone();
        tokio::spawn(async move {
            while let Some(m) = receiver.recv().await {
                let d = match m {
                    PeerConnectionMessage::NewPeer(n) => format!("NewPeer({})", n.len()),
                    PeerConnectionMessage::PeerConnected(k, _) => {
                        format!("PeerConnected({})", b64(&k))
                    }
                    PeerConnectionMessage::PeerDisconnected(k, _, _) => {
                        format!("PeerDisconnected({})", b64(&k))
                    }
                    PeerConnectionMessage::InviteAccepted(_, n) => {
                        format!("InviteAccepted({})", b64(&n.verifying_key))
                    }
                    PeerConnectionMessage::ValidateHardware(_, _, reply) => {
                        let _ = reply.send(Ok(true));
                        "ValidateHardware".to_string()
                    }
                    _ => "other".to_string(),
                };
                pm.lock().await.push(d);
            }
        });
        let peer = FPeer {
            name: name.to_string(),
            seed,
            app_key,
            dir,
            db,
            verifying_key,
            private_room,
            events,
            services,
            peer_service: PeerConnectionService { sender },
            peer_msgs,
            config,
        };
        peer.barrier().await;
        Ok(peer)
    }

    /// a second instance on the same folder (the first one is left idle): models a restart
    pub async fn restart(&self, model: &str) -> Result<FPeer, String> {
        self.barrier().await;
        Self::start_in(
            &self.name,
            self.seed,
            model,
            self.dir.clone(),
            self.config.clone(),
        )
        .await
    }

    pub fn key_b64(&self) -> String {
        b64(&self.verifying_key)
    }

    /// Quiescence barrier (channels are FIFO, every actor is sequential): everything the previous
    /// calls caused (commit, daily log pass, events) has happened when this returns.
    pub async fn barrier(&self) {
        struct Noop;
        impl Writeable for Noop {
            fn write(&mut self, _c: &rusqlite::Connection) -> Result<(), rusqlite::Error> {
                Ok(())
            }
        }
        let _ = self.db.datamodel().await;
        let _ = self.db.db.writer.write(Box::new(Noop)).await;
        let _ = self.db.datamodel().await;
        let _ = self.events.subcribe().await;
    }

    pub async fn subscribe(&self) -> broadcast::Receiver<Event> {
        self.events.subcribe().await
    }

    pub async fn mutate(&self, m: &str, p: Option<Parameters>) -> Result<String, String> {
        self.db.mutate(m, p).await.map_err(|e| e.to_string())
    }

    pub async fn query(&self, q: &str, p: Option<Parameters>) -> Result<String, String> {
        self.db.query(q, p).await.map_err(|e| e.to_string())
    }

    pub async fn delete(&self, d: &str, p: Option<Parameters>) -> Result<(), String> {
        self.db
            .delete(d, p)
            .await
            .map(|_| ())
            .map_err(|e| e.to_string())
    }

    /// run SQL on a reader connection of the real service
    pub async fn sql(&self, sql: &str) -> Result<Vec<Vec<Sv>>, String> {
        let (tx, rx) = oneshot::channel();
        let sql = sql.to_string();
        self.db
            .db
            .reader
            .send_async(Box::new(move |conn| {
                let _ = tx.send(sql_rows_conn(conn, &sql));
            }))
            .await
            .map_err(|e| e.to_string())?;
        rx.await.map_err(|e| e.to_string())?
    }

    /// run arbitrary SQL on the writer connection, in the writer's batch transaction, no validation
    pub async fn raw_write(&self, stmts: Vec<String>) -> Result<(), String> {
        struct Raw(Vec<String>);
        impl Writeable for Raw {
            fn write(&mut self, c: &rusqlite::Connection) -> Result<(), rusqlite::Error> {
                for s in &self.0 {
                    c.execute(s, [])?;
                }
                Ok(())
            }
        }
        self.db
            .db
            .writer
            .write(Box::new(Raw(stmts)))
            .await
            .map(|_| ())
            .map_err(|e| e.to_string())
    }

    /// write any `Writeable` through the real writer (no validation): used to build dishonest databases
    pub async fn write_unchecked(
        &self,
        w: Box<dyn Writeable + Send>,
    ) -> Result<(), String> {
        self.db
            .db
            .writer
            .write(w)
            .await
            .map(|_| ())
            .map_err(|e| e.to_string())
    }
}

#[derive(Debug, Clone, Default)]
pub struct PullStats {
    pub ok: bool,
    pub error: Option<String>,
    /// protocol queries received by the serving side
    pub queries: usize,
    /// answers sent back (including completion markers)
    pub answers: usize,
    /// total payload bytes of the answers to Nodes / Edges / deletion log queries
    pub data_answers: usize,
    pub cut: bool,
}

#[derive(Clone, Default)]
pub struct PullOpts {
    /// stop delivering after this many answers (the connection "drops")
    pub cut_after: Option<usize>,
    /// rooms the serving side considers the requester a member of; None = ask the real RoomList logic
    pub allowed: Option<Vec<Uid>>,
}

/// `dst` pulls `room` from `src` with the real client routine against the real serving routine.
pub async fn pull(dst: &FPeer, src: &FPeer, room: Uid, opts: PullOpts) -> PullStats {
    let (tx_q, mut rx_q) = mpsc::channel::<QueryProtocol>(16);
    let (tx_a, rx_a) = mpsc::channel::<Answer>(16);
    let (tx_mid, mut rx_mid) = mpsc::channel::<Answer>(16);
    let query_service = QueryService::start(tx_q, rx_a);

    let answers = Arc::new(AtomicU64::new(0));
    let data_answers = Arc::new(AtomicU64::new(0));
    let queries = Arc::new(AtomicU64::new(0));
    let cut = Arc::new(AtomicBool::new(false));

    // forwarder: counts and optionally cuts
    let fw_answers = answers.clone();
    let fw_data = data_answers.clone();
    let fw_cut = cut.clone();
    let cut_after = opts.cut_after;
    let forwarder = tokio::spawn(async move {
        while let Some(a) = rx_mid.recv().await {
            let n = fw_answers.fetch_add(1, Ordering::SeqCst) + 1;
            if let Some(c) = cut_after {
                if n as usize > c {
                    fw_cut.store(true, Ordering::SeqCst);
                    break;
                }
            }
            if !a.complete || a.serialized.len() > 16 {
                fw_data.fetch_add(a.serialized.len() as u64, Ordering::SeqCst);
            }
            if tx_a.send(a).await.is_err() {
                break;
            }
        }
        // dropping tx_a closes the answer channel
    });

    let allowed: HashSet<Uid> = match &opts.allowed {
        Some(v) => v.iter().copied().collect(),
        None => {
            let mut s = HashSet::new();
            let mut r = src.db.get_rooms_for_peer(dst.verifying_key.clone()).await;
            while let Some(Ok(list)) = r.recv().await {
                for u in list {
                    s.insert(u);
                }
            }
            s
        }
    };
    let mut handle = RemotePeerHandle {
        allowed_room: allowed,
        db: src.db.clone(),
        verifying_key: src.verifying_key.clone(),
        reply: tx_mid,
    };
    let remote_key = Arc::new(Mutex::new(dst.verifying_key.clone()));
    let conn_ready = Arc::new(AtomicBool::new(true));
    let fingerprint = HardwareFingerprint {
        id: [7u8; 16],
        name: "mc".to_string(),
    };
    let p_queries = queries.clone();
    let pump = tokio::spawn(async move {
        while let Some(msg) = rx_q.recv().await {
            p_queries.fetch_add(1, Ordering::SeqCst);
            let r = InboundQueryService::process_inbound(
                msg,
                &mut handle,
                &remote_key,
                &conn_ready,
                &fingerprint,
            )
            .await;
            if r.is_err() {
                break;
            }
        }
    });

    let res = LocalPeerService::verif_synchronise_room(
        room,
        &query_service,
        dst.peer_service.clone(),
        &dst.services,
    )
    .await;
    drop(query_service);
    pump.abort();
    forwarder.abort();
    let _ = pump.await;
    let _ = forwarder.await;
    dst.barrier().await;
    PullStats {
        ok: res.is_ok(),
        error: res.err().map(|e| e.to_string()),
        queries: queries.load(Ordering::SeqCst) as usize,
        answers: answers.load(Ordering::SeqCst) as usize,
        data_answers: data_answers.load(Ordering::SeqCst) as usize,
        cut: cut.load(Ordering::SeqCst),
    }
}

/// transfer the room definition only (real export, real signature check, real import)
pub async fn transfer_room_def(dst: &FPeer, src: &FPeer, room: Uid) -> Result<(), String> {
    let node = src
        .db
        .get_room_node(room)
        .await
        .map_err(|e| e.to_string())?
        .ok_or("room unknown on source".to_string())?;
    // the wire format drops local row ids (#[serde(skip)]): go through it as the protocol does
    let bytes = bincode::serialize(&node).map_err(|e| e.to_string())?;
    let node: discret::verif::database::room_node::RoomNode =
        bincode::deserialize(&bytes).map_err(|e| e.to_string())?;
    let node = dst
        .services
        .signature_verification
        .verify_room_node(node)
        .await
        .map_err(|e| e.to_string())?;
    dst.db.add_room_node(node).await.map_err(|e| e.to_string())?;
    dst.barrier().await;
    Ok(())
}

pub fn runtime() -> tokio::runtime::Runtime {
    tokio::runtime::Builder::new_current_thread()
        .enable_all()
        .build()
        .unwrap()
}
