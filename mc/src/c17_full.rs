//! C17, cross-peer part: two real services A and B sharing a room; rows created / updated / deleted
//! on one, real `pull` to the other; after every step the search oracle is evaluated on both peers.
//! Histories are enumerated exhaustively up to a depth bound over a small event alphabet; every
//! maximal history runs on fresh instances.
use crate::c17::{parse_ids, LastWrite, ABSENT, MODEL_ON, SEARCH_QUERY, TOKENS};
use crate::common::*;
use crate::world::*;
use discret::verif::database::query_language::data_model_parser::DataModel;
use discret::verif::database::query_language::parameter::{Parameters, ParametersAdd};
use discret::verif::security::{uid_encode, Uid};
use serde::{Deserialize, Serialize};
use serde_json::{json, Value};
use std::collections::{BTreeMap, BTreeSet};

/// text given to a created row
#[derive(Clone, Copy, Debug, Serialize, Deserialize, PartialEq, Eq, Hash)]
pub enum Text {
    /// a = "aaa"
    One,
    /// a = "bbb", b = "ccc"
    Two,
    /// a = "aaa" followed by 600 'x': more index entries than a fresh instance holds
    Long,
}
#[derive(Clone, Copy, Debug, Serialize, Deserialize, PartialEq, Eq, Hash)]
pub enum Upd {
    /// a := "ccc"
    Replace,
    /// a := "", b := "" (the text is removed; "" rather than null so that the row can still be synchronised)
    Remove,
    /// b := "bbb" (a is kept)
    Add,
}

#[derive(Clone, Debug, Serialize, Deserialize, PartialEq, Eq, Hash)]
pub enum FEv {
    Create { peer: usize, text: Text },
    Update { peer: usize, row: usize, upd: Upd },
    Delete { peer: usize, row: usize },
    /// `dst` pulls the room from the other peer
    Pull { dst: usize },
}
impl FEv {
    fn kind(&self) -> &'static str {
        match self {
            FEv::Create { .. } => "create",
            FEv::Update { .. } => "update",
            FEv::Delete { .. } => "delete",
            FEv::Pull { .. } => "pull",
        }
    }
}

pub struct FBounds {
    pub depth: usize,
    pub max_rows: usize,
    pub create_a: Vec<Text>,
    pub create_b: Vec<Text>,
    pub upds: Vec<Upd>,
}

/// enumeration passes of a tier (histories of later passes already produced by earlier ones are dropped)
pub fn fpasses(tier: Tier) -> Vec<FBounds> {
    let narrow = |depth| FBounds {
        depth,
        max_rows: 2,
        create_a: vec![Text::One, Text::Long],
        create_b: vec![],
        upds: vec![Upd::Replace],
    };
    match tier {
        Tier::Quick => vec![narrow(4)],
        Tier::Thorough => vec![
            FBounds {
                depth: 4,
                max_rows: 2,
                create_a: vec![Text::One, Text::Two, Text::Long],
                create_b: vec![Text::One],
                upds: vec![Upd::Replace, Upd::Remove, Upd::Add],
            },
            narrow(5),
        ],
    }
}

pub fn all_histories(tier: Tier) -> Vec<Vec<FEv>> {
    let mut seen = std::collections::HashSet::new();
    let mut out = vec![];
    for b in fpasses(tier) {
        for h in histories(&b) {
            if seen.insert(hash64(&h)) {
                out.push(h);
            }
        }
    }
    out
}

pub fn bounds(tier: Tier) -> Value {
    let passes: Vec<Value> = fpasses(tier)
        .iter()
        .map(|b| {
            json!({"depth": b.depth, "max_rows": b.max_rows, "create_texts_on_A": b.create_a.len(),
                   "create_texts_on_B": b.create_b.len(), "update_kinds": b.upds.len(), "histories": histories(b).len()})
        })
        .collect();
    json!({"peers": 2, "passes": passes, "histories": all_histories(tier).len(),
           "model_version_histories": toggle_histories(tier).len()})
}

/// abstract presence of rows, only used to enumerate the applicable events
#[derive(Clone, Default)]
struct Abs {
    present: Vec<[bool; 2]>,
    deleted: Vec<[bool; 2]>,
    /// dirty[src]: src changed since the other peer last pulled
    dirty: [bool; 2],
}
impl Abs {
    fn enabled(&self, b: &FBounds) -> Vec<FEv> {
        let mut e = vec![];
        if self.present.len() < b.max_rows {
            for t in &b.create_a {
                e.push(FEv::Create { peer: 0, text: *t });
            }
            for t in &b.create_b {
                e.push(FEv::Create { peer: 1, text: *t });
            }
        }
        for (row, p) in self.present.iter().enumerate() {
            for peer in 0..2 {
                if p[peer] {
                    for u in &b.upds {
                        e.push(FEv::Update { peer, row, upd: *u });
                    }
                    e.push(FEv::Delete { peer, row });
                }
            }
        }
        for dst in 0..2 {
            if self.dirty[1 - dst] {
                e.push(FEv::Pull { dst });
            }
        }
        e
    }
    fn apply(&mut self, ev: &FEv) {
        match ev {
            FEv::Create { peer, .. } => {
                let mut p = [false; 2];
                p[*peer] = true;
                self.present.push(p);
                self.deleted.push([false; 2]);
                self.dirty[*peer] = true;
            }
            FEv::Update { peer, .. } => self.dirty[*peer] = true,
            FEv::Delete { peer, row } => {
                self.present[*row][*peer] = false;
                self.deleted[*row][*peer] = true;
                self.dirty[*peer] = true;
            }
            FEv::Pull { dst } => {
                let src = 1 - *dst;
                for row in 0..self.present.len() {
                    if self.deleted[row][src] {
                        if self.present[row][*dst] {
                            self.present[row][*dst] = false;
                            self.deleted[row][*dst] = true;
                            self.dirty[*dst] = true;
                        }
                    } else if self.present[row][src] && !self.deleted[row][*dst] {
                        self.present[row][*dst] = true;
                    }
                }
                self.dirty[src] = false;
            }
        }
    }
}

/// every maximal history (length = depth, or no applicable event left), simplest first
pub fn histories(b: &FBounds) -> Vec<Vec<FEv>> {
    fn rec(b: &FBounds, abs: &Abs, h: &mut Vec<FEv>, out: &mut Vec<Vec<FEv>>) {
        let en = abs.enabled(b);
        if h.len() == b.depth || en.is_empty() {
            out.push(h.clone());
            return;
        }
        for ev in en {
            let mut a2 = abs.clone();
            a2.apply(&ev);
            h.push(ev);
            rec(b, &a2, h, out);
            h.pop();
        }
    }
    let mut out = vec![];
    rec(b, &Abs::default(), &mut vec![], &mut out);
    out
}

#[derive(Clone, Debug)]
struct FRow {
    rowid: i64,
    mdate: i64,
    texts: Vec<String>,
    last_write: LastWrite,
    residue_from_version: bool,
}

#[derive(Default)]
struct PeerShadow {
    rows: BTreeMap<Uid, FRow>,
    freed_slots: BTreeSet<i64>,
    totals_drifted: bool,
}

struct Pair {
    peers: Vec<FPeer>,
    room: Uid,
    p_short: String,
    shadow: Vec<PeerShadow>,
    /// rows in creation order
    ids: Vec<Uid>,
}

fn long_text() -> String {
    format!("aaa{}", "x".repeat(600))
}

async fn stored(peer: &FPeer, p_short: &str) -> Result<Vec<(i64, Uid, i64, Vec<String>)>, String> {
    let rows = peer
        .sql(&format!("SELECT rowid, id, mdate, _json FROM _node WHERE _entity = '{}' ORDER BY rowid", p_short))
        .await?;
    let mut out = vec![];
    for r in rows {
        let mut id: Uid = Default::default();
        let idb = r[1].blob().ok_or("id")?;
        if idb.len() != id.len() {
            return Err("id size".into());
        }
        id.copy_from_slice(idb);
        let mut texts = vec![];
        if let Some(j) = r[3].text() {
            let v: Value = serde_json::from_str(j).map_err(|e| e.to_string())?;
            if let Some(m) = v.as_object() {
                for x in m.values() {
                    if let Some(s) = x.as_str() {
                        texts.push(s.to_string());
                    }
                }
            }
        }
        out.push((r[0].int().ok_or("rowid")?, id, r[2].int().ok_or("mdate")?, texts));
    }
    Ok(out)
}

impl Pair {
    async fn start(root: &std::path::PathBuf) -> Result<Pair, String> {
        set_clock(T0);
        let a = FPeer::start("A", 1, MODEL_ON, root).await?;
        let b = FPeer::start("B", 2, MODEL_ON, root).await?;
        let dm: DataModel = serde_json::from_str(&a.db.datamodel().await.map_err(|e| e.to_string())?)
            .map_err(|e| e.to_string())?;
        let p_short = dm.get_entity("ns.P").map_err(|e| e.to_string())?.short_name.clone();
        let mut p = Parameters::default();
        p.add("adm", b64(&a.verifying_key)).unwrap();
        p.add("u", b64(&b.verifying_key)).unwrap();
        let q = a
            .db
            .mutate_raw(
                "mutate { sys.Room { admin:[{verif_key:$adm}] authorisations:[{ name:\"g\" rights:[{entity:\"*\" mutate_self:true mutate_all:true}] users:[{verif_key:$u}] }] } }",
                Some(p),
            )
            .await
            .map_err(|e| format!("room: {}", e))?;
        let room = q.mutate_entities[0].node_to_mutate.id;
        a.barrier().await;
        transfer_room_def(&b, &a, room).await?;
        Ok(Pair { peers: vec![a, b], room, p_short, shadow: vec![PeerShadow::default(), PeerShadow::default()], ids: vec![] })
    }

    /// Ok(None) = applied, Ok(Some(reason)) = not applicable here, Err = the engine refused a legitimate operation
    async fn apply(&mut self, ev: &FEv, step: usize) -> Result<Option<String>, String> {
        set_clock(T0 + (step as i64 + 1) * 1000);
        match ev {
            FEv::Create { peer, text } => {
                let fields = match text {
                    Text::One => "a:\"aaa\"".to_string(),
                    Text::Two => "a:\"bbb\" b:\"ccc\"".to_string(),
                    Text::Long => format!("a:\"{}\"", long_text()),
                };
                let mut p = Parameters::default();
                p.add("r", b64(&self.room)).unwrap();
                let q = self.peers[*peer]
                    .db
                    .mutate_raw(&format!("mutate {{ ns.P {{ room_id:$r {} }} }}", fields), Some(p))
                    .await
                    .map_err(|e| e.to_string())?;
                self.ids.push(q.mutate_entities[0].node_to_mutate.id);
                self.peers[*peer].barrier().await;
            }
            FEv::Update { peer, row, upd } => {
                let id = self.ids[*row];
                if !self.shadow[*peer].rows.contains_key(&id) {
                    return Ok(Some("row not stored on this peer".into()));
                }
                let fields = match upd {
                    Upd::Replace => "a:\"ccc\"",
                    Upd::Remove => "a:\"\" b:\"\"",
                    Upd::Add => "b:\"bbb\"",
                };
                let mut p = Parameters::default();
                p.add("id", uid_encode(&id)).unwrap();
                let r = self.peers[*peer]
                    .db
                    .mutate_raw(&format!("mutate {{ ns.P {{ id:$id {} }} }}", fields), Some(p))
                    .await;
                self.peers[*peer].barrier().await;
                r.map_err(|e| e.to_string())?;
            }
            FEv::Delete { peer, row } => {
                let id = self.ids[*row];
                if !self.shadow[*peer].rows.contains_key(&id) {
                    return Ok(Some("row not stored on this peer".into()));
                }
                let mut p = Parameters::default();
                p.add("id", uid_encode(&id)).unwrap();
                let r = self.peers[*peer].delete("delete { ns.P { $id } }", Some(p)).await;
                self.peers[*peer].barrier().await;
                r?;
            }
            FEv::Pull { dst } => {
                let src = 1 - *dst;
                self.peers[src].barrier().await;
                let st = pull(&self.peers[*dst], &self.peers[src], self.room, PullOpts::default()).await;
                if !st.ok {
                    return Err(format!("pull failed: {}", st.error.unwrap_or_default()));
                }
            }
        }
        Ok(None)
    }

    /// update the provenance record of both peers from what is stored now
    async fn observe(&mut self, ev: &FEv) -> Result<(), String> {
        for x in 0..2 {
            let now = stored(&self.peers[x], &self.p_short).await?;
            let sh = &mut self.shadow[x];
            let local = match ev {
                FEv::Create { peer, .. } | FEv::Update { peer, .. } | FEv::Delete { peer, .. } => *peer == x,
                FEv::Pull { .. } => false,
            };
            let delivered = matches!(ev, FEv::Pull { dst } if *dst == x);
            let ids_now: BTreeSet<Uid> = now.iter().map(|r| r.1).collect();
            let gone: Vec<Uid> = sh.rows.keys().filter(|k| !ids_now.contains(*k)).cloned().collect();
            for g in gone {
                let r = sh.rows.remove(&g).unwrap();
                sh.freed_slots.insert(r.rowid);
            }
            for (rowid, id, mdate, texts) in now {
                match sh.rows.get_mut(&id) {
                    None => {
                        sh.rows.insert(
                            id,
                            FRow {
                                rowid,
                                mdate,
                                texts,
                                last_write: if delivered { LastWrite::DeliveredNew } else { LastWrite::Local },
                                residue_from_version: false,
                            },
                        );
                        if !delivered && !local {
                            return Err("a row appeared on a peer that took no part in the step".into());
                        }
                    }
                    Some(r) => {
                        if r.mdate != mdate || r.texts != texts {
                            if delivered {
                                r.last_write = LastWrite::DeliveredVersion;
                            } else if local {
                                if r.last_write != LastWrite::Local {
                                    sh.totals_drifted = true;
                                }
                                if r.last_write == LastWrite::DeliveredVersion {
                                    r.residue_from_version = true;
                                }
                                r.last_write = LastWrite::Local;
                            } else {
                                return Err("a row changed on a peer that took no part in the step".into());
                            }
                            r.mdate = mdate;
                            r.texts = texts;
                        }
                        r.rowid = rowid;
                    }
                }
            }
        }
        Ok(())
    }

    /// the oracle on peer x: (summary, problems as (key, what))
    async fn evaluate(&self, x: usize) -> Result<(Vec<(usize, usize, usize, usize)>, Vec<(String, String)>), String> {
        let sh = &self.shadow[x];
        let mut per_probe = vec![];
        let mut problems = vec![];
        let name = ["A", "B"][x];
        for probe in TOKENS.iter().chain(std::iter::once(&ABSENT)) {
            let expected: BTreeSet<String> = sh
                .rows
                .iter()
                .filter(|(_, r)| r.texts.iter().any(|t| t.contains(probe)))
                .map(|(id, _)| uid_encode(id))
                .collect();
            let mut p = Parameters::default();
            p.add("s", probe.to_string()).unwrap();
            let got = match self.peers[x].query(SEARCH_QUERY, Some(p)).await {
                Ok(r) => parse_ids(&r)?,
                Err(e) => {
                    problems.push((format!("engine error | search | {}", short(&e)), format!("search(\"{}\") failed on {}: {}", probe, name, e)));
                    per_probe.push((expected.len(), 0, 0, 0));
                    continue;
                }
            };
            let got_set: BTreeSet<String> = got.iter().cloned().collect();
            if got_set.len() != got.len() {
                problems.push(("duplicate row | search".into(), format!("search(\"{}\") on {} returned a row twice", probe, name)));
            }
            let find = |id: &String| sh.rows.iter().find(|(k, _)| &uid_encode(k) == id).map(|(_, r)| r);
            let (mut missed, mut stale) = (0, 0);
            for id in expected.difference(&got_set) {
                missed += 1;
                let cause = match find(id).map(|r| r.last_write) {
                    Some(LastWrite::DeliveredNew) => "row-delivered-by-synchronisation",
                    Some(LastWrite::DeliveredVersion) => "newer-version-delivered-by-synchronisation",
                    Some(LastWrite::Local) => "local-writes-only",
                    None => "row-unknown-to-harness",
                };
                problems.push((
                    format!("missed match | {}", cause),
                    format!("peer {}: search(\"{}\") does not return a row whose current text contains it ({})", name, probe, cause),
                ));
            }
            for id in got_set.difference(&expected) {
                stale += 1;
                let cause = match find(id) {
                    Some(r) if r.last_write == LastWrite::DeliveredVersion => "newer-version-delivered-by-synchronisation",
                    Some(r) if r.residue_from_version => "local-update-after-delivered-version",
                    Some(r) if sh.freed_slots.contains(&r.rowid) => "storage-slot-reused-after-deletion",
                    Some(_) => "local-writes-only",
                    None => "row-unknown-to-harness",
                };
                problems.push((
                    format!("stale match | {}", cause),
                    format!("peer {}: search(\"{}\") returns a row whose current text does not contain it ({})", name, probe, cause),
                ));
            }
            per_probe.push((expected.len(), got.len(), missed, stale));
        }
        Ok((per_probe, problems))
    }

    fn cause_engine_error(&self, ev: &FEv) -> String {
        let cause = match ev {
            FEv::Update { peer, row, .. } => {
                let sh = &self.shadow[*peer];
                match sh.rows.get(&self.ids[*row]).map(|r| r.last_write) {
                    Some(LastWrite::DeliveredNew) => "of-row-delivered-by-synchronisation",
                    Some(LastWrite::DeliveredVersion) => "of-newer-version-delivered-by-synchronisation",
                    _ => {
                        if sh.totals_drifted {
                            "after-index-totals-drifted-by-update-of-delivered-row"
                        } else {
                            "local-writes-only"
                        }
                    }
                }
            }
            _ => "local-writes-only",
        };
        format!("{}-{}", ev.kind(), cause)
    }
}

fn short(e: &str) -> String {
    let e = e.to_lowercase();
    if e.contains("malformed") {
        "database-disk-image-is-malformed".to_string()
    } else {
        e.chars().filter(|c| c.is_ascii_alphanumeric() || *c == ' ').take(40).collect::<String>().replace(' ', "-")
    }
}

/// run one history on fresh instances; `from` = first step whose evaluation is counted
async fn run_history(root: &std::path::PathBuf, h: &[FEv], out: &mut Outcome, lines: Option<&mut Vec<String>>) -> Result<(), String> {
    let mut pair = Pair::start(root).await?;
    let mut lines = lines;
    for (i, ev) in h.iter().enumerate() {
        out.transitions += 1;
        let replay = json!({"part": "full", "history": &h[0..=i]});
        match pair.apply(ev, i).await {
            Ok(None) => {}
            Ok(Some(reason)) => {
                out.count("full:event-not-applicable");
                if let Some(l) = lines.as_deref_mut() {
                    l.push(format!("{:?}: not applicable ({})", ev, reason));
                }
                return Ok(());
            }
            Err(e) => {
                let key = format!("engine error | {} | {}", pair.cause_engine_error(ev), short(&e));
                if let Some(l) = lines.as_deref_mut() {
                    l.push(format!("{:?}: REFUSED {} [{}]", ev, e, key));
                }
                out.count(&format!("full:refused:{}", ev.kind()));
                out.count(&format!("full:hit:{}", key));
                out.nontrivial(&("full", ev.kind(), "refused"));
                out.violation(key, format!("full world: {:?} was refused: {}", ev, e), replay);
                return Ok(());
            }
        }
        pair.observe(ev).await?;
        let mut summary = vec![];
        let mut problem_lines = vec![];
        for x in 0..2 {
            let (per_probe, problems) = pair.evaluate(x).await?;
            out.evaluations += 1;
            let exp: usize = per_probe.iter().map(|p| p.0).sum();
            let missed: usize = per_probe.iter().map(|p| p.2).sum();
            let stale: usize = per_probe.iter().map(|p| p.3).sum();
            let s = format!(
                "full:{}:{}{}{}",
                if x == 0 { "A" } else { "B" },
                if exp == 0 { "no-match-expected" } else { "matches-expected" },
                if missed > 0 { "+missed" } else { "" },
                if stale > 0 { "+stale" } else { "" }
            );
            out.count(&s);
            out.nontrivial(&("full", ev.kind(), x, &per_probe));
            out.state(&("full", x, pair.shadow[x].rows.values().map(|r| (r.rowid, r.texts.clone())).collect::<Vec<_>>(), &per_probe));
            for (k, w) in problems {
                problem_lines.push(format!("PROBLEM {} :: {}", k, w));
                out.count(&format!("full:hit:{}", k));
                out.violation(k, w, replay.clone());
            }
            summary.push((s, per_probe));
        }
        if let Some(l) = lines.as_deref_mut() {
            l.push(format!("{:?}: ok; rows A {:?}; rows B {:?}; {:?}", ev, texts_of(&pair.shadow[0]), texts_of(&pair.shadow[1]), summary));
            l.extend(problem_lines);
        }
    }
    Ok(())
}

fn texts_of(sh: &PeerShadow) -> Vec<(i64, Vec<String>)> {
    let mut v: Vec<(i64, Vec<String>)> = sh
        .rows
        .values()
        .map(|r| (r.rowid, r.texts.iter().map(|t| if t.len() > 12 { format!("{}..({})", &t[0..6], t.len()) } else { t.clone() }).collect()))
        .collect();
    v.sort();
    v
}

pub fn explore(tier: Tier, shard: (usize, usize)) -> Outcome {
    let mut out = Outcome::default();
    let hs = all_histories(tier);
    let ths = toggle_histories(tier);
    let root = scratch_root();
    let _g = ScratchGuard(root.clone());
    let res: Result<(), String> = (|| {
        for (i, h) in hs.iter().enumerate() {
            if i % shard.1 != shard.0 {
                continue;
            }
            // one runtime per history: dropping it ends the services' tasks, which closes their channels
            // and lets their reader/writer threads finish (otherwise threads and files pile up)
            let rt = runtime();
            rt.block_on(run_history(&root, h, &mut out, None)).map_err(|e| format!("full world history {:?}: {}", h, e))?;
            drop(rt);
            let _ = std::fs::remove_dir_all(&root);
            out.count("full:histories");
            if i % 97 == 3 {
                out.sample(json!({"part": "full", "history": h}));
            }
        }
        for (i, (on, h)) in ths.iter().enumerate() {
            if i % shard.1 != shard.0 {
                continue;
            }
            let rt = runtime();
            rt.block_on(run_toggle_history(&root, *on, h, &mut out, None))
                .map_err(|e| format!("model version history {:?}: {}", h, e))?;
            drop(rt);
            let _ = std::fs::remove_dir_all(&root);
            out.count("full:model-version-histories");
        }
        Ok(())
    })();
    if let Err(e) = res {
        out.machinery_errors.push(e);
    }
    out
}

pub fn replay(r: &Value) -> Result<Vec<String>, String> {
    let root = scratch_root();
    let _g = ScratchGuard(root.clone());
    let rt = runtime();
    let mut lines = vec![];
    let mut out = Outcome::default();
    if r.get("initial_model_indexed").is_some() {
        let on = r["initial_model_indexed"].as_bool().ok_or("initial_model_indexed")?;
        let h: Vec<TEv> = serde_json::from_value(r["history"].clone()).map_err(|e| e.to_string())?;
        rt.block_on(async { run_toggle_history(&root, on, &h, &mut out, Some(&mut lines)).await })?;
        return Ok(lines);
    }
    let h: Vec<FEv> = serde_json::from_value(r["history"].clone()).map_err(|e| e.to_string())?;
    rt.block_on(async { run_history(&root, &h, &mut out, Some(&mut lines)).await })?;
    Ok(lines)
}

/// model version family on one real service: creations and restarts with the other model version
#[derive(Clone, Copy, Debug, Serialize, Deserialize, PartialEq, Eq, Hash)]
pub enum TEv {
    /// create a row with a = "aaa" (no room)
    Create,
    /// restart the service with the other model version (indexing declared on <-> off)
    Restart,
}

pub fn toggle_histories(tier: Tier) -> Vec<(bool, Vec<TEv>)> {
    let depth = tier.pick(3, 4);
    let mut out = vec![];
    for on in [true, false] {
        for code in 0..(1usize << depth) {
            let h: Vec<TEv> = (0..depth).map(|i| if code >> i & 1 == 0 { TEv::Create } else { TEv::Restart }).collect();
            out.push((on, h));
        }
    }
    out
}

async fn run_toggle_history(
    root: &std::path::PathBuf,
    initial_on: bool,
    h: &[TEv],
    out: &mut Outcome,
    lines: Option<&mut Vec<String>>,
) -> Result<(), String> {
    use crate::c17::MODEL_OFF;
    let mut lines = lines;
    set_clock(T0);
    let mut declared_on = initial_on;
    let mut peers = vec![FPeer::start("A", 1, if declared_on { MODEL_ON } else { MODEL_OFF }, root).await?];
    // row id -> the engine did not index the entity when the row was written
    let mut written_unindexed: BTreeMap<Uid, bool> = BTreeMap::new();
    for (i, ev) in h.iter().enumerate() {
        set_clock(T0 + (i as i64 + 1) * 1000);
        out.transitions += 1;
        let replay = json!({"part": "full", "initial_model_indexed": initial_on, "history": &h[0..=i]});
        let peer = peers.last().unwrap();
        let dm: DataModel = serde_json::from_str(&peer.db.datamodel().await.map_err(|e| e.to_string())?).map_err(|e| e.to_string())?;
        let ent = dm.get_entity("ns.P").map_err(|e| e.to_string())?;
        let (engine_on, p_short) = (ent.enable_full_text, ent.short_name.clone());
        match ev {
            TEv::Create => {
                match peer.db.mutate_raw("mutate { ns.P { a:\"aaa\" } }", None).await {
                    Ok(q) => {
                        written_unindexed.insert(q.mutate_entities[0].node_to_mutate.id, !engine_on);
                    }
                    Err(e) => {
                        out.violation(
                            format!("engine error | create-local-writes-only | {}", short(&e.to_string())),
                            format!("model version history: creation refused: {}", e),
                            replay,
                        );
                        return Ok(());
                    }
                }
                peer.barrier().await;
            }
            TEv::Restart => {
                declared_on = !declared_on;
                let next = peer.restart(if declared_on { MODEL_ON } else { MODEL_OFF }).await?;
                peers.push(next);
            }
        }
        let peer = peers.last().unwrap();
        if !declared_on {
            out.count("full:model:not-indexed:skipped");
            if let Some(l) = lines.as_deref_mut() {
                l.push(format!("{:?}: ok; the model declares no index, nothing to check", ev));
            }
            continue;
        }
        let rows = stored(peer, &p_short).await?;
        let expected: BTreeSet<String> =
            rows.iter().filter(|r| r.3.iter().any(|t| t.contains("aaa"))).map(|r| uid_encode(&r.1)).collect();
        let mut p = Parameters::default();
        p.add("s", "aaa".to_string()).unwrap();
        let got: BTreeSet<String> = match peer.query(SEARCH_QUERY, Some(p)).await {
            Ok(r) => parse_ids(&r)?.into_iter().collect(),
            Err(e) => {
                out.violation(format!("engine error | search | {}", short(&e)), format!("search failed: {}", e), replay);
                return Ok(());
            }
        };
        out.evaluations += 1;
        let missed: Vec<&String> = expected.difference(&got).collect();
        let stale = got.difference(&expected).count();
        out.count(&format!(
            "full:model:{}{}{}",
            if expected.is_empty() { "no-match-expected" } else { "matches-expected" },
            if missed.is_empty() { "" } else { "+missed" },
            if stale > 0 { "+stale" } else { "" }
        ));
        out.nontrivial(&("full-model", ev, expected.len(), got.len(), missed.len(), stale));
        out.state(&("full-model", rows.iter().map(|r| r.0).collect::<Vec<_>>(), expected.len(), got.len()));
        if let Some(l) = lines.as_deref_mut() {
            l.push(format!("{:?}: ok; model declares indexing; {} rows contain aaa, search(\"aaa\") returns {} rows", ev, expected.len(), got.len()));
        }
        for id in missed {
            let unindexed = written_unindexed.iter().any(|(k, v)| &uid_encode(k) == id && *v);
            let cause = if unindexed { "indexing-enabled-by-later-model-version" } else { "local-writes-only" };
            let key = format!("missed match | {}", cause);
            if let Some(l) = lines.as_deref_mut() {
                l.push(format!("PROBLEM {}", key));
            }
            out.count(&format!("full:hit:{}", key));
            out.violation(key, format!("real service restarted with a model version enabling the index: search(\"aaa\") misses a row containing it ({})", cause), replay.clone());
        }
        if stale > 0 {
            out.violation("stale match | local-writes-only", "model version history: stale match", replay.clone());
        }
    }
    Ok(())
}
