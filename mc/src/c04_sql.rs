//! C04 helpers that do not depend on discret: a small SQL lexer (SQLite's lexical rules) used to
//! compare the *structure* of generated statements, a JSON reader that keeps number tokens as
//! text (so that float comparison does not depend on serde_json's float parser), and the taps on
//! a SQLite connection (statement trace through the C API, row change hook).
use rusqlite::ffi;
use std::cell::RefCell;
use std::collections::BTreeMap;
use std::os::raw::{c_char, c_int, c_uint, c_void};
use std::sync::{Arc, Mutex};

// ------------------------------------------------------------------------------------------
// SQL lexer
// ------------------------------------------------------------------------------------------

fn is_id_start(c: char) -> bool {
    c.is_ascii_alphabetic() || c == '_' || (c as u32) >= 0x80
}
fn is_id_char(c: char) -> bool {
    c.is_ascii_alphanumeric() || c == '_' || c == '$' || (c as u32) >= 0x80
}

/// Token class sequence of an SQL text under SQLite's lexical rules. String literals become `S`,
/// numeric literals `N` (a sign directly after an operator, keyword or opening parenthesis is folded
/// into the number), `true`/`false` become `B`, bound parameters `?`. Everything else is kept
/// (upper-cased keywords/identifiers, operators). A NUL character, an unterminated string or
/// comment, or an illegal character give the tokens `<NUL>`, `<UNTERMINATED>`, `<ILLEGAL>`:
/// the statement SQLite would see ends or breaks there.
pub fn sql_structure(sql: &str) -> String {
    let cs: Vec<char> = sql.chars().collect();
    let mut toks: Vec<String> = Vec::new();
    let mut i = 0;
    let n = cs.len();
    while i < n {
        let c = cs[i];
        if c == '\0' {
            toks.push("<NUL>".into());
            break;
        }
        if c == ' ' || c == '\t' || c == '\n' || c == '\r' || c == '\u{c}' {
            i += 1;
            continue;
        }
        if c == '-' && i + 1 < n && cs[i + 1] == '-' {
            toks.push("<COMMENT>".into());
            while i < n && cs[i] != '\n' {
                i += 1;
            }
            continue;
        }
        if c == '/' && i + 1 < n && cs[i + 1] == '*' {
            toks.push("<COMMENT>".into());
            i += 2;
            let mut closed = false;
            while i + 1 < n {
                if cs[i] == '*' && cs[i + 1] == '/' {
                    closed = true;
                    i += 2;
                    break;
                }
                i += 1;
            }
            if !closed {
                toks.push("<UNTERMINATED>".into());
                break;
            }
            continue;
        }
        if c == '\'' || c == '"' || c == '`' {
            // quoted string / identifier, doubled quote is the escape
            let q = c;
            i += 1;
            let mut closed = false;
            while i < n {
                if cs[i] == '\0' {
                    break;
                }
                if cs[i] == q {
                    if i + 1 < n && cs[i + 1] == q {
                        i += 2;
                        continue;
                    }
                    closed = true;
                    i += 1;
                    break;
                }
                i += 1;
            }
            if !closed {
                toks.push("<UNTERMINATED>".into());
                break;
            }
            toks.push(if q == '\'' { "S".into() } else { "QID".into() });
            continue;
        }
        if c == '[' {
            let mut closed = false;
            i += 1;
            while i < n {
                if cs[i] == ']' {
                    closed = true;
                    i += 1;
                    break;
                }
                i += 1;
            }
            if !closed {
                toks.push("<UNTERMINATED>".into());
                break;
            }
            toks.push("QID".into());
            continue;
        }
        if c.is_ascii_digit() || (c == '.' && i + 1 < n && cs[i + 1].is_ascii_digit()) {
            // number: digits [. digits] [e [+-] digits], or 0x hex; trailing identifier characters
            // make it an illegal token for SQLite
            if c == '0' && i + 1 < n && (cs[i + 1] == 'x' || cs[i + 1] == 'X') {
                i += 2;
                while i < n && cs[i].is_ascii_hexdigit() {
                    i += 1;
                }
            } else {
                while i < n && cs[i].is_ascii_digit() {
                    i += 1;
                }
                if i < n && cs[i] == '.' {
                    i += 1;
                    while i < n && cs[i].is_ascii_digit() {
                        i += 1;
                    }
                }
                if i < n && (cs[i] == 'e' || cs[i] == 'E') {
                    let mut j = i + 1;
                    if j < n && (cs[j] == '+' || cs[j] == '-') {
                        j += 1;
                    }
                    if j < n && cs[j].is_ascii_digit() {
                        while j < n && cs[j].is_ascii_digit() {
                            j += 1;
                        }
                        i = j;
                    }
                }
            }
            if i < n && is_id_char(cs[i]) {
                while i < n && is_id_char(cs[i]) {
                    i += 1;
                }
                toks.push("<ILLEGAL>".into());
                continue;
            }
            // fold a sign
            let fold = toks.len() >= 1
                && (toks[toks.len() - 1] == "-" || toks[toks.len() - 1] == "+")
                && (toks.len() == 1 || {
                    let p = &toks[toks.len() - 2];
                    !(p == "S" || p == "N" || p == "B" || p == "?" || p == ")" || p == "QID"
                        || (p.chars().next().map(is_id_start).unwrap_or(false) && !is_keyword(p)))
                });
            if fold {
                toks.pop();
            }
            toks.push("N".into());
            continue;
        }
        if c == '?' {
            i += 1;
            while i < n && cs[i].is_ascii_digit() {
                i += 1;
            }
            toks.push("?".into());
            continue;
        }
        if (c == ':' || c == '@' || c == '$') && i + 1 < n && is_id_char(cs[i + 1]) {
            i += 1;
            while i < n && is_id_char(cs[i]) {
                i += 1;
            }
            toks.push("?".into());
            continue;
        }
        if (c == 'x' || c == 'X') && i + 1 < n && cs[i + 1] == '\'' {
            i += 2;
            while i < n && cs[i] != '\'' {
                i += 1;
            }
            if i >= n {
                toks.push("<UNTERMINATED>".into());
                break;
            }
            i += 1;
            toks.push("S".into());
            continue;
        }
        if is_id_start(c) {
            let st = i;
            while i < n && is_id_char(cs[i]) {
                i += 1;
            }
            let w: String = cs[st..i].iter().collect::<String>().to_uppercase();
            if w == "TRUE" || w == "FALSE" {
                toks.push("B".into());
            } else {
                toks.push(w);
            }
            continue;
        }
        // operators
        let three: String = cs[i..n.min(i + 3)].iter().collect();
        let two: String = cs[i..n.min(i + 2)].iter().collect();
        if three == "->>" {
            toks.push(three);
            i += 3;
            continue;
        }
        if ["->", "||", "<=", ">=", "<>", "!=", "==", "<<", ">>"].contains(&two.as_str()) {
            toks.push(two);
            i += 2;
            continue;
        }
        if "+-*/%<>=(),;.&|~".contains(c) {
            toks.push(c.to_string());
            i += 1;
            continue;
        }
        toks.push("<ILLEGAL>".into());
        i += 1;
    }
    toks.join(" ")
}

fn is_keyword(w: &str) -> bool {
    matches!(
        w,
        "WHEN" | "THEN" | "ELSE" | "AND" | "OR" | "NOT" | "IS" | "IN" | "LIKE" | "CASE" | "SELECT" | "WHERE"
            | "LIMIT" | "OFFSET" | "BY" | "ON" | "HAVING" | "BETWEEN" | "VALUES" | "SET" | "FROM" | "AS"
    )
}

// ------------------------------------------------------------------------------------------
// JSON reader keeping number tokens
// ------------------------------------------------------------------------------------------

#[derive(Clone, Debug, PartialEq)]
pub enum JV {
    Null,
    Bool(bool),
    /// the number token as written
    Num(String),
    Str(String),
    Arr(Vec<JV>),
    /// members in document order
    Obj(Vec<(String, JV)>),
}

impl JV {
    pub fn get(&self, key: &str) -> Option<&JV> {
        match self {
            JV::Obj(m) => m.iter().find(|(k, _)| k == key).map(|(_, v)| v),
            _ => None,
        }
    }
    pub fn as_arr(&self) -> Option<&Vec<JV>> {
        match self {
            JV::Arr(a) => Some(a),
            _ => None,
        }
    }
    pub fn as_str(&self) -> Option<&str> {
        match self {
            JV::Str(s) => Some(s),
            _ => None,
        }
    }
    /// equality of JSON values: member order is irrelevant, numbers are compared as decimal
    /// values when both are integers in i128 range and as f64 otherwise
    pub fn sem_eq(&self, o: &JV) -> bool {
        match (self, o) {
            (JV::Null, JV::Null) => true,
            (JV::Bool(a), JV::Bool(b)) => a == b,
            (JV::Str(a), JV::Str(b)) => a == b,
            (JV::Num(a), JV::Num(b)) => num_eq(a, b),
            (JV::Arr(a), JV::Arr(b)) => a.len() == b.len() && a.iter().zip(b).all(|(x, y)| x.sem_eq(y)),
            (JV::Obj(a), JV::Obj(b)) => {
                a.len() == b.len()
                    && a.iter().all(|(k, v)| b.iter().filter(|(k2, _)| k2 == k).count() == 1 && b.iter().any(|(k2, v2)| k2 == k && v.sem_eq(v2)))
            }
            _ => false,
        }
    }
    pub fn render(&self) -> String {
        match self {
            JV::Null => "null".into(),
            JV::Bool(b) => b.to_string(),
            JV::Num(s) => s.clone(),
            JV::Str(s) => serde_json::to_string(s).unwrap(),
            JV::Arr(a) => format!("[{}]", a.iter().map(|x| x.render()).collect::<Vec<_>>().join(",")),
            JV::Obj(m) => format!(
                "{{{}}}",
                m.iter().map(|(k, v)| format!("{}:{}", serde_json::to_string(k).unwrap(), v.render())).collect::<Vec<_>>().join(",")
            ),
        }
    }
}

pub fn num_eq(a: &str, b: &str) -> bool {
    match (a.parse::<i128>(), b.parse::<i128>()) {
        (Ok(x), Ok(y)) => x == y,
        _ => match (a.parse::<f64>(), b.parse::<f64>()) {
            (Ok(x), Ok(y)) => x == y,
            _ => false,
        },
    }
}

pub fn parse_json(text: &str) -> Result<JV, String> {
    let cs: Vec<char> = text.chars().collect();
    let mut p = 0usize;
    let v = pj_value(&cs, &mut p)?;
    pj_ws(&cs, &mut p);
    if p != cs.len() {
        return Err(format!("trailing characters at {}", p));
    }
    Ok(v)
}
fn pj_ws(cs: &[char], p: &mut usize) {
    while *p < cs.len() && (cs[*p] == ' ' || cs[*p] == '\n' || cs[*p] == '\t' || cs[*p] == '\r') {
        *p += 1;
    }
}
fn pj_value(cs: &[char], p: &mut usize) -> Result<JV, String> {
    pj_ws(cs, p);
    if *p >= cs.len() {
        return Err("unexpected end".into());
    }
    match cs[*p] {
        '{' => {
            *p += 1;
            let mut m = vec![];
            pj_ws(cs, p);
            if *p < cs.len() && cs[*p] == '}' {
                *p += 1;
                return Ok(JV::Obj(m));
            }
            loop {
                pj_ws(cs, p);
                let k = match pj_value(cs, p)? {
                    JV::Str(s) => s,
                    _ => return Err("object key is not a string".into()),
                };
                pj_ws(cs, p);
                if *p >= cs.len() || cs[*p] != ':' {
                    return Err(format!("expected ':' at {}", p));
                }
                *p += 1;
                let v = pj_value(cs, p)?;
                m.push((k, v));
                pj_ws(cs, p);
                if *p < cs.len() && cs[*p] == ',' {
                    *p += 1;
                    continue;
                }
                if *p < cs.len() && cs[*p] == '}' {
                    *p += 1;
                    return Ok(JV::Obj(m));
                }
                return Err(format!("expected ',' or '}}' at {}", p));
            }
        }
        '[' => {
            *p += 1;
            let mut a = vec![];
            pj_ws(cs, p);
            if *p < cs.len() && cs[*p] == ']' {
                *p += 1;
                return Ok(JV::Arr(a));
            }
            loop {
                let v = pj_value(cs, p)?;
                a.push(v);
                pj_ws(cs, p);
                if *p < cs.len() && cs[*p] == ',' {
                    *p += 1;
                    continue;
                }
                if *p < cs.len() && cs[*p] == ']' {
                    *p += 1;
                    return Ok(JV::Arr(a));
                }
                return Err(format!("expected ',' or ']' at {}", p));
            }
        }
        '"' => {
            *p += 1;
            let mut s = String::new();
            loop {
                if *p >= cs.len() {
                    return Err("unterminated string".into());
                }
                let c = cs[*p];
                *p += 1;
                match c {
                    '"' => return Ok(JV::Str(s)),
                    '\\' => {
                        if *p >= cs.len() {
                            return Err("unterminated escape".into());
                        }
                        let e = cs[*p];
                        *p += 1;
                        match e {
                            '"' => s.push('"'),
                            '\\' => s.push('\\'),
                            '/' => s.push('/'),
                            'b' => s.push('\u{8}'),
                            'f' => s.push('\u{c}'),
                            'n' => s.push('\n'),
                            'r' => s.push('\r'),
                            't' => s.push('\t'),
                            'u' => {
                                let hi = pj_hex4(cs, p)?;
                                if (0xD800..0xDC00).contains(&hi) {
                                    if *p + 1 < cs.len() && cs[*p] == '\\' && cs[*p + 1] == 'u' {
                                        *p += 2;
                                        let lo = pj_hex4(cs, p)?;
                                        if !(0xDC00..0xE000).contains(&lo) {
                                            return Err("bad low surrogate".into());
                                        }
                                        let cp = 0x10000 + ((hi - 0xD800) << 10) + (lo - 0xDC00);
                                        s.push(char::from_u32(cp).ok_or("bad code point")?);
                                    } else {
                                        return Err("lone surrogate".into());
                                    }
                                } else {
                                    s.push(char::from_u32(hi).ok_or("lone surrogate")?);
                                }
                            }
                            other => return Err(format!("bad escape \\{}", other)),
                        }
                    }
                    c => s.push(c),
                }
            }
        }
        't' if cs[*p..].starts_with(&['t', 'r', 'u', 'e']) => {
            *p += 4;
            Ok(JV::Bool(true))
        }
        'f' if cs[*p..].starts_with(&['f', 'a', 'l', 's', 'e']) => {
            *p += 5;
            Ok(JV::Bool(false))
        }
        'n' if cs[*p..].starts_with(&['n', 'u', 'l', 'l']) => {
            *p += 4;
            Ok(JV::Null)
        }
        c if c == '-' || c.is_ascii_digit() => {
            let st = *p;
            *p += 1;
            while *p < cs.len() && (cs[*p].is_ascii_digit() || ".eE+-".contains(cs[*p])) {
                *p += 1;
            }
            Ok(JV::Num(cs[st..*p].iter().collect()))
        }
        c => Err(format!("unexpected character {:?} at {}", c, p)),
    }
}
fn pj_hex4(cs: &[char], p: &mut usize) -> Result<u32, String> {
    if *p + 4 > cs.len() {
        return Err("short \\u escape".into());
    }
    let h: String = cs[*p..*p + 4].iter().collect();
    *p += 4;
    u32::from_str_radix(&h, 16).map_err(|e| e.to_string())
}

// ------------------------------------------------------------------------------------------
// connection taps
// ------------------------------------------------------------------------------------------

/// what the engine was asked to run (unexpanded statement texts, in order) and which rows of
/// rowid tables changed, since the last `drain`
pub struct Tap {
    stmts: RefCell<Vec<u64>>,
    texts: RefCell<BTreeMap<u64, String>>,
    changes: Arc<Mutex<Vec<(u8, i64, u8)>>>,
}

pub const T_NODE: u8 = 1;
pub const T_EDGE: u8 = 2;
pub const T_OTHER: u8 = 9;

unsafe extern "C" fn trace_cb(_t: c_uint, ctx: *mut c_void, _p: *mut c_void, x: *mut c_void) -> c_int {
    if ctx.is_null() || x.is_null() {
        return 0;
    }
    let tap = &*(ctx as *const Tap);
    let s = std::ffi::CStr::from_ptr(x as *const c_char).to_bytes();
    let h = crate::common::hash64(&s);
    tap.stmts.borrow_mut().push(h);
    let mut t = tap.texts.borrow_mut();
    if !t.contains_key(&h) {
        t.insert(h, String::from_utf8_lossy(s).to_string());
    }
    0
}

impl Tap {
    /// install on a connection; the returned box must outlive the connection's use
    pub fn install(conn: &rusqlite::Connection) -> Box<Tap> {
        let changes: Arc<Mutex<Vec<(u8, i64, u8)>>> = Arc::new(Mutex::new(Vec::new()));
        let ch = changes.clone();
        conn.update_hook(Some(move |action: rusqlite::hooks::Action, _db: &str, table: &str, rowid: i64| {
            let t = match table {
                "_node" => T_NODE,
                "_edge" => T_EDGE,
                _ => T_OTHER,
            };
            if t != T_OTHER || !table.starts_with("_node_fts") {
                let a = match action {
                    rusqlite::hooks::Action::SQLITE_INSERT => 1,
                    rusqlite::hooks::Action::SQLITE_UPDATE => 2,
                    rusqlite::hooks::Action::SQLITE_DELETE => 3,
                    _ => 0,
                };
                ch.lock().unwrap().push((t, rowid, a));
            }
        }));
        let tap = Box::new(Tap {
            stmts: RefCell::new(Vec::new()),
            texts: RefCell::new(BTreeMap::new()),
            changes,
        });
        unsafe {
            ffi::sqlite3_trace_v2(
                conn.handle(),
                ffi::SQLITE_TRACE_STMT as c_uint,
                Some(trace_cb),
                &*tap as *const Tap as *mut c_void,
            );
        }
        tap
    }
    pub fn uninstall(conn: &rusqlite::Connection) {
        unsafe {
            ffi::sqlite3_trace_v2(conn.handle(), 0, None, std::ptr::null_mut());
        }
        conn.update_hook(None::<fn(rusqlite::hooks::Action, &str, &str, i64)>);
    }
    /// (statement hashes, row changes (table, rowid, action)) since the last call
    pub fn drain(&self) -> (Vec<u64>, Vec<(u8, i64, u8)>) {
        let s = std::mem::take(&mut *self.stmts.borrow_mut());
        let c = std::mem::take(&mut *self.changes.lock().unwrap());
        (s, c)
    }
    pub fn text(&self, h: u64) -> String {
        self.texts.borrow().get(&h).cloned().unwrap_or_default()
    }
}
