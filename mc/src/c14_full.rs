//! C14, full-world half: a real `GraphDatabaseService` (2 reader threads, writer thread, verification
//! thread) receives the adversarial inputs of parts (ii)-(iv); a fixed probe follows each of them.
//! Also the wire decoders (pure functions, run in a child process).
use crate::c14::{
    db_err, keys_of, take_panics, to_parameters, PanicRec, Pv, Res, Seeds, StmtCase, FAKE_ID, T_MODEL,
};
use crate::common::*;
use crate::light::{new_model, signing_key_for, verifying_key_for};
use crate::world::{b64, runtime, set_clock, small_config, FPeer, DAY, T0};
use discret::verif::database::edge::{Edge, EdgeDeletionEntry};
use discret::verif::database::node::{Node, NodeDeletionEntry, NodeIdentifier, NodeToInsert};
use discret::verif::database::query_language::parameter::{Parameters, ParametersAdd};
use discret::verif::database::room_node::RoomNode;
use discret::verif::database::system_entities::{Invite, Peer};
use discret::verif::database::Error as DbError;
use discret::verif::network::{Announce, AnnounceHeader, ConnectionInfo};
use discret::verif::security::{HardwareFingerprint, SigningKey, Uid};
use discret::verif::signature_verification_service::SignatureVerificationService;
use discret::verif::synchronisation::peer_outbound_service::{InboundQueryService, RemotePeerHandle};
use discret::verif::synchronisation::{Answer, IdentityAnswer, Query, QueryProtocol, RemoteEvent};
use futures::FutureExt;
use serde::{Deserialize, Serialize};
use serde_json::{json, Value};
use std::collections::{BTreeMap, HashSet};
use std::panic::AssertUnwindSafe;
use std::path::PathBuf;
use std::sync::atomic::AtomicBool;
use std::sync::Arc;
use std::time::{Duration, Instant};
use tokio::sync::{mpsc, Mutex};

pub const READERS: usize = 2;
const CALL_TIMEOUT: Duration = Duration::from_secs(30);

#[derive(Serialize, Deserialize, Clone, Debug)]
#[serde(tag = "k")]
pub enum FullCase {
    /// a request through the service API
    Stmt { case: StmtCase },
    /// a row received from a peer. `path`: verify (direct call) | service (verification service) |
    /// flow (service, then ingestion when accepted) | ingest (ingestion entry point alone)
    Row {
        row: String,
        klen: usize,
        slen: usize,
        variant: String,
        path: String,
    },
    /// a protocol query handled by the real serving routine
    Inbound { query: String, variant: String },
    /// invitation bytes through the accept-invite steps (decode, application check, insert)
    Invite { hex: String, class: String },
    /// a data model text through update_data_model of the running service
    ModelUpdate { text: String, class: String },
}

impl FullCase {
    pub fn class(&self) -> String {
        match self {
            FullCase::Stmt { case } => case.class.clone(),
            FullCase::Row {
                row,
                klen,
                slen,
                variant,
                path,
            } => format!("iv:row|{}|key-len={}|sig-len={}|{}|{}", row, klen, slen, variant, path),
            FullCase::Inbound { query, variant } => format!("iv:inbound|{}|{}", query, variant),
            FullCase::Invite { class, .. } => format!("iv:invite|{}", class),
            FullCase::ModelUpdate { class, .. } => format!("iv:model-update|{}", class),
        }
    }
}

pub struct Full {
    pub peer: FPeer,
    pub seeds: Seeds,
    /// a room created by the instance, in which the identity of seed 2 may write every entity
    pub room: Uid,
    pub t_short: String,
    pub rs_short: String,
    /// _json of a T row written by the instance itself (valid for the model)
    pub t_json: String,
    /// a stored T row and a stored edge of the room (authored by the instance)
    pub stored_node: Option<Node>,
}

fn variant_name<T: std::fmt::Debug>(e: &T) -> String {
    format!("{:?}", e)
        .chars()
        .take_while(|c| c.is_ascii_alphanumeric() || *c == '_')
        .collect()
}

impl Full {
    pub async fn new(root: &PathBuf, model: &str, setup: &[String]) -> Result<Full, String> {
        set_clock(T0);
        discret::verif_hooks::set_uid_namespace(14);
        let mut cfg = small_config();
        cfg.parallelism = READERS;
        static N: std::sync::atomic::AtomicUsize = std::sync::atomic::AtomicUsize::new(0);
        let n = N.fetch_add(1, std::sync::atomic::Ordering::SeqCst);
        let dir = root.join(format!("c14-{}", n));
        let peer = FPeer::start_in("V", 1, model, dir, cfg).await?;
        let mut seeds = Seeds::default();
        for s in setup {
            let s = &crate::c14::fill_seeds(s, &seeds);
            let q = peer.db.mutate_raw(s, None).await.map_err(|e| format!("setup: {}", e))?;
            let first = q.mutate_entities.first();
            seeds.top.push(
                first
                    .map(|e| b64(&e.node_to_mutate.id))
                    .unwrap_or_else(|| FAKE_ID.to_string()),
            );
            let mut m = BTreeMap::new();
            if let Some(f) = first {
                for (name, subs) in &f.sub_nodes {
                    if let Some(s) = subs.first() {
                        m.insert(name.clone(), b64(&s.node_to_mutate.id));
                    }
                }
            }
            seeds.sub.push(m);
        }
        // the room: the instance is admin, identity 2 is a member with every right
        let mut p = Parameters::default();
        p.add("adm", b64(&peer.verifying_key)).unwrap();
        p.add("m", b64(&verifying_key_for(2))).unwrap();
        let q = peer
            .db
            .mutate_raw(
                "mutate { sys.Room { admin:[{verif_key:$adm}] authorisations:[{ name:\"all\" rights:[{entity:\"*\" mutate_self:true mutate_all:true}] users:[{verif_key:$m},{verif_key:$adm}] }] } }",
                Some(p),
            )
            .await
            .map_err(|e| format!("room: {}", e))?;
        let room = q.mutate_entities[0].node_to_mutate.id;
        let dm = new_model(model)?;
        let t_short = dm.get_entity("T").map(|e| e.short_name.clone()).unwrap_or_default();
        let rs_short = dm
            .get_entity("T")
            .ok()
            .and_then(|e| e.get_field("rs").ok().map(|f| f.short_name.clone()))
            .unwrap_or_default();
        // one row of T with a sub row, written by the instance inside the room
        let mut t_json = String::from("{}");
        let mut stored_node = None;
        if !t_short.is_empty() {
            let mut p = Parameters::default();
            p.add("room", b64(&room)).unwrap();
            let q = peer
                .db
                .mutate_raw(
                    &format!(
                        "mutate {{ T {{ room_id: $room {} rs: [{{ name: \"in room\" }}] }} }}",
                        crate::c14::T_REQUIRED
                    ),
                    Some(p),
                )
                .await
                .map_err(|e| format!("room row: {}", e))?;
            if let Some(n) = &q.mutate_entities[0].node_to_mutate.node {
                t_json = n._json.clone().unwrap_or_else(|| "{}".into());
                stored_node = Some(n.clone());
            }
        }
        peer.barrier().await;
        let _ = take_panics();
        Ok(Full {
            peer,
            seeds,
            room,
            t_short,
            rs_short,
            t_json,
            stored_node,
        })
    }

    /// one request through the service API, with time limit; panics of any thread collected
    pub async fn exec_stmt(&self, kind: &str, text: &str, params: &[(String, Pv)]) -> Res {
        let p = to_parameters(params, &self.seeds);
        let _ = take_panics();
        let db = self.peer.db.clone();
        let fut = async {
            match kind {
                "query" => match db.query(text, Some(p)).await {
                    Ok(s) => {
                        let bad = serde_json::from_str::<Value>(&s).is_err();
                        Res {
                            oc: if bad { "ok:invalid-json".into() } else { "ok".into() },
                            bad_json: bad,
                            detail: if bad { s.chars().take(200).collect() } else { String::new() },
                            ..Default::default()
                        }
                    }
                    Err(e) => full_err(&e),
                },
                "mutation" => match db.mutate_raw(text, Some(p)).await {
                    Ok(q) => match q.result() {
                        Ok(s) => {
                            let bad = serde_json::from_str::<Value>(&s).is_err();
                            Res {
                                oc: if bad { "ok:invalid-json".into() } else { "ok".into() },
                                bad_json: bad,
                                value: Some(s),
                                ..Default::default()
                            }
                        }
                        Err(e) => full_err(&e),
                    },
                    Err(e) => full_err(&e),
                },
                "deletion" => match db.delete(text, Some(p)).await {
                    Ok(_) => Res {
                        oc: "ok".into(),
                        ..Default::default()
                    },
                    Err(e) => full_err(&e),
                },
                _ => Res {
                    oc: "error:unknown-kind".into(),
                    ..Default::default()
                },
            }
        };
        let r = guarded(fut).await;
        let _ = tokio::time::timeout(CALL_TIMEOUT, self.peer.barrier()).await;
        finish_res(r)
    }

    /// the fixed probe: a mutation, a query that must see it, a signature verification, and a head
    /// count of the reader pool. Returns the symptoms (empty = the instance answers normally).
    pub async fn probe(&self, after_panic: bool) -> Vec<String> {
        let sym = self.probe_once(after_panic).await;
        if sym.is_empty() || after_panic {
            return sym;
        }
        // no panic was recorded: a slow machine must not be mistaken for a dead service, ask once more
        tokio::time::sleep(Duration::from_millis(500)).await;
        self.probe_once(after_panic).await
    }

    async fn probe_once(&self, after_panic: bool) -> Vec<String> {
        let mut sym = vec![];
        let db = self.peer.db.clone();
        match guarded(async { db.mutate("mutate { Probe { v: \"p\" } }", None).await }).await {
            Guarded::Done(Ok(_)) => {}
            Guarded::Done(Err(e)) => sym.push(format!("probe-mutation-error-{}", variant_name(&e))),
            Guarded::Panicked => sym.push("probe-mutation-panicked".into()),
            Guarded::TimedOut => sym.push("probe-mutation-unanswered".into()),
        }
        match guarded(async { db.query("query { Probe(order_by(mdate desc), first 1) { v } }", None).await }).await {
            Guarded::Done(Ok(s)) => {
                if !s.contains("\"v\":\"p\"") {
                    sym.push("probe-query-wrong-answer".into());
                }
            }
            Guarded::Done(Err(e)) => sym.push(format!("probe-query-error-{}", variant_name(&e))),
            Guarded::Panicked => sym.push("probe-query-panicked".into()),
            Guarded::TimedOut => sym.push("probe-query-unanswered".into()),
        }
        let key = signing_key_for(3);
        let hash = [7u8; 32];
        let sig = key.sign(&hash);
        let svc = self.peer.services.signature_verification.clone();
        let vk = key.export_verifying_key();
        match guarded(async { svc.verify_hash(sig, hash, vk).await }).await {
            Guarded::Done(true) => {}
            Guarded::Done(false) => sym.push("probe-verification-wrong-answer".into()),
            Guarded::Panicked => sym.push("probe-verification-unanswered".into()),
            Guarded::TimedOut => sym.push("probe-verification-unanswered".into()),
        }
        // without a recorded panic a missing thread is only believed after a long wait (no false alarm under load)
        let alive = self.reader_headcount(if after_panic { 400 } else { 6000 }).await;
        if alive != READERS {
            sym.push(format!("reader-threads-alive-{}-of-{}", alive, READERS));
        }
        let _ = tokio::time::timeout(CALL_TIMEOUT, self.peer.barrier()).await;
        let _ = take_panics(); // consequences of a dead service, not new findings
        sym
    }

    /// every live reader thread takes one job and waits inside it until all have checked in
    pub async fn reader_headcount(&self, wait_ms: u64) -> usize {
        let state = Arc::new((
            std::sync::Mutex::new((HashSet::<std::thread::ThreadId>::new(), false)),
            std::sync::Condvar::new(),
        ));
        for _ in 0..READERS {
            let st = state.clone();
            let r = self
                .peer
                .db
                .db
                .reader
                .send_async(Box::new(move |_conn| {
                    let (m, cv) = &*st;
                    let mut g = m.lock().unwrap();
                    g.0.insert(std::thread::current().id());
                    cv.notify_all();
                    let deadline = Instant::now() + Duration::from_millis(wait_ms);
                    while g.0.len() < READERS && !g.1 {
                        let left = deadline.saturating_duration_since(Instant::now());
                        if left.is_zero() {
                            g.1 = true; // the others do not wait again
                            break;
                        }
                        g = cv.wait_timeout(g, left).unwrap().0;
                    }
                }))
                .await;
            if r.is_err() {
                break;
            }
        }
        let start = Instant::now();
        loop {
            let (n, gave_up) = {
                let g = state.0.lock().unwrap();
                (g.0.len(), g.1)
            };
            if n >= READERS || gave_up || start.elapsed() > Duration::from_millis(wait_ms + 500) {
                return n;
            }
            tokio::time::sleep(Duration::from_millis(2)).await;
        }
    }
}

pub enum Guarded<T> {
    Done(T),
    Panicked,
    TimedOut,
}

/// run a future with a time limit and catch a panic that unwinds into the caller
pub async fn guarded<T>(fut: impl std::future::Future<Output = T>) -> Guarded<T> {
    match tokio::time::timeout(CALL_TIMEOUT, AssertUnwindSafe(fut).catch_unwind()).await {
        Ok(Ok(v)) => Guarded::Done(v),
        Ok(Err(_)) => Guarded::Panicked,
        Err(_) => Guarded::TimedOut,
    }
}

fn finish_res(r: Guarded<Res>) -> Res {
    let panics = take_panics();
    let mut res = match r {
        Guarded::Done(r) => r,
        Guarded::Panicked => Res {
            oc: "panic".into(),
            ..Default::default()
        },
        Guarded::TimedOut => Res {
            oc: "unanswered".into(),
            ..Default::default()
        },
    };
    if !panics.is_empty() {
        res.oc = "panic".into();
    }
    res.panics = panics;
    res
}

fn full_err(e: &DbError) -> Res {
    // through the service the parse errors arrive wrapped in the database error
    match e {
        DbError::Parsing(pe) => crate::c14::lang_err(pe),
        o => db_err(o),
    }
}

fn simple(oc: &str) -> Res {
    Res {
        oc: oc.to_string(),
        ..Default::default()
    }
}

fn res_of<T, E: std::fmt::Debug + std::fmt::Display>(r: Result<T, E>) -> Res {
    match r {
        Ok(_) => simple("ok"),
        Err(e) => Res {
            oc: format!("error:{}", variant_name(&e)),
            detail: e.to_string().chars().take(200).collect(),
            ..Default::default()
        },
    }
}

fn res_of_db<T>(r: Result<T, DbError>) -> Res {
    match r {
        Ok(_) => simple("ok"),
        Err(e) => db_err(&e),
    }
}

// ---------------------------------------------------------------------------------------------
// rows received from a peer
// ---------------------------------------------------------------------------------------------

pub const KEY_LENS: &[usize] = &[0, 1, 32, 33, 34];
pub const SIG_LENS: &[usize] = &[0, 63, 64, 65];
pub const ROW_TYPES: &[&str] = &["node", "edge", "node-deletion", "edge-deletion", "peer-node", "identity-answer", "hash", "room-node"];
pub const ROW_PATHS: &[&str] = &["verify", "service", "flow", "ingest"];
/// content variants; "valid" = a correctly signed row of an entitled author before the lengths are changed
pub const ROW_VARIANTS: &[&str] = &[
    "valid", "key-type-0", "key-bytes-ff", "date-min", "date-minus-1", "date-max", "date-far-future", "entity-empty", "entity-unknown", "json-not-object", "json-invalid", "json-absent", "label-empty", "label-long", "inner-date-max", "inner-date-min",
];

fn resize(v: &mut Vec<u8>, len: usize) {
    if v.len() > len {
        v.truncate(len);
    } else {
        while v.len() < len {
            v.push(0x5a);
        }
    }
}

fn uid_n(n: u8) -> Uid {
    let mut u = [n; 16];
    u[0] = 0xC1;
    u[1] = 0x4A;
    u
}

pub fn row_cases() -> Vec<FullCase> {
    let mut v = vec![];
    for row in ROW_TYPES {
        for path in ROW_PATHS {
            if (*row == "identity-answer" || *row == "hash") && (*path == "flow" || *path == "ingest") {
                continue;
            }
            // key and signature lengths on an otherwise valid row
            for k in KEY_LENS {
                for s in SIG_LENS {
                    v.push(FullCase::Row {
                        row: row.to_string(),
                        klen: *k,
                        slen: *s,
                        variant: "valid".into(),
                        path: path.to_string(),
                    });
                }
            }
            // content variants with regular lengths
            for var in ROW_VARIANTS.iter().skip(1) {
                let node_like = matches!(*row, "node" | "peer-node" | "identity-answer" | "room-node");
                let applies = if var.starts_with("key") {
                    true
                } else if *row == "hash" {
                    false
                } else if var.starts_with("json") {
                    node_like
                } else if var.starts_with("label") {
                    *row == "edge" || *row == "edge-deletion"
                } else if var.starts_with("inner") {
                    *row == "node-deletion" || *row == "edge-deletion"
                } else {
                    true
                };
                if !applies {
                    continue;
                }
                v.push(FullCase::Row {
                    row: row.to_string(),
                    klen: 33,
                    slen: 64,
                    variant: var.to_string(),
                    path: path.to_string(),
                });
            }
        }
    }
    v
}

struct Built {
    node: Option<Node>,
    edge: Option<Edge>,
    ndel: Option<NodeDeletionEntry>,
    edel: Option<EdgeDeletionEntry>,
    room_node: Option<RoomNode>,
}

impl Full {
    fn date_of(variant: &str) -> i64 {
        match variant {
            "date-min" => i64::MIN,
            "date-minus-1" => -1,
            "date-max" => i64::MAX,
            "date-far-future" => T0 + 400_000 * DAY,
            _ => T0 + 1000,
        }
    }

    async fn build_row(&self, row: &str, klen: usize, slen: usize, variant: &str) -> Built {
        let m = signing_key_for(2);
        let date = Self::date_of(variant);
        let mut b = Built {
            node: None,
            edge: None,
            ndel: None,
            edel: None,
            room_node: None,
        };
        let fix_key = |key: &mut Vec<u8>| {
            match variant {
                "key-type-0" => {
                    if !key.is_empty() {
                        key[0] = 0
                    }
                }
                "key-bytes-ff" => {
                    for x in key.iter_mut().skip(1) {
                        *x = 0xff
                    }
                }
                _ => {}
            }
            resize(key, klen);
        };
        match row {
            "node" | "peer-node" | "identity-answer" | "room-node" => {
                let mut n = Node {
                    id: uid_n(1),
                    room_id: Some(self.room),
                    cdate: date,
                    mdate: date,
                    _entity: self.t_short.clone(),
                    _json: Some(self.t_json.clone()),
                    _binary: None,
                    verifying_key: vec![],
                    _signature: vec![],
                    _local_id: None,
                };
                if row == "peer-node" || row == "identity-answer" {
                    n = Peer::create(uid_n(2), b64(&[9u8; 32]));
                    n.cdate = date;
                    n.mdate = date;
                }
                match variant {
                    "entity-empty" => n._entity = String::new(),
                    "entity-unknown" => n._entity = "77.77".into(),
                    "json-not-object" => n._json = Some("[1,2]".into()),
                    "json-invalid" => n._json = Some("{\"32\":".into()),
                    "json-absent" => n._json = None,
                    _ => {}
                }
                let _ = n.sign(&m);
                if n.verifying_key.is_empty() {
                    n.verifying_key = m.export_verifying_key();
                }
                if n._signature.is_empty() {
                    n._signature = vec![1u8; 64];
                }
                fix_key(&mut n.verifying_key);
                resize(&mut n._signature, slen);
                if row == "room-node" {
                    // a real room definition whose root row is replaced by the odd one
                    if let Ok(Some(mut rn)) = self.peer.db.get_room_node(self.room).await {
                        let mut root = rn.node.clone();
                        if variant != "valid" || klen != 33 || slen != 64 {
                            root.cdate = n.cdate;
                            root.mdate = n.mdate;
                            match variant {
                                "entity-empty" | "entity-unknown" => root._entity = n._entity.clone(),
                                "json-not-object" | "json-invalid" | "json-absent" => root._json = n._json.clone(),
                                _ => {}
                            }
                            let own = signing_key_for(1);
                            let _ = root.sign(&own);
                            fix_key(&mut root.verifying_key);
                            resize(&mut root._signature, slen);
                        }
                        rn.node = root;
                        b.room_node = Some(rn);
                    }
                }
                b.node = Some(n);
            }
            "edge" => {
                let src = self.stored_node.as_ref().map(|n| n.id).unwrap_or(uid_n(1));
                let mut e = Edge {
                    src,
                    src_entity: self.t_short.clone(),
                    label: self.rs_short.clone(),
                    dest: uid_n(3),
                    cdate: date,
                    verifying_key: vec![],
                    signature: vec![],
                };
                match variant {
                    "entity-empty" => e.src_entity = String::new(),
                    "entity-unknown" => e.src_entity = "77.77".into(),
                    "label-empty" => e.label = String::new(),
                    "label-long" => e.label = "x".repeat(5000),
                    _ => {}
                }
                let _ = e.sign(&m);
                if e.verifying_key.is_empty() {
                    e.verifying_key = m.export_verifying_key();
                }
                if e.signature.is_empty() {
                    e.signature = vec![1u8; 64];
                }
                fix_key(&mut e.verifying_key);
                resize(&mut e.signature, slen);
                b.edge = Some(e);
            }
            "node-deletion" => {
                let target = self.stored_node.clone().unwrap_or_default();
                let mut d = NodeDeletionEntry::build(self.room, &target, date, &m);
                match variant {
                    "entity-empty" => d.entity = String::new(),
                    "entity-unknown" => d.entity = "77.77".into(),
                    "inner-date-max" => d.mdate = i64::MAX,
                    "inner-date-min" => d.mdate = i64::MIN,
                    _ => {}
                }
                if variant.starts_with("entity") || variant.starts_with("inner") {
                    // re-sign the changed content: a dishonest author signs what it wants
                    let mut fake = target.clone();
                    fake._entity = d.entity.clone();
                    fake.mdate = d.mdate;
                    d.signature = NodeDeletionEntry::sign(&self.room, &fake, date, &d.verifying_key, &m);
                }
                fix_key(&mut d.verifying_key);
                resize(&mut d.signature, slen);
                b.ndel = Some(d);
            }
            "edge-deletion" => {
                let src = self.stored_node.as_ref().map(|n| n.id).unwrap_or(uid_n(1));
                let mut e = Edge {
                    src,
                    src_entity: self.t_short.clone(),
                    label: self.rs_short.clone(),
                    dest: uid_n(3),
                    cdate: T0,
                    ..Default::default()
                };
                match variant {
                    "entity-empty" => e.src_entity = String::new(),
                    "entity-unknown" => e.src_entity = "77.77".into(),
                    "label-empty" => e.label = String::new(),
                    "label-long" => e.label = "x".repeat(5000),
                    "inner-date-max" => e.cdate = i64::MAX,
                    "inner-date-min" => e.cdate = i64::MIN,
                    _ => {}
                }
                let mut d = EdgeDeletionEntry::build(self.room, &e, date, &m);
                fix_key(&mut d.verifying_key);
                resize(&mut d.signature, slen);
                b.edel = Some(d);
            }
            _ => {}
        }
        b
    }

    pub async fn exec_row(&self, row: &str, klen: usize, slen: usize, variant: &str, path: &str) -> Res {
        let b = self.build_row(row, klen, slen, variant).await;
        let _ = take_panics();
        let svc = self.peer.services.signature_verification.clone();
        let db = self.peer.db.clone();
        let room = self.room;
        let m = signing_key_for(2);
        let fut = async move {
            match (row, path) {
                ("hash", _) => {
                    let mut key = m.export_verifying_key();
                    match variant {
                        "key-type-0" => key[0] = 0,
                        "key-bytes-ff" => {
                            for x in key.iter_mut().skip(1) {
                                *x = 0xff
                            }
                        }
                        _ => {}
                    }
                    resize(&mut key, klen);
                    let hash = [3u8; 32];
                    let mut sig = m.sign(&hash);
                    resize(&mut sig, slen);
                    if path == "verify" {
                        match discret::verif::security::import_verifying_key(&key) {
                            Ok(k) => res_of(k.verify(&hash, &sig)),
                            Err(e) => res_of::<(), _>(Err(e)),
                        }
                    } else {
                        let ok = svc.verify_hash(sig, hash, key).await;
                        simple(if ok { "ok" } else { "error:refused" })
                    }
                }
                ("identity-answer", _) => {
                    let n = b.node.unwrap();
                    let chall = vec![5u8; 32];
                    let mut sig = m.sign(&chall);
                    resize(&mut sig, slen);
                    let ia = IdentityAnswer {
                        peer: n.clone(),
                        chall_signature: sig,
                    };
                    if path == "verify" {
                        res_of(ia.verify(&chall))
                    } else {
                        res_of_db(Peer::validate(&n))
                    }
                }
                ("node", "verify") => res_of_db(b.node.unwrap().verify()),
                ("peer-node", "verify") => res_of_db(Peer::validate(&b.node.unwrap())),
                ("edge", "verify") => res_of_db(b.edge.unwrap().verify()),
                ("node-deletion", "verify") => res_of_db(b.ndel.unwrap().verify()),
                ("edge-deletion", "verify") => res_of_db(b.edel.unwrap().verify()),
                ("room-node", "verify") => match b.room_node {
                    Some(rn) => res_of(SignatureVerificationService::room_check(rn)),
                    None => simple("error:no-room-node"),
                },
                ("node", p) | ("peer-node", p) => {
                    let n = b.node.unwrap();
                    let verified = if p == "ingest" {
                        Some(vec![n])
                    } else {
                        match svc.verify_nodes(vec![n]).await {
                            Ok(v) => Some(v),
                            Err(e) => return res_of::<(), _>(Err(e)),
                        }
                    };
                    if p == "service" {
                        return simple("ok");
                    }
                    let nodes = verified.unwrap();
                    if row == "peer-node" {
                        return res_of_db(db.add_peer_nodes(nodes).await);
                    }
                    let nti: Vec<NodeToInsert> = nodes
                        .into_iter()
                        .map(|n| NodeToInsert {
                            id: n.id,
                            node: Some(n),
                            index: true,
                            ..Default::default()
                        })
                        .collect();
                    match db.add_nodes(room, nti).await {
                        Ok(rejected) => simple(if rejected.is_empty() { "ok" } else { "ok:row-rejected" }),
                        Err(e) => db_err(&e),
                    }
                }
                ("edge", p) => {
                    let e = b.edge.unwrap();
                    let verified = if p == "ingest" {
                        vec![e]
                    } else {
                        match svc.verify_edges(vec![e]).await {
                            Ok(v) => v,
                            Err(e) => return res_of::<(), _>(Err(e)),
                        }
                    };
                    if p == "service" {
                        return simple("ok");
                    }
                    match db.add_edges(room, verified).await {
                        Ok(rejected) => simple(if rejected.is_empty() { "ok" } else { "ok:row-rejected" }),
                        Err(e) => db_err(&e),
                    }
                }
                ("node-deletion", p) => {
                    let d = b.ndel.unwrap();
                    let verified = if p == "ingest" {
                        vec![d]
                    } else {
                        match svc.verify_node_log(vec![d]).await {
                            Ok(v) => v,
                            Err(e) => return res_of::<(), _>(Err(e)),
                        }
                    };
                    if p == "service" {
                        return simple("ok");
                    }
                    res_of_db(db.delete_nodes(verified).await)
                }
                ("edge-deletion", p) => {
                    let d = b.edel.unwrap();
                    let verified = if p == "ingest" {
                        vec![d]
                    } else {
                        match svc.verify_edge_log(vec![d]).await {
                            Ok(v) => v,
                            Err(e) => return res_of::<(), _>(Err(e)),
                        }
                    };
                    if p == "service" {
                        return simple("ok");
                    }
                    res_of_db(db.delete_edges(verified).await)
                }
                ("room-node", p) => {
                    let rn = match b.room_node {
                        Some(rn) => rn,
                        None => return simple("error:no-room-node"),
                    };
                    let verified = if p == "ingest" {
                        rn
                    } else {
                        match svc.verify_room_node(rn).await {
                            Ok(v) => v,
                            Err(e) => return res_of::<(), _>(Err(e)),
                        }
                    };
                    if p == "service" {
                        return simple("ok");
                    }
                    res_of_db(db.add_room_node(verified).await)
                }
                _ => simple("error:unknown-row"),
            }
        };
        let r = guarded(fut).await;
        let _ = tokio::time::timeout(CALL_TIMEOUT, self.peer.barrier()).await;
        finish_res(r)
    }
}

// ---------------------------------------------------------------------------------------------
// protocol queries through the real serving routine
// ---------------------------------------------------------------------------------------------

pub const INBOUND_DATES: &[(&str, i64)] = &[("date-min", i64::MIN), ("date-minus-1", -1), ("date-0", 0), ("date-now", T0), ("date-max", i64::MAX)];

pub fn inbound_cases() -> Vec<FullCase> {
    let mut v = vec![];
    let mk = |q: &str, var: String| FullCase::Inbound {
        query: q.to_string(),
        variant: var,
    };
    for room in ["room-allowed", "room-unknown", "room-private"] {
        for q in ["RoomDefinition", "RoomNode", "RoomLog", "PeersForRoom"] {
            v.push(mk(q, room.to_string()));
        }
        for (dn, _) in INBOUND_DATES {
            v.push(mk("RoomLogAt", format!("{}|{}", room, dn)));
            for ent in ["entity-known", "entity-empty", "entity-unknown", "entity-long"] {
                for q in ["EdgeDeletionLog", "NodeDeletionLog", "RoomDailyNodes"] {
                    v.push(mk(q, format!("{}|{}|{}", room, ent, dn)));
                }
            }
        }
        for ids in ["ids-none", "ids-existing", "ids-unknown", "ids-5000"] {
            v.push(mk("Nodes", format!("{}|{}", room, ids)));
            for (dn, _) in INBOUND_DATES {
                v.push(mk("Edges", format!("{}|{}|{}", room, ids, dn)));
            }
        }
    }
    for ch in ["challenge-empty", "challenge-32", "challenge-100k"] {
        v.push(mk("ProveIdentity", ch.to_string()));
    }
    v.push(mk("HardwareFingerprint", "-".into()));
    v.push(mk("RoomList", "-".into()));
    v
}

impl Full {
    fn inbound_query(&self, query: &str, variant: &str) -> Option<Query> {
        let parts: Vec<&str> = variant.split('|').collect();
        let room = match parts.first().copied() {
            Some("room-allowed") => self.room,
            Some("room-private") => self.peer.private_room,
            _ => uid_n(9),
        };
        let date = |s: &str| INBOUND_DATES.iter().find(|d| d.0 == s).map(|d| d.1).unwrap_or(T0);
        let ent = |s: &str| match s {
            "entity-known" => self.t_short.clone(),
            "entity-empty" => String::new(),
            "entity-long" => "e".repeat(10_000),
            _ => "77.77".to_string(),
        };
        let ids = |s: &str| -> Vec<Uid> {
            match s {
                "ids-existing" => self.stored_node.iter().map(|n| n.id).collect(),
                "ids-unknown" => vec![uid_n(4)],
                "ids-5000" => (0..5000u32)
                    .map(|i| {
                        let mut u = uid_n(5);
                        u[12..16].copy_from_slice(&i.to_le_bytes());
                        u
                    })
                    .collect(),
                _ => vec![],
            }
        };
        Some(match query {
            "RoomDefinition" => Query::RoomDefinition(room),
            "RoomNode" => Query::RoomNode(room),
            "RoomLog" => Query::RoomLog(room),
            "PeersForRoom" => Query::PeersForRoom(room),
            "RoomLogAt" => Query::RoomLogAt(room, date(parts.get(1)?)),
            "EdgeDeletionLog" => Query::EdgeDeletionLog(room, ent(parts.get(1)?), date(parts.get(2)?)),
            "NodeDeletionLog" => Query::NodeDeletionLog(room, ent(parts.get(1)?), date(parts.get(2)?)),
            "RoomDailyNodes" => Query::RoomDailyNodes(room, ent(parts.get(1)?), date(parts.get(2)?)),
            "Nodes" => Query::Nodes(room, ids(parts.get(1)?)),
            "Edges" => {
                let d = date(parts.get(2)?);
                Query::Edges(room, ids(parts.get(1)?).into_iter().map(|i| (i, d)).collect())
            }
            "ProveIdentity" => Query::ProveIdentity(match variant {
                "challenge-empty" => vec![],
                "challenge-32" => vec![1u8; 32],
                _ => vec![2u8; 100_000],
            }),
            "HardwareFingerprint" => Query::HardwareFingerprint(),
            "RoomList" => Query::RoomList,
            _ => return None,
        })
    }

    pub async fn exec_inbound(&self, query: &str, variant: &str) -> Res {
        let q = match self.inbound_query(query, variant) {
            Some(q) => q,
            None => return simple("error:unknown-query"),
        };
        let _ = take_panics();
        let (tx, mut rx) = mpsc::channel::<Answer>(64);
        let drain = tokio::spawn(async move {
            let mut n = 0usize;
            let mut ok = true;
            while let Some(a) = rx.recv().await {
                n += 1;
                ok &= a.success;
            }
            (n, ok)
        });
        let mut allowed = HashSet::new();
        allowed.insert(self.room);
        let mut handle = RemotePeerHandle {
            allowed_room: allowed,
            db: self.peer.db.clone(),
            verifying_key: self.peer.verifying_key.clone(),
            reply: tx,
        };
        let remote_key = Arc::new(Mutex::new(verifying_key_for(2)));
        let conn_ready = Arc::new(AtomicBool::new(true));
        let fingerprint = HardwareFingerprint {
            id: [7u8; 16],
            name: "mc".to_string(),
        };
        let msg = QueryProtocol { id: 1, query: q };
        let r = guarded(async {
            let r = InboundQueryService::process_inbound(msg, &mut handle, &remote_key, &conn_ready, &fingerprint).await;
            drop(handle);
            r
        })
        .await;
        let answers = tokio::time::timeout(Duration::from_secs(2), drain).await;
        let r = match r {
            Guarded::Done(Ok(_)) => {
                let (n, ok) = answers.ok().and_then(|j| j.ok()).unwrap_or((0, false));
                Guarded::Done(simple(if n == 0 {
                    "ok:no-answer"
                } else if ok {
                    "ok"
                } else {
                    "ok:refused"
                }))
            }
            Guarded::Done(Err(e)) => Guarded::Done(Res {
                oc: format!("error:{}", variant_name(&e)),
                detail: e.to_string().chars().take(200).collect(),
                ..Default::default()
            }),
            Guarded::Panicked => Guarded::Panicked,
            Guarded::TimedOut => Guarded::TimedOut,
        };
        let _ = tokio::time::timeout(CALL_TIMEOUT, self.peer.barrier()).await;
        finish_res(r)
    }
}

// ---------------------------------------------------------------------------------------------
// invitations and model updates
// ---------------------------------------------------------------------------------------------

pub const APP: &str = "mc verif app";

pub fn invite_cases() -> Vec<FullCase> {
    let mut v = vec![];
    let mk = |bytes: &[u8], class: &str| FullCase::Invite {
        hex: hex::encode(bytes),
        class: class.to_string(),
    };
    // every byte string of length <= 1, and a two byte sample of each first byte class
    v.push(mk(&[], "short-string"));
    for b in 0..=255u8 {
        v.push(mk(&[b], "short-string"));
    }
    for a in [0u8, 1, 16, 255] {
        for b in [0u8, 1, 255] {
            v.push(mk(&[a, b], "short-string"));
        }
    }
    let key = signing_key_for(2);
    for (app, sl, class) in [
        (APP, 64usize, "valid"),
        ("another app", 64, "other-application"),
        ("", 64, "empty-application"),
        (APP, 0, "signature-len-0"),
        (APP, 63, "signature-len-63"),
        (APP, 65, "signature-len-65"),
        (APP, 100_000, "signature-len-100k"),
    ] {
        let mut sig = key.sign(&[1u8; 32]);
        resize(&mut sig, sl);
        let inv = Invite {
            invite_id: uid_n(6),
            application: app.to_string(),
            invite_sign: sig,
        };
        let bytes = bincode::serialize(&inv).unwrap();
        v.push(mk(&bytes, class));
        if class == "valid" {
            v.push(mk(&bytes, "valid-second-time"));
            for cut in 0..bytes.len() {
                v.push(mk(&bytes[0..cut], "truncation"));
            }
            for off in 0..bytes.len().saturating_sub(7) {
                for val in [u64::MAX, 1u64 << 40, (bytes.len() as u64) + 1] {
                    let mut m = bytes.clone();
                    m[off..off + 8].copy_from_slice(&val.to_le_bytes());
                    v.push(mk(&m, "length-inflation"));
                }
            }
        }
    }
    v
}

pub fn model_update_cases() -> Vec<FullCase> {
    let mk = |t: &str, c: &str| FullCase::ModelUpdate {
        text: t.to_string(),
        class: c.to_string(),
    };
    let base = T_MODEL.trim_end_matches('}').to_string();
    vec![
        mk("", "empty"),
        mk("{", "unbalanced"),
        mk(T_MODEL, "same-model"),
        mk(&format!("{} Extra {{ a: String, index(a) }} }}", base), "new-entity-with-index"),
        mk(&format!("{} Extra {{ a: String, index(a) }} }}", base), "same-again"),
        mk(&format!("{} Extra {{ a: String }} }}", base), "index-removed"),
        mk("{ T { s_p: Integer } }", "field-type-changed"),
        mk("{ U { name: String } }", "entity-missing"),
        mk("sys { Room { a: String } }", "system-namespace"),
        mk(&format!("{} order {{ group: String, index(group) }} }}", base), "keyword-entity-with-index"),
    ]
}

impl Full {
    pub async fn exec_invite(&self, hex_bytes: &str) -> Res {
        let bytes = hex::decode(hex_bytes).unwrap_or_default();
        let _ = take_panics();
        let db = self.peer.db.clone();
        let room = b64(&self.peer.private_room);
        let fut = async move {
            // the steps of PeerManager::accept_invite that touch the input
            let inv: Invite = match bincode::deserialize(&bytes) {
                Ok(i) => i,
                Err(_) => return simple("reject:decode"),
            };
            if !inv.application.eq(APP) {
                return simple("reject:application");
            }
            match inv.insert(room, &db).await {
                Ok(_) => simple("ok"),
                Err(e) => match e {
                    discret::Error::Database(d) => db_err(&d),
                    discret::Error::Parsing(p) => crate::c14::lang_err(&p),
                    o => Res {
                        oc: format!("error:{}", variant_name(&o)),
                        detail: o.to_string().chars().take(200).collect(),
                        ..Default::default()
                    },
                },
            }
        };
        let r = guarded(fut).await;
        let _ = tokio::time::timeout(CALL_TIMEOUT, self.peer.barrier()).await;
        finish_res(r)
    }

    pub async fn exec_model_update(&self, text: &str) -> Res {
        let _ = take_panics();
        let db = self.peer.db.clone();
        let r = guarded(async move {
            match db.update_data_model(text).await {
                Ok(_) => simple("ok"),
                Err(e) => full_err(&e),
            }
        })
        .await;
        let _ = tokio::time::timeout(CALL_TIMEOUT, self.peer.barrier()).await;
        finish_res(r)
    }

    pub async fn exec(&self, case: &FullCase) -> Res {
        match case {
            FullCase::Stmt { case } => self.exec_stmt(&case.kind, &case.text, &case.params).await,
            FullCase::Row {
                row,
                klen,
                slen,
                variant,
                path,
            } => self.exec_row(row, *klen, *slen, variant, path).await,
            FullCase::Inbound { query, variant } => self.exec_inbound(query, variant).await,
            FullCase::Invite { hex, .. } => self.exec_invite(hex).await,
            FullCase::ModelUpdate { text, .. } => self.exec_model_update(text).await,
        }
    }
}

/// run one case on a brand new instance: (keys, outcome, probe symptoms)
pub async fn eval_fresh(case: &FullCase, root: &PathBuf) -> (Vec<(String, String)>, String, Vec<String>) {
    let full = match Full::new(root, T_MODEL, &crate::c14::t_setup()).await {
        Ok(f) => f,
        Err(e) => return (vec![("machinery".into(), e)], "machinery".into(), vec![]),
    };
    let r = full.exec(case).await;
    let probe = full.probe(!r.panics.is_empty()).await;
    (keys_of(&case.class(), &r, &probe), r.oc.clone(), probe)
}

pub fn eval_fresh_blocking(case: &FullCase) -> Vec<(String, String)> {
    let root = scratch_root().join("replay");
    let _g = ScratchGuard(root.clone());
    let rt = runtime();
    rt.block_on(async { eval_fresh(case, &root).await.0 })
}

/// a chunk of full-world cases on one instance (a sequence): probe after each; the instance is
/// replaced as soon as it is damaged
pub async fn run_full_unit(part: &str, cases: &[FullCase], out: &mut Outcome, sink: &mut crate::c14::Sink, root: &PathBuf) -> Result<(), String> {
    let setup = crate::c14::t_setup();
    let mut full = Full::new(root, T_MODEL, &setup).await?;
    for case in cases {
        let class = case.class();
        crate::c14::set_current(&format!("full {}", class));
        let r = full.exec(case).await;
        let probe = full.probe(!r.panics.is_empty()).await;
        out.evaluations += 1;
        out.transitions += 5;
        out.traces_validated += 1;
        out.count(&format!("{}:full:{}", part, r.oc));
        out.state(&(part, "full", &class, &r.oc));
        out.nontrivial(&(part, "full", &r.oc));
        for s in &probe {
            out.count(&format!("{}:probe:{}", part, s));
        }
        if out.samples.len() < 2 && r.oc == "ok" {
            out.sample(json!({"part": part, "world": "full", "case": serde_json::to_value(case).unwrap_or(Value::Null), "outcome": r.oc, "probe": "answered"}));
        }
        let bad = crate::c14::symptoms_of(&r, &probe);
        let damaged = !probe.is_empty() || !r.panics.is_empty();
        let ok = r.oc == "ok" || r.oc.starts_with("ok:");
        let c = case.clone();
        sink.put(class.split('|').map(|s| s.to_string()).collect(), ok, bad, move || crate::c14::Case::Full { case: c });
        if damaged {
            // a dead verification thread alone is repaired in place, anything else needs a new instance
            let only_verifier = probe.iter().all(|s| s == "probe-verification-unanswered") && !probe.is_empty();
            let mut repaired = false;
            if only_verifier {
                full.peer.services.signature_verification = SignatureVerificationService::start(1);
                repaired = full.probe(false).await.is_empty();
            }
            if repaired {
                out.count(&format!("{}:verification-service-restarted", part));
            } else {
                out.count(&format!("{}:instance-replaced", part));
                full = Full::new(root, T_MODEL, &setup).await?;
            }
        }
    }
    Ok(())
}

// ---------------------------------------------------------------------------------------------
// wire values: bincode decode of every protocol type
// ---------------------------------------------------------------------------------------------

pub const WIRE_TYPES: &[&str] = &[
    "QueryProtocol", "Answer", "RemoteEvent", "IdentityAnswer", "ConnectionInfo", "Announce", "AnnounceHeader", "Invite", "Node", "Edge", "NodeDeletionEntry", "EdgeDeletionEntry", "Vec<Node>",
    "Vec<Edge>", "Vec<NodeDeletionEntry>", "Vec<EdgeDeletionEntry>", "HashSet<NodeIdentifier>", "RoomNode", "SyncError", "HardwareFingerprint", "Vec<Uid>", "String",
];

/// decode one byte string as one type; true = a value was produced
pub fn decode_one(ty: &str, b: &[u8]) -> bool {
    use discret::verif::synchronisation::Error as SyncError;
    macro_rules! d {
        ($t:ty) => {
            bincode::deserialize::<$t>(b).is_ok()
        };
    }
    match ty {
        "QueryProtocol" => d!(QueryProtocol),
        "Answer" => d!(Answer),
        "RemoteEvent" => d!(RemoteEvent),
        "IdentityAnswer" => d!(IdentityAnswer),
        "ConnectionInfo" => d!(ConnectionInfo),
        "Announce" => d!(Announce),
        "AnnounceHeader" => d!(AnnounceHeader),
        "Invite" => d!(Invite),
        "Node" => d!(Node),
        "Edge" => d!(Edge),
        "NodeDeletionEntry" => d!(NodeDeletionEntry),
        "EdgeDeletionEntry" => d!(EdgeDeletionEntry),
        "Vec<Node>" => d!(Vec<Node>),
        "Vec<Edge>" => d!(Vec<Edge>),
        "Vec<NodeDeletionEntry>" => d!(Vec<NodeDeletionEntry>),
        "Vec<EdgeDeletionEntry>" => d!(Vec<EdgeDeletionEntry>),
        "HashSet<NodeIdentifier>" => d!(HashSet<NodeIdentifier>),
        "RoomNode" => d!(RoomNode),
        "SyncError" => d!(SyncError),
        "HardwareFingerprint" => d!(HardwareFingerprint),
        "Vec<Uid>" => d!(Vec<Uid>),
        "String" => d!(String),
        _ => false,
    }
}

/// valid encodings of every type (the seeds of the truncation / inflation cases)
pub fn wire_exemplars() -> Vec<(&'static str, Vec<u8>)> {
    let key = signing_key_for(2);
    let mut node = Node {
        id: uid_n(1),
        room_id: Some(uid_n(2)),
        cdate: T0,
        mdate: T0,
        _entity: "1.0".into(),
        _json: Some("{\"32\":\"a\"}".into()),
        _binary: Some(vec![1, 2, 3]),
        verifying_key: vec![],
        _signature: vec![],
        _local_id: None,
    };
    let _ = node.sign(&key);
    let mut edge = Edge {
        src: uid_n(1),
        src_entity: "1.0".into(),
        label: "33".into(),
        dest: uid_n(3),
        cdate: T0,
        ..Default::default()
    };
    let _ = edge.sign(&key);
    let ndel = NodeDeletionEntry::build(uid_n(2), &node, T0, &key);
    let edel = EdgeDeletionEntry::build(uid_n(2), &edge, T0, &key);
    let s = |v: &dyn erased::Ser| v.ser();
    let mut out: Vec<(&'static str, Vec<u8>)> = vec![];
    let queries = vec![
        Query::ProveIdentity(vec![1, 2, 3]),
        Query::HardwareFingerprint(),
        Query::RoomList,
        Query::RoomDefinition(uid_n(2)),
        Query::RoomNode(uid_n(2)),
        Query::RoomLog(uid_n(2)),
        Query::RoomLogAt(uid_n(2), T0),
        Query::EdgeDeletionLog(uid_n(2), "1.0".into(), T0),
        Query::NodeDeletionLog(uid_n(2), "1.0".into(), T0),
        Query::RoomDailyNodes(uid_n(2), "1.0".into(), T0),
        Query::Nodes(uid_n(2), vec![uid_n(1), uid_n(3)]),
        Query::Edges(uid_n(2), vec![(uid_n(1), T0)]),
        Query::PeersForRoom(uid_n(2)),
    ];
    for q in queries {
        out.push(("QueryProtocol", s(&QueryProtocol { id: 7, query: q })));
    }
    out.push(("Answer", s(&Answer { id: 7, success: true, complete: false, serialized: vec![1, 2, 3, 4] })));
    for e in [RemoteEvent::Ready, RemoteEvent::ReadyFingerprint, RemoteEvent::RoomDefinitionChanged(uid_n(2)), RemoteEvent::RoomDataChanged(uid_n(2))] {
        out.push(("RemoteEvent", s(&e)));
    }
    out.push(("IdentityAnswer", s(&IdentityAnswer { peer: node.clone(), chall_signature: key.sign(&[1u8; 32]) })));
    out.push((
        "ConnectionInfo",
        s(&ConnectionInfo {
            endpoint_id: uid_n(1),
            remote_id: uid_n(2),
            conn_id: uid_n(3),
            meeting_token: [1u8; 7],
            peer_verifying_key: key.export_verifying_key(),
        }),
    ));
    // AnnounceHeader has private fields: its encoding is written by hand (uid, 32 byte hash, byte vector)
    let mut header = vec![];
    header.extend_from_slice(&uid_n(1));
    header.extend_from_slice(&[4u8; 32]);
    header.extend_from_slice(&64u64.to_le_bytes());
    header.extend_from_slice(&[5u8; 64]);
    out.push(("AnnounceHeader", header.clone()));
    let mut ann = header;
    ann.extend_from_slice(&2u64.to_le_bytes());
    ann.extend_from_slice(&[1u8; 7]);
    ann.extend_from_slice(&[2u8; 7]);
    out.push(("Announce", ann));
    out.push(("Invite", s(&Invite { invite_id: uid_n(6), application: APP.into(), invite_sign: key.sign(&[1u8; 32]) })));
    out.push(("Node", s(&node)));
    out.push(("Edge", s(&edge)));
    out.push(("NodeDeletionEntry", s(&ndel)));
    out.push(("EdgeDeletionEntry", s(&edel)));
    out.push(("Vec<Node>", s(&vec![node.clone(), node.clone()])));
    out.push(("Vec<Edge>", s(&vec![edge.clone()])));
    out.push(("Vec<NodeDeletionEntry>", bincode::serialize(&vec![&ndel]).unwrap()));
    out.push(("Vec<EdgeDeletionEntry>", bincode::serialize(&vec![&edel]).unwrap()));
    out.push(("HashSet<NodeIdentifier>", bincode::serialize(&vec![NodeIdentifier { id: uid_n(1), mdate: T0, signature: vec![1u8; 64] }]).unwrap()));
    out.push((
        "RoomNode",
        s(&RoomNode {
            node: node.clone(),
            last_modified: T0,
            admin_edges: vec![edge.clone()],
            admin_nodes: vec![],
            auth_edges: vec![edge.clone()],
            auth_nodes: vec![],
        }),
    ));
    out.push(("SyncError", s(&discret::verif::synchronisation::Error::Authorisation("q".into()))));
    out.push(("HardwareFingerprint", s(&HardwareFingerprint { id: uid_n(1), name: "device".into() })));
    out.push(("Vec<Uid>", s(&vec![uid_n(1), uid_n(2)])));
    out.push(("String", s(&"".to_string())));
    out
}

mod erased {
    pub trait Ser {
        fn ser(&self) -> Vec<u8>;
    }
    impl<T: serde::Serialize> Ser for T {
        fn ser(&self) -> Vec<u8> {
            bincode::serialize(self).unwrap()
        }
    }
}

const SHORT: u64 = 1 + 256 + 65536;

/// the wire cases are an indexable sequence: [type x short strings] then [exemplar x mutations]
pub struct WireSpace {
    pub ex: Vec<(&'static str, Vec<u8>)>,
    /// cumulative case count at the start of every exemplar segment
    pub starts: Vec<u64>,
    pub total: u64,
}

fn mutation_count(n: usize) -> u64 {
    // prefixes 0..n-1, three byte variants per offset, three 8 byte overwrites per offset
    (n + 3 * n + 3 * n.saturating_sub(7)) as u64
}

impl WireSpace {
    pub fn new() -> WireSpace {
        let ex = wire_exemplars();
        let mut starts = vec![];
        let mut total = SHORT * WIRE_TYPES.len() as u64;
        for (_, b) in &ex {
            starts.push(total);
            total += mutation_count(b.len());
        }
        WireSpace { ex, starts, total }
    }

    /// (type, bytes, class)
    pub fn case(&self, idx: u64) -> (&'static str, Vec<u8>, &'static str) {
        let short_total = SHORT * WIRE_TYPES.len() as u64;
        if idx < short_total {
            let ty = WIRE_TYPES[(idx / SHORT) as usize];
            let k = idx % SHORT;
            let bytes = if k == 0 {
                vec![]
            } else if k <= 256 {
                vec![(k - 1) as u8]
            } else {
                let v = k - 257;
                vec![(v / 256) as u8, (v % 256) as u8]
            };
            return (ty, bytes, "short-string");
        }
        let seg = match self.starts.binary_search(&idx) {
            Ok(i) => i,
            Err(i) => i - 1,
        };
        let (ty, base) = &self.ex[seg];
        let n = base.len();
        let mut k = (idx - self.starts[seg]) as usize;
        if k < n {
            return (ty, base[0..k].to_vec(), "truncation");
        }
        k -= n;
        if k < 3 * n {
            let off = k / 3;
            let mut b = base.clone();
            b[off] = match k % 3 {
                0 => b[off].wrapping_add(1),
                1 => 0xff,
                _ => 0x00,
            };
            return (ty, b, "byte-change");
        }
        k -= 3 * n;
        let off = k / 3;
        let val = match k % 3 {
            0 => u64::MAX,
            1 => 1u64 << 40,
            _ => (n as u64) + 1,
        };
        let mut b = base.clone();
        b[off..off + 8].copy_from_slice(&val.to_le_bytes());
        (ty, b, "length-inflation")
    }
}

/// child process: decode every case from `from`; progress (next index) is written to `progress`
/// before each block (or before each case when `careful`)
pub fn wire_child(from: u64, to: Option<u64>, progress: &str, careful: bool) -> i32 {
    use std::os::unix::fs::FileExt;
    crate::c14::install_hook();
    let space = WireSpace::new();
    let file = std::fs::OpenOptions::new().create(true).write(true).open(progress).expect("progress file");
    let mut out = Outcome::default();
    let end = to.unwrap_or(space.total).min(space.total);
    let mut i = from;
    let mut decoded = 0u64;
    let mut refused = 0u64;
    while i < end {
        if careful || i % 256 == 0 || i == from {
            let _ = file.write_all_at(&i.to_le_bytes(), 0);
        }
        let (ty, bytes, class) = space.case(i);
        let r = std::panic::catch_unwind(|| decode_one(ty, &bytes));
        let panics: Vec<PanicRec> = take_panics();
        out.evaluations += 1;
        match r {
            Ok(true) => decoded += 1,
            Ok(false) => refused += 1,
            Err(_) => {}
        }
        let oc = if r.is_err() || !panics.is_empty() {
            "panic"
        } else if matches!(r, Ok(true)) {
            "decoded"
        } else {
            "refused"
        };
        out.state(&("iv", ty, class, oc));
        out.nontrivial(&("iv-wire", class, oc));
        if oc == "panic" {
            let res = Res {
                oc: "panic".into(),
                panics,
                ..Default::default()
            };
            let kclass = format!("iv:wire:{}|{}", ty, class);
            for (key, what) in keys_of(&kclass, &res, &[]) {
                out.violation(
                    key,
                    what,
                    serde_json::to_value(&crate::c14::Case::Wire {
                        ty: ty.to_string(),
                        hex: hex::encode(&bytes),
                        class: kclass.clone(),
                    })
                    .unwrap(),
                );
            }
        }
        i += 1;
    }
    let _ = file.write_all_at(&u64::MAX.to_le_bytes(), 0);
    out.outcomes.insert("iv:wire:decoded".into(), decoded);
    out.outcomes.insert("iv:wire:refused".into(), refused);
    out.transitions = out.evaluations;
    emit_shard_outcome(&out);
    0
}

/// parent side: run the child; an abnormal exit is pinned to one input and tried again twice
pub fn run_wire(out: &mut Outcome) {
    let exe = std::env::current_exe().unwrap();
    let progress = scratch_root().join("wire-progress");
    let _ = std::fs::create_dir_all(scratch_root());
    let progress_s = progress.to_string_lossy().to_string();
    let run_child = |from: u64, to: Option<u64>, careful: bool| -> (bool, Option<Outcome>, u64) {
        let mut cmd = std::process::Command::new(&exe);
        cmd.arg("C14").arg("--wire-child").arg(from.to_string()).arg(to.map(|t| t.to_string()).unwrap_or_else(|| "end".into())).arg(&progress_s);
        if careful {
            cmd.arg("careful");
        }
        cmd.stdout(std::process::Stdio::piped()).stderr(std::process::Stdio::null());
        let o = cmd.output().expect("wire child");
        let text = String::from_utf8_lossy(&o.stdout).to_string();
        let oc = text.lines().find_map(|l| l.strip_prefix("OUTCOME ")).and_then(|j| serde_json::from_str::<Outcome>(j).ok());
        let at = std::fs::read(&progress_s).ok().and_then(|b| b.get(0..8).map(|s| u64::from_le_bytes(s.try_into().unwrap()))).unwrap_or(0);
        (o.status.success(), oc, at)
    };
    let space = WireSpace::new();
    let mut from = 0u64;
    let mut guard = 0;
    loop {
        guard += 1;
        if guard > 20 {
            out.machinery_errors.push("wire child keeps failing".into());
            break;
        }
        let (ok, oc, at) = run_child(from, None, false);
        if ok {
            if let Some(o) = oc {
                out.merge(o);
            } else {
                out.machinery_errors.push("wire child gave no outcome".into());
            }
            break;
        }
        // abnormal exit inside the block starting at `at`: find the exact input
        let (_ok2, _oc2, exact) = run_child(at, Some(at + 256), true);
        let (ty, bytes, class) = space.case(exact.min(space.total - 1));
        let again1 = run_child(exact, Some(exact + 1), true).0;
        let again2 = run_child(exact, Some(exact + 1), true).0;
        let kclass = format!("iv:wire:{}|{}", ty, class);
        if !again1 && !again2 {
            out.violation(
                format!("abort:decode|{}", kclass),
                "the process dies while decoding this value".to_string(),
                serde_json::to_value(&crate::c14::Case::Wire {
                    ty: ty.to_string(),
                    hex: hex::encode(&bytes),
                    class: kclass,
                })
                .unwrap(),
            );
        } else {
            out.notes.push(format!("wire child died near case {} but the input alone does not reproduce it", exact));
        }
        // cases before `exact` were decoded by the failed child but their counts are lost: run them again
        if exact > from {
            let (okp, ocp, _) = run_child(from, Some(exact), false);
            if okp {
                if let Some(o) = ocp {
                    out.merge(o);
                }
            }
        }
        from = exact + 1;
    }
    let _ = std::fs::remove_file(&progress_s);
}
