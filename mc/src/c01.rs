//! C01 — local writes are applied only with the room's rights at that time.
//! E-STATE over room-definition histories (real room-mutation path) x E-SHAPE over an operation
//! catalogue per caller, verdicts compared with the rights oracle `RO`.
use crate::common::*;
use crate::rooms::*;
use crate::world::*;
use discret::verif::database::query_language::parameter::{Parameters, ParametersAdd};
use serde_json::json;
use std::time::Instant;

pub fn templates() -> Vec<(&'static str, Vec<(Vec<(&'static str, bool, bool)>, Vec<usize>, Vec<usize>)>)> {
    vec![
        // T0: one group, own rows on P only, users B and C
        ("T0", vec![(vec![("ns.P", true, false)], vec![1, 2], vec![])]),
        // T1: wildcard all-rows for B; second group own rows on P and Q for C
        (
            "T1",
            vec![
                (vec![("*", true, true)], vec![1], vec![]),
                (vec![("ns.P", true, false), ("ns.Q", true, false)], vec![2], vec![]),
            ],
        ),
        // T2: B is user admin, C user, all rows on P, nothing on Q, wildcard own
        ("T2", vec![(vec![("ns.P", true, true), ("*", true, false)], vec![2], vec![1])]),
    ]
}

/// events issued by the creator A that change the definition
pub fn alphabet(groups: usize, reduced: bool) -> Vec<REvent> {
    let mut evs = vec![];
    let keys: Vec<usize> = if reduced { vec![1] } else { vec![1, 2, 3] };
    for k in [1usize, 2] {
        if reduced && k != 1 {
            continue;
        }
        evs.push(REvent::AddAdmin { key: k, enabled: true });
        evs.push(REvent::AddAdmin { key: k, enabled: false });
    }
    for g in 0..groups {
        for &k in &keys {
            evs.push(REvent::AddUser { group: g, key: k, enabled: true });
            evs.push(REvent::AddUser { group: g, key: k, enabled: false });
        }
        for k in [1usize, 2] {
            if reduced && k != 1 {
                continue;
            }
            evs.push(REvent::AddUserAdmin { group: g, key: k, enabled: true });
            if !reduced {
                evs.push(REvent::AddUserAdmin { group: g, key: k, enabled: false });
            }
        }
        let ents: Vec<&str> = if reduced { vec!["ns.P", "*"] } else { vec!["ns.P", "ns.Q", "*"] };
        for e in ents {
            for (own, all) in [(false, false), (true, false), (true, true)] {
                evs.push(REvent::AddRight { group: g, entity: e.to_string(), own, all });
            }
        }
    }
    if !reduced {
        evs.push(REvent::AddGroup);
    }
    evs
}

#[derive(Clone, Debug)]
pub struct History {
    pub template: usize,
    pub events: Vec<REvent>,
}

pub fn histories(tier: Tier) -> Vec<History> {
    let mut res = vec![];
    let tpls = templates();
    for (ti, (_, groups)) in tpls.iter().enumerate() {
        let g = groups.len();
        res.push(History { template: ti, events: vec![] });
        let full = alphabet(g, false);
        let red = alphabet(g, true);
        // depth 1: full alphabet
        for e in &full {
            res.push(History { template: ti, events: vec![e.clone()] });
        }
        // depth 2: reduced (quick) / full (thorough)
        let a2 = if tier == Tier::Thorough { &full } else { &red };
        for e1 in a2 {
            for e2 in a2 {
                res.push(History { template: ti, events: vec![e1.clone(), e2.clone()] });
            }
        }
        if tier == Tier::Thorough {
            for e1 in &red {
                for e2 in &red {
                    for e3 in &red {
                        res.push(History { template: ti, events: vec![e1.clone(), e2.clone(), e3.clone()] });
                    }
                }
            }
        }
    }
    res
}

#[derive(Clone, Copy, Debug, PartialEq, Eq)]
pub enum Rm {
    R1,
    R2,
    R3,
}

#[derive(Clone, Debug)]
pub struct Need {
    pub room: Rm,
    pub entity: &'static str,
    pub right: Right,
}

pub const OPS: &[&str] = &[
    "create_P",
    "create_Q",
    "create_P_float_from_int_param",
    "create_P_float_from_int_literal",
    "create_P_typed_params",
    "create_P_nested_new_Q_inherit",
    "create_P_R2_nested_new_Q_R1",
    "update_own_P",
    "update_foreign_P",
    "move_own_R1_R2",
    "move_foreign_R1_R2",
    "move_own_R2_R1",
    "move_foreign_R2_R1",
    "move_own_R3_R1",
    "move_foreign_R3_R1",
    "nested_update_foreign_Q_parent_unchanged",
    "nested_update_own_Q_parent_unchanged",
    "nested_update_foreign_Q_parent_changed",
    "addref_own_P",
    "addref_foreign_P",
    "nullref_own_P",
    "nullref_foreign_P",
    "delete_own_P",
    "delete_foreign_P",
    "delref_own_P_own_edge",
    "delref_foreign_P_foreign_edge",
    "delref_foreign_P_own_edge",
    "sys_userauth_direct",
    "sys_right_direct",
    "sys_auth_direct",
    "sys_userauth_in_room",
    "delete_sys_room",
    "delete_sys_auth",
    "room_add_user_D",
    "room_rewrite_user_entry",
    "room_rewrite_user_entry_of_R2",
    "room_add_right_wildcard",
    "room_add_self_admin",
    // rows around the size limit (C12 only, on the initial definition): signed size = limit + offset
    "create_P_size_m144",
    "create_P_size_m96",
    "create_P_size_m48",
    "create_P_size_p0",
    "create_P_size_p48",
    "create_P_size_p96",
    "create_P_size_p144",
];
/// `max_object_size_in_kb` of the default configuration, in bytes
pub const SIZE_LIMIT: i64 = 256 * 1024;

pub struct Ctx<'a> {
    pub u: &'a Universe,
    pub r1: URoom,
    pub r2: &'a URoom,
    pub r3: &'a URoom,
    pub now: i64,
    pub fdate: i64,
    /// a second device that receives the same fixtures (C12: the honest peer holding the same definition)
    pub mirror: Option<usize>,
    /// fixtures planted by the last prepare_op
    pub last_fixtures: std::cell::RefCell<(Vec<discret::verif::database::node::Node>, Vec<discret::verif::database::edge::Edge>)>,
}

pub struct OpResult {
    pub accepted: bool,
    pub error: Option<String>,
    pub needs: Vec<Need>,
    /// never allowed whatever the rights
    pub forbidden: bool,
    pub is_room_op: Option<REvent>,
}

fn need(room: Rm, entity: &'static str, right: Right) -> Need {
    Need { room, entity, right }
}

fn pr(k: &str, v: String) -> (String, String) {
    (k.to_string(), v)
}

fn params(list: &[(String, String)]) -> Parameters {
    let mut p = Parameters::default();
    for (k, v) in list {
        p.add(k, v.clone()).unwrap();
    }
    p
}

impl<'a> Ctx<'a> {
    fn rid(&self, r: Rm) -> discret::verif::security::Uid {
        match r {
            Rm::R1 => self.r1.id,
            Rm::R2 => self.r2.id,
            Rm::R3 => self.r3.id,
        }
    }
    fn ro(&self, r: Rm) -> &RO {
        match r {
            Rm::R1 => &self.r1.ro,
            Rm::R2 => &self.r2.ro,
            Rm::R3 => &self.r3.ro,
        }
    }

    pub fn allowed(&self, caller: usize, needs: &[Need]) -> Option<Need> {
        for n in needs {
            if !self.ro(n.room).can(caller, n.entity, self.now, n.right) {
                return Some(n.clone());
            }
        }
        None
    }

    async fn plant_fix(
        &self,
        x: usize,
        nodes: Vec<discret::verif::database::node::Node>,
        edges: Vec<discret::verif::database::edge::Edge>,
    ) -> Result<(), String> {
        *self.last_fixtures.borrow_mut() = (nodes.clone(), edges.clone());
        if let Some(m) = self.mirror {
            self.u.plant(m, nodes.clone(), edges.clone()).await?;
        }
        self.u.plant(x, nodes, edges).await
    }

    /// plant the fixtures of `op` on x's device and build the request
    pub async fn prepare_op(&self, x: usize, op: &str) -> Result<Prepared, String> {
        let u = self.u;
        let f = if x == 0 { 1 } else { 0 }; // the "foreign" author
        let fd = self.fdate;
        let r1 = Some(self.r1.id);
        let r2 = Some(self.r2.id);
        let r3 = Some(self.r3.id);
        let mut needs = vec![];
        let mut forbidden = false;
        let mut is_room_op = None;
        let mut del = false;
        let (text, p): (String, Parameters) = match op {
            "create_P" => {
                needs.push(need(Rm::R1, "ns.P", Right::Own));
                ("mutate { ns.P { room_id:$r name:\"c\" } }".into(), params(&[pr("r", b64(&self.r1.id))]))
            }
            "create_Q" => {
                needs.push(need(Rm::R1, "ns.Q", Right::Own));
                ("mutate { ns.Q { room_id:$r name:\"c\" } }".into(), params(&[pr("r", b64(&self.r1.id))]))
            }
            "create_P_float_from_int_param" => {
                // a Float variable accepts an integer value and stores it as given
                needs.push(need(Rm::R1, "ns.P", Right::Own));
                let mut p = params(&[pr("r", b64(&self.r1.id))]);
                p.add("v", 70i64).unwrap();
                ("mutate { ns.P { room_id:$r name:\"c\" f:$v } }".into(), p)
            }
            "create_P_float_from_int_literal" => {
                needs.push(need(Rm::R1, "ns.P", Right::Own));
                ("mutate { ns.P { room_id:$r name:\"c\" f:70 n:-3 b:false } }".into(), params(&[pr("r", b64(&self.r1.id))]))
            }
            "create_P_typed_params" => {
                needs.push(need(Rm::R1, "ns.P", Right::Own));
                let mut p = params(&[pr("r", b64(&self.r1.id))]);
                p.add("n", 9007199254740993i64).unwrap();
                p.add("f", 2.5f64).unwrap();
                p.add("b", true).unwrap();
                ("mutate { ns.P { room_id:$r name:\"c\" n:$n f:$f b:$b } }".into(), p)
            }
            "create_P_nested_new_Q_inherit" => {
                needs.push(need(Rm::R1, "ns.P", Right::Own));
                needs.push(need(Rm::R1, "ns.Q", Right::Own));
                (
                    "mutate { ns.P { room_id:$r name:\"c\" q:{name:\"y\"} } }".into(),
                    params(&[pr("r", b64(&self.r1.id))]),
                )
            }
            "create_P_R2_nested_new_Q_R1" => {
                needs.push(need(Rm::R2, "ns.P", Right::Own));
                needs.push(need(Rm::R1, "ns.Q", Right::Own));
                (
                    "mutate { ns.P { room_id:$r2 name:\"c\" q:{room_id:$r1 name:\"y\"} } }".into(),
                    params(&[pr("r1", b64(&self.r1.id)), pr("r2", b64(&self.r2.id))]),
                )
            }
            "update_own_P" | "update_foreign_P" => {
                let own = op == "update_own_P";
                let n = u.make_p(r1, if own { x } else { f }, fd, "fix");
                self.plant_fix(x, vec![n.clone()], vec![]).await?;
                needs.push(need(Rm::R1, "ns.P", if own { Right::Own } else { Right::All }));
                ("mutate { ns.P { id:$id name:\"u\" } }".into(), params(&[pr("id", b64(&n.id))]))
            }
            "move_own_R1_R2" | "move_foreign_R1_R2" | "move_own_R2_R1" | "move_foreign_R2_R1"
            | "move_own_R3_R1" | "move_foreign_R3_R1" => {
                let own = op.contains("_own_");
                let (from, to) = if op.ends_with("R1_R2") {
                    (Rm::R1, Rm::R2)
                } else if op.ends_with("R2_R1") {
                    (Rm::R2, Rm::R1)
                } else {
                    (Rm::R3, Rm::R1)
                };
                let n = u.make_p(Some(self.rid(from)), if own { x } else { f }, fd, "fix");
                self.plant_fix(x, vec![n.clone()], vec![]).await?;
                let r = if own { Right::Own } else { Right::All };
                needs.push(need(from, "ns.P", r));
                needs.push(need(to, "ns.P", r));
                (
                    "mutate { ns.P { id:$id room_id:$to name:\"m\" } }".into(),
                    params(&[pr("id", b64(&n.id)), pr("to", b64(&self.rid(to)))]),
                )
            }
            "nested_update_foreign_Q_parent_unchanged"
            | "nested_update_own_Q_parent_unchanged"
            | "nested_update_foreign_Q_parent_changed" => {
                let own_q = op.contains("_own_Q");
                let parent = u.make_p(r2, x, fd, "parent");
                let q = u.make_q(r1, if own_q { x } else { f }, fd, "sub");
                let e = u.make_edge(&parent, &u.p_q, &q, x, fd);
                self.plant_fix(x, vec![parent.clone(), q.clone()], vec![e]).await?;
                needs.push(need(Rm::R1, "ns.Q", if own_q { Right::Own } else { Right::All }));
                if op.ends_with("parent_changed") {
                    needs.push(need(Rm::R2, "ns.P", Right::Own));
                    (
                        "mutate { ns.P { id:$p name:\"w\" q:{id:$q name:\"z\"} } }".into(),
                        params(&[pr("p", b64(&parent.id)), pr("q", b64(&q.id))]),
                    )
                } else {
                    (
                        "mutate { ns.P { id:$p q:{id:$q name:\"z\"} } }".into(),
                        params(&[pr("p", b64(&parent.id)), pr("q", b64(&q.id))]),
                    )
                }
            }
            "addref_own_P" | "addref_foreign_P" => {
                let own = op == "addref_own_P";
                let pn = u.make_p(r1, if own { x } else { f }, fd, "fix");
                let q = u.make_q(r1, x, fd, "sub");
                self.plant_fix(x, vec![pn.clone(), q.clone()], vec![]).await?;
                needs.push(need(Rm::R1, "ns.P", if own { Right::Own } else { Right::All }));
                (
                    "mutate { ns.P { id:$p qs:[{id:$q}] } }".into(),
                    params(&[pr("p", b64(&pn.id)), pr("q", b64(&q.id))]),
                )
            }
            "nullref_own_P" | "nullref_foreign_P" => {
                let own = op == "nullref_own_P";
                let a = if own { x } else { f };
                let pn = u.make_p(r1, a, fd, "fix");
                let q = u.make_q(r1, a, fd, "sub");
                let e = u.make_edge(&pn, &u.p_q, &q, a, fd);
                self.plant_fix(x, vec![pn.clone(), q.clone()], vec![e]).await?;
                needs.push(need(Rm::R1, "ns.P", if own { Right::Own } else { Right::All }));
                ("mutate { ns.P { id:$p q:null } }".into(), params(&[pr("p", b64(&pn.id))]))
            }
            "delete_own_P" | "delete_foreign_P" => {
                let own = op == "delete_own_P";
                let n = u.make_p(r1, if own { x } else { f }, fd, "fix");
                self.plant_fix(x, vec![n.clone()], vec![]).await?;
                needs.push(need(Rm::R1, "ns.P", if own { Right::Own } else { Right::All }));
                del = true;
                ("delete { ns.P { $id } }".into(), params(&[pr("id", b64(&n.id))]))
            }
            "delref_own_P_own_edge" | "delref_foreign_P_foreign_edge" | "delref_foreign_P_own_edge" => {
                let own_p = op.starts_with("delref_own_P");
                let own_e = op.ends_with("own_edge");
                let pn = u.make_p(r1, if own_p { x } else { f }, fd, "fix");
                let q = u.make_q(r1, if own_p { x } else { f }, fd, "sub");
                let e = u.make_edge(&pn, &u.p_qs, &q, if own_e { x } else { f }, fd);
                self.plant_fix(x, vec![pn.clone(), q.clone()], vec![e]).await?;
                // the source row is re-dated and re-signed by the caller: it is the row that changes
                needs.push(need(Rm::R1, "ns.P", if own_p { Right::Own } else { Right::All }));
                del = true;
                (
                    "delete { ns.P { $p qs[$q] } }".into(),
                    params(&[pr("p", b64(&pn.id)), pr("q", b64(&q.id))]),
                )
            }
            "sys_userauth_direct" => {
                forbidden = true;
                (
                    "mutate { sys.UserAuth { verif_key:$k } }".into(),
                    params(&[pr("k", b64(&u.keys[x]))]),
                )
            }
            "sys_right_direct" => {
                forbidden = true;
                (
                    "mutate { sys.EntityRight { entity:\"ns.P\" mutate_self:true mutate_all:true } }".into(),
                    Parameters::default(),
                )
            }
            "sys_auth_direct" => {
                forbidden = true;
                ("mutate { sys.Authorisation { name:\"x\" } }".into(), Parameters::default())
            }
            "sys_userauth_in_room" => {
                forbidden = true;
                (
                    "mutate { sys.UserAuth { room_id:$r verif_key:$k } }".into(),
                    params(&[pr("k", b64(&u.keys[x])), pr("r", b64(&self.r1.id))]),
                )
            }
            "delete_sys_room" => {
                forbidden = true;
                del = true;
                ("delete { sys.Room { $id } }".into(), params(&[pr("id", b64(&self.r1.id))]))
            }
            "delete_sys_auth" => {
                forbidden = true;
                del = true;
                (
                    "delete { sys.Authorisation { $id } }".into(),
                    params(&[pr("id", b64(&self.r1.groups[0]))]),
                )
            }
            "room_add_user_D" => {
                let ev = REvent::AddUser { group: 0, key: 3, enabled: true };
                let (t, p) = u.event_mutation(&self.r1, &ev);
                is_room_op = Some(ev);
                (t, p)
            }
            "room_rewrite_user_entry" | "room_rewrite_user_entry_of_R2" => {
                // entries of a definition are append only: naming the id of a stored user entry with another content is
                // refused whoever asks (an administrator included), in this room and all the more for an entry that
                // belongs to another room
                forbidden = true;
                let own = op == "room_rewrite_user_entry";
                let g = if own { self.r1.groups[0] } else { self.r2.groups[0] };
                let rows = u.peers[x]
                    .sql(&format!("SELECT dest FROM _edge WHERE src = x'{}' AND label = '34' ORDER BY cdate, dest LIMIT 1", hex::encode_upper(g)))
                    .await?;
                let uid: discret::verif::security::Uid = match rows.first().and_then(|r| r[0].blob()) {
                    Some(b) if b.len() == 16 => {
                        let mut id = [0u8; 16];
                        id.copy_from_slice(b);
                        id
                    }
                    _ => return Err(format!("{}: the group has no stored user entry on {}'s device", op, NAMES[x])),
                };
                (
                    "mutate { sys.Room { id:$room authorisations:[{ id:$g users:[{ id:$uid verif_key:$k enabled:true }] }] } }".into(),
                    params(&[pr("room", b64(&self.r1.id)), pr("g", b64(&self.r1.groups[0])), pr("uid", b64(&uid)), pr("k", b64(&u.keys[x]))]),
                )
            }
            "room_add_right_wildcard" => {
                let ev = REvent::AddRight { group: 0, entity: "*".into(), own: true, all: true };
                let (t, p) = u.event_mutation(&self.r1, &ev);
                is_room_op = Some(ev);
                (t, p)
            }
            "room_add_self_admin" => {
                let ev = REvent::AddAdmin { key: x, enabled: true };
                let (t, p) = u.event_mutation(&self.r1, &ev);
                is_room_op = Some(ev);
                (t, p)
            }
            size_op if size_op.starts_with("create_P_size_") => {
                needs.push(need(Rm::R1, "ns.P", Right::Own));
                let off: i64 = {
                    let t = &size_op["create_P_size_".len()..];
                    let n: i64 = t[1..].parse().map_err(|_| format!("bad size op {}", size_op))?;
                    if t.starts_with('m') { -n } else { n }
                };
                // every ASCII character of the name adds one byte to the signed, serialised row
                let base = bincode::serialized_size(&u.make_p(Some(self.r1.id), x, self.now, "")).map_err(|e| e.to_string())? as i64;
                let len = (SIZE_LIMIT + off - base).max(0) as usize;
                (
                    "mutate { ns.P { room_id:$r name:$n } }".into(),
                    params(&[pr("r", b64(&self.r1.id)), pr("n", "s".repeat(len))]),
                )
            }
            other => return Err(format!("unknown op {}", other)),
        };
        Ok(Prepared { text, params: p, del, needs, forbidden, is_room_op })
    }

    /// run the prepared operation as identity `x` on x's own device
    pub async fn exec_op(&self, x: usize, pre: Prepared) -> OpResult {
        let peer = &self.u.peers[x];
        set_clock(self.now);
        let r = if pre.del {
            peer.delete(&pre.text, Some(pre.params)).await
        } else {
            peer.mutate(&pre.text, Some(pre.params)).await.map(|_| ())
        };
        OpResult {
            accepted: r.is_ok(),
            error: r.err(),
            needs: pre.needs,
            forbidden: pre.forbidden,
            is_room_op: pre.is_room_op,
        }
    }
}

pub struct Prepared {
    pub text: String,
    pub params: Parameters,
    pub del: bool,
    pub needs: Vec<Need>,
    pub forbidden: bool,
    pub is_room_op: Option<REvent>,
}

fn role(ro: &RO, x: usize, t: i64) -> &'static str {
    if ro.is_admin(x, t) {
        "admin"
    } else if (0..ro.groups).any(|g| ro.is_user_admin(g, x, t)) {
        "useradmin"
    } else if ro.member(x, t) {
        "member"
    } else {
        "outsider"
    }
}

pub async fn explore_history(
    u: &Universe,
    r2: &URoom,
    r3: &URoom,
    h: &History,
    out: &mut Outcome,
    behind_clock: bool,
) -> Result<(), String> {
    let tpls = templates();
    let (tname, groups) = &tpls[h.template];
    let mut r1 = u.create_room(0, tick(0), groups).await?;
    let errs = u.spread_room(&r1, 0).await;
    for (i, e) in errs {
        out.notes.push(format!("initial import refused on {}: {}", NAMES[i], e));
    }
    let mut accepted_events = vec![];
    for (i, ev) in h.events.iter().enumerate() {
        let date = tick(4 * (i as i64 + 1)); // one event per day
        let acc = u.apply_event(&mut r1, ev, 0, date).await?;
        out.transitions += 1;
        accepted_events.push(acc);
        if acc {
            if !u_entitled_before(&r1, ev, 0, date) {
                out.violation(
                    format!("room-event-accepted-without-entitlement ev={}", ev_class(ev)),
                    format!("creator's event {:?} accepted although RO says not entitled", ev),
                    json!({"template": tname, "events": h.events}),
                );
            }
            for (pi, e) in u.spread_room(&r1, 0).await {
                out.count(&format!("import-refused:{}", short_err(&e)));
                out.notes.push(format!("import of an honest update refused on {}: {}", NAMES[pi], short_err(&e)));
            }
        }
    }
    let last = tick(4 * h.events.len() as i64);
    let mut clocks = vec![last + DAY / 4];
    if behind_clock && !h.events.is_empty() && h.events.len() <= 2 {
        clocks.push(last - DAY / 4); // caller's clock is behind the last definition change
    }
    out.state(&r1.ro.matrix(&[tick(1), tick(5), tick(9), tick(13)]));
    for now in clocks {
        let ctx = Ctx { u, r1: r1.clone(), r2, r3, now, fdate: tick(1) - 60_000, mirror: None, last_fixtures: Default::default() };
        for x in [3usize, 2, 1, 0] {
            for op in OPS {
                if x == 0 && op.starts_with("room_") {
                    continue; // creator's definition changes are the transitions themselves
                }
                if op.starts_with("create_P_size_") {
                    continue; // the size limit is the same on both paths: C12's subject
                }
                let peer = &u.peers[x];
                let pre = ctx.prepare_op(x, op).await?;
                let fp_before = fingerprint(peer).await?;
                let sys_before = sys_fingerprint(peer).await?;
                let r = ctx.exec_op(x, pre).await;
                let fp_after = fingerprint(peer).await?;
                out.evaluations += 1;
                out.transitions += 1;
                // a refused operation is covered by the change detector; only accepted ones need the scan
                let sys_after = if r.accepted { sys_fingerprint(peer).await? } else { sys_before.clone() };
                let caller_role = role(&ctx.r1.ro, x, now);
                let mut verdict = String::new();
                if let Some(ev) = &r.is_room_op {
                    let ent = ctx.r1.ro.entitled(ev, x, now);
                    verdict = format!("room:{}:{}", if r.accepted { "acc" } else { "ref" }, if ent { "ent" } else { "not" });
                    if r.accepted && !ent {
                        out.violation(
                            format!("room-update-accepted-without-entitlement op={} caller={}", op, caller_role),
                            format!("{} ({}) changed the room definition with {:?}", NAMES[x], caller_role, ev),
                            json!({"template": tname, "events": h.events, "caller": x, "op": op, "now": now}),
                        );
                    }
                } else {
                    let missing = if r.forbidden { None } else { ctx.allowed(x, &r.needs) };
                    let allowed = !r.forbidden && missing.is_none();
                    verdict = format!("{}:{}", if r.accepted { "acc" } else { "ref" }, if allowed { "allowed" } else { "denied" });
                    if r.accepted && !allowed {
                        let miss = match (&missing, r.forbidden) {
                            (_, true) => "authorisation-entity".to_string(),
                            (Some(n), _) => format!("{:?}:{}:{:?}", n.room, n.entity, n.right),
                            _ => "?".to_string(),
                        };
                        out.violation(
                            format!("accepted-without-right op={} missing={}", op, miss),
                            format!(
                                "{} ({} of R1) performed {} although the oracle denies {}",
                                NAMES[x], caller_role, op, miss
                            ),
                            json!({"template": tname, "events": h.events, "caller": x, "op": op, "now": now}),
                        );
                    }
                    if sys_before != sys_after {
                        out.violation(
                            format!("authorisation-rows-changed-outside-room-mutation op={}", op),
                            format!("{} changed authorisation rows", op),
                            json!({"template": tname, "events": h.events, "caller": x, "op": op, "now": now}),
                        );
                    }
                }
                if !r.accepted && fp_before != fp_after {
                    out.violation(
                        format!("refused-but-changed op={}", op),
                        format!("{} was refused ({:?}) but the database changed", op, r.error),
                        json!({"template": tname, "events": h.events, "caller": x, "op": op, "now": now}),
                    );
                }
                out.count(&verdict);
                if verdict == "ref:allowed" || verdict == "room:ref:ent" {
                    out.count(&format!("overstrict:{}:{}", op, short_err(r.error.as_deref().unwrap_or(""))));
                }
                out.nontrivial(&(op, caller_role, &verdict));
                if out.samples.len() < 6 && out.evaluations % 97 == 1 {
                    out.sample(json!({"template": tname, "events": h.events, "caller": NAMES[x], "op": op, "clock": now, "verdict": verdict}));
                }
            }
        }
    }
    Ok(())
}

fn short_err(e: &str) -> String {
    // error class without identifiers
    let cut = e.split('\'').next().unwrap_or("");
    cut.chars().take(48).collect()
}

fn ev_class(ev: &REvent) -> &'static str {
    match ev {
        REvent::AddAdmin { .. } => "admin",
        REvent::AddGroup => "group",
        REvent::AddUser { .. } => "user",
        REvent::AddUserAdmin { .. } => "useradmin",
        REvent::AddRight { .. } => "right",
        REvent::AddGroupWith { .. } => "group-with-entries",
    }
}

/// entitlement evaluated on the definition *before* the event was appended
fn u_entitled_before(room: &URoom, ev: &REvent, by: usize, date: i64) -> bool {
    let mut ro = room.ro.clone();
    ro.entries.pop();
    ro.entitled(ev, by, date)
}

/// re-run one recorded case and print what happens (no explorer involved)
fn replay(path: &str) -> i32 {
    let text = std::fs::read_to_string(path).expect("replay file");
    let v: serde_json::Value = serde_json::from_str(&text).expect("json");
    let r = &v["replay"];
    let tname = r["template"].as_str().unwrap().to_string();
    let ti = templates().iter().position(|t| t.0 == tname).unwrap();
    let events: Vec<REvent> = serde_json::from_value(r["events"].clone()).unwrap();
    let x = r["caller"].as_u64().unwrap() as usize;
    let op = r["op"].as_str().unwrap().to_string();
    let now = r["now"].as_i64().unwrap();
    let root = scratch_root();
    let _g = ScratchGuard(root.clone());
    let rt = runtime();
    let res: Result<(), String> = rt.block_on(async {
        for round in 0..2 {
            set_clock(tick(0));
            let u = Universe::start(&root).await?;
            let r2 = u.create_room(0, tick(0), &[(vec![("*", true, true)], vec![1, 2], vec![])]).await?;
            u.spread_room(&r2, 0).await;
            let r3 = u.create_room(0, tick(0), &[(vec![("*", true, true)], vec![], vec![])]).await?;
            u.spread_room(&r3, 0).await;
            let tpls = templates();
            let mut r1 = u.create_room(0, tick(0), &tpls[ti].1).await?;
            u.spread_room(&r1, 0).await;
            for (i, ev) in events.iter().enumerate() {
                let acc = u.apply_event(&mut r1, ev, 0, tick(4 * (i as i64 + 1))).await?;
                if acc {
                    u.spread_room(&r1, 0).await;
                }
            }
            let ctx = Ctx { u: &u, r1: r1.clone(), r2: &r2, r3: &r3, now, fdate: tick(1) - 60_000, mirror: None, last_fixtures: Default::default() };
            let pre = ctx.prepare_op(x, &op).await?;
            let needs = pre.needs.clone();
            let forbidden = pre.forbidden;
            let res = ctx.exec_op(x, pre).await;
            let missing = ctx.allowed(x, &needs);
            println!(
                "replay round {}: caller={} op={} accepted={} error={:?} oracle_missing={:?} forbidden={}",
                round, NAMES[x], op, res.accepted, res.error, missing.map(|n| format!("{:?}:{}:{:?}", n.room, n.entity, n.right)), forbidden
            );
        }
        Ok(())
    });
    if let Err(e) = res {
        eprintln!("machinery error: {}", e);
        return 2;
    }
    0
}

pub fn run(args: &Args) -> i32 {
    if let Some(p) = &args.replay {
        return replay(p);
    }
    let start = Instant::now();
    let hs = histories(args.tier);
    if let Some((i, n)) = args.shard {
        let root = scratch_root();
        let _g = ScratchGuard(root.clone());
        let mut out = Outcome::default();
        let mine: Vec<&History> = hs.iter().enumerate().filter(|(hi, _)| hi % n == i).map(|(_, h)| h).collect();
        let mut res: Result<(), String> = Ok(());
        // fresh instances every few histories keep the databases small (histories are room scoped);
        // one runtime per chunk: dropping it ends the instances' tasks and threads
        for chunk in mine.chunks(24) {
            let rt = runtime();
            let r: Result<(), String> = rt.block_on(async {
                set_clock(tick(0));
                let u = Universe::start(&root).await?;
                let r2 = u
                    .create_room(0, tick(0), &[(vec![("*", true, true)], vec![1, 2], vec![])])
                    .await?;
                u.spread_room(&r2, 0).await;
                let r3 = u.create_room(0, tick(0), &[(vec![("*", true, true)], vec![], vec![])]).await?;
                u.spread_room(&r3, 0).await;
                for h in chunk {
                    explore_history(&u, &r2, &r3, h, &mut out, args.tier == Tier::Thorough).await?;
                }
                Ok(())
            });
            drop(rt);
            if r.is_err() {
                res = r;
                break;
            }
        }
        if let Err(e) = res {
            out.machinery_errors.push(e);
        }
        out.notes.sort();
        out.notes.dedup();
        out.notes.truncate(10);
        emit_shard_outcome(&out);
        return 0;
    }
    let mut out = run_sharded(args, ncpu().min(16));
    // every evaluation ran on the real service: the full world is the implementation
    out.traces_validated = out.evaluations;
    let meta = CheckMeta {
        prop: "C01",
        level: "model_checking",
        rule: "E-STATE x E-SHAPE: every room-definition history (template x creator events up to the depth bound, real room-mutation path) x every caller A..D x every operation of the catalogue on freshly planted fixture rows; states = distinct oracle decision matrices; a case is non-trivial/distinct by (operation, caller role, verdict x oracle verdict)".into(),
        bounds: json!({"templates": templates().len(), "histories": hs.len(), "ops": OPS.len(), "callers": 4, "depth": args.tier.pick(2, 3)}),
        assumptions: vec![
            "rights oracle RO written from the documentation is the reference".into(),
            "dates are harness-owned through the clock hook; one definition event per day".into(),
            "fixture rows are planted unchecked, signed with the author's real key".into(),
        ],
        exhaustive_claim: true,
    };
    finish(args, &meta, &out, start)
}
