//! C05 — query results equal a direct evaluation of the query over the data.
//!
//! E-SHAPE over (model, data set, query): a fixed family of data models, ALL small data sets over the
//! value domains of the fields a clause family touches, queries generated clause family by clause
//! family from the real grammar. Every query goes through the real QueryParser, PreparedQueries and
//! Query::read on a light world connection; the JSON is compared structurally with the reference
//! evaluator QE (c05_qe.rs). Ordered queries are additionally walked page by page (first/after) and
//! split around every row (before/after).
use crate::c05_qe::*;
use crate::common::*;
use crate::light::{new_conn, new_model, signing_key_for, LPeer};
use crate::world::{set_clock, T0};
use discret::verif::database::authorisation_service::RoomAuthorisations;
use discret::verif::database::query::{PreparedQueries, Query};
use discret::verif::database::query_language::data_model_parser::DataModel;
use discret::verif::database::query_language::parameter::{Parameters, ParametersAdd};
use discret::verif::database::query_language::query_parser::QueryParser;
use serde::{Deserialize, Serialize};
use serde_json::{json, Value};
use std::collections::HashMap;
use std::sync::Arc;
use std::time::Instant;

// ---------------------------------------------------------------------------------------------
// models
// ---------------------------------------------------------------------------------------------
fn fd(name: &'static str, kind: K, nullable: bool, default: Option<V>, since: usize) -> FDef {
    let (v1, v2, vm) = match kind {
        // 2 / 10: numeric order and text order disagree
        K::Int => (V::I(2), V::I(10), Some(V::I(5))),
        K::Float => (V::F(2.5), V::F(10.5), Some(V::F(5.5))),
        K::Str => (V::S("a".into()), V::S("b".into()), Some(V::S("aa".into()))),
        K::Bool => (V::B(true), V::B(false), None),
        K::B64 => (V::S("AQ".into()), V::S("Ag".into()), Some(V::S("AQE".into()))),
        K::Json => (
            V::J(json!({"val":"a","n":2,"arr":[1,{"k":"z"}]})),
            V::J(json!([1, 2, 3])),
            None,
        ),
    };
    FDef { name, kind, nullable, default, since, v1, v2, vm }
}

pub const NAME: usize = 0;

fn models() -> Vec<MDef> {
    let ma = MDef {
        id: "MA-scalars",
        nver: 2,
        ents: vec![EDef {
            name: "ns.P",
            fields: vec![
                fd("name", K::Str, false, None, 0),
                fd("i", K::Int, true, None, 0),
                fd("f", K::Float, true, None, 0),
                fd("s", K::Str, true, None, 0),
                fd("b", K::Bool, true, None, 0),
                fd("di", K::Int, false, Some(V::I(2)), 1),
                fd("df", K::Float, false, Some(V::F(2.5)), 1),
                fd("ds", K::Str, false, Some(V::S("a".into())), 1),
                fd("db", K::Bool, false, Some(V::B(true)), 1),
            ],
            refs: vec![],
        }],
    };
    let mb = MDef {
        id: "MB-references",
        nver: 1,
        ents: vec![
            EDef {
                name: "ns.P",
                fields: vec![fd("name", K::Str, false, None, 0), fd("n", K::Int, true, None, 0)],
                refs: vec![
                    RDef { name: "q", target: 1, array: false, nullable: false },
                    RDef { name: "qn", target: 1, array: false, nullable: true },
                    RDef { name: "qs", target: 1, array: true, nullable: false },
                    RDef { name: "qsn", target: 1, array: true, nullable: true },
                    RDef { name: "slf", target: 0, array: false, nullable: true },
                ],
            },
            EDef {
                name: "ns.Q",
                fields: vec![fd("name", K::Str, false, None, 0), fd("n", K::Int, true, None, 0)],
                refs: vec![RDef { name: "r", target: 2, array: false, nullable: true }],
            },
            EDef { name: "other.R", fields: vec![fd("name", K::Str, false, None, 0)], refs: vec![] },
        ],
    };
    let mc = MDef {
        id: "MC-json",
        nver: 2,
        ents: vec![EDef {
            name: "J",
            fields: vec![
                fd("name", K::Str, false, None, 0),
                fd("data", K::Json, true, None, 0),
                fd("dd", K::Json, false, Some(V::J(json!([1, 2]))), 1),
            ],
            refs: vec![],
        }],
    };
    let mut md_bd = fd("bd", K::B64, false, Some(V::S("AQ".into())), 1);
    md_bd.v1 = V::S("AQ".into());
    let md = MDef {
        id: "MD-required-base64",
        nver: 2,
        ents: vec![EDef {
            name: "T",
            fields: vec![
                fd("name", K::Str, false, None, 0),
                fd("k", K::Int, false, None, 0),
                fd("bin", K::B64, true, None, 0),
                md_bd,
            ],
            refs: vec![],
        }],
    };
    vec![ma, mb, mc, md]
}

/// field class without the scalar type (ordering / paging families)
fn oclass(f: &FDef) -> String {
    if f.default.is_some() {
        "default-field".into()
    } else if f.nullable {
        "nullable-field".into()
    } else {
        "required-field".into()
    }
}

fn fclass(f: &FDef) -> String {
    let a = if f.default.is_some() {
        "default"
    } else if f.nullable {
        "nullable"
    } else {
        "required"
    };
    format!("{}-{:?}", a, f.kind).to_lowercase()
}

// ---------------------------------------------------------------------------------------------
// data sets
// ---------------------------------------------------------------------------------------------
fn domain(f: &FDef, with_null: bool) -> Vec<Cell> {
    if f.default.is_some() {
        vec![Cell::Absent, Cell::Val(f.v1.clone()), Cell::Val(f.v2.clone())]
    } else if f.nullable {
        let mut d = vec![Cell::Absent];
        // writing null to a Json field panics in the mutation path (reported by C14): not generated here
        if with_null && f.kind != K::Json {
            d.push(Cell::Null);
        }
        d.push(Cell::Val(f.v1.clone()));
        d.push(Cell::Val(f.v2.clone()));
        d
    } else {
        vec![Cell::Val(f.v1.clone()), Cell::Val(f.v2.clone())]
    }
}

/// all data sets of <= max_rows rows of entity `ent` over the domains of the varied fields
/// (sequences when `seq`, multisets otherwise); every other field holds a fixed value
fn gen_datasets(m: &MDef, ent: usize, vary: &[usize], max_rows: usize, with_null: bool, seq: bool) -> Vec<DataSet> {
    let e = &m.ents[ent];
    // row values = product of the domains, minus the combinations no history can produce
    let mut rvs: Vec<Vec<Cell>> = vec![vec![]];
    for f in vary {
        let mut next = vec![];
        for rv in &rvs {
            for c in domain(&e.fields[*f], with_null) {
                let mut x = rv.clone();
                x.push(c);
                next.push(x);
            }
        }
        rvs = next;
    }
    let rvs: Vec<(usize, Vec<Cell>)> = rvs
        .into_iter()
        .filter_map(|rv| {
            let mut absent = false;
            let mut present = false;
            for (p, f) in vary.iter().enumerate() {
                if e.fields[*f].default.is_some() {
                    if rv[p] == Cell::Absent {
                        absent = true
                    } else {
                        present = true
                    }
                }
            }
            if absent && present {
                None // a row is created under one model version
            } else {
                Some((if absent { 0 } else { m.nver - 1 }, rv))
            }
        })
        .collect();
    let mut out = vec![];
    let mut idx: Vec<usize> = vec![];
    fn rec(
        n: usize,
        max: usize,
        seq: bool,
        idx: &mut Vec<usize>,
        rvs: &Vec<(usize, Vec<Cell>)>,
        out: &mut Vec<Vec<usize>>,
        len: usize,
    ) {
        if idx.len() == len {
            out.push(idx.clone());
            return;
        }
        let start = if seq { 0 } else { idx.last().copied().unwrap_or(0) };
        for i in start..n {
            idx.push(i);
            rec(n, max, seq, idx, rvs, out, len);
            idx.pop();
        }
    }
    let mut tuples = vec![];
    for len in 0..=max_rows {
        rec(rvs.len(), max_rows, seq, &mut idx, &rvs, &mut tuples, len);
    }
    for t in tuples {
        let mut rows = vec![];
        for (ri, vi) in t.iter().enumerate() {
            let (ver, rv) = &rvs[*vi];
            let cells: Vec<Cell> = e
                .fields
                .iter()
                .enumerate()
                .map(|(fi, f)| {
                    if let Some(p) = vary.iter().position(|x| *x == fi) {
                        rv[p].clone()
                    } else if f.name == "name" {
                        Cell::Val(V::S(format!("r{}", ri)))
                    } else if f.default.is_some() {
                        if *ver < f.since {
                            Cell::Absent
                        } else {
                            Cell::Val(f.default.clone().unwrap())
                        }
                    } else if f.nullable {
                        Cell::Absent
                    } else {
                        Cell::Val(f.v1.clone())
                    }
                })
                .collect();
            rows.push(DRow { ent, ver: *ver, cells, refs: vec![vec![]; e.refs.len()], tick: (ri / 2) as i64 });
        }
        // rows of the old model version are inserted first: keep data set order = insertion order
        rows.sort_by_key(|r| r.ver);
        for (ri, r) in rows.iter_mut().enumerate() {
            r.tick = (ri / 2) as i64;
            if !vary.contains(&NAME) {
                r.cells[NAME] = Cell::Val(V::S(format!("r{}", ri)));
            }
        }
        out.push(DataSet { rows });
    }
    out
}

// ---------------------------------------------------------------------------------------------
// loading a data set through the real mutation pipeline
// ---------------------------------------------------------------------------------------------
pub struct Loaded {
    pub peer: LPeer,
    pub lrows: Vec<LRow>,
    /// when set, queries go through the service API of a full world peer holding the same data
    pub svc: Option<crate::world::FPeer>,
}

/// the mutation that creates data set row `ri` (targets of its references are already inserted)
fn row_mutation(m: &MDef, row: &DRow, ri: usize, lrows: &[LRow]) -> Result<(String, Parameters), String> {
    let e = &m.ents[row.ent];
    let mut text = format!("mutate {{ {} {{ ", e.name);
    let mut params = Parameters::new();
    for (fi, c) in row.cells.iter().enumerate() {
        let f = &e.fields[fi];
        let pn = format!("f{}", fi);
        match c {
            Cell::Absent => continue,
            Cell::Null => params.add_null(&pn).map_err(|e| e.to_string())?,
            Cell::Val(v) => match v {
                V::I(i) => params.add(&pn, *i).map_err(|e| e.to_string())?,
                V::F(x) => params.add(&pn, *x).map_err(|e| e.to_string())?,
                V::S(s) => params.add(&pn, s.clone()).map_err(|e| e.to_string())?,
                V::B(b) => params.add(&pn, *b).map_err(|e| e.to_string())?,
                V::J(j) => params.add(&pn, j.to_string()).map_err(|e| e.to_string())?,
                _ => return Err("bad cell".into()),
            },
        }
        text.push_str(&format!("{}: ${} ", f.name, pn));
    }
    for (rfi, targets) in row.refs.iter().enumerate() {
        if targets.is_empty() {
            continue;
        }
        let rd = &e.refs[rfi];
        let mut parts = vec![];
        for (k, t) in targets.iter().enumerate() {
            if *t >= ri {
                return Err("reference to a later row".into());
            }
            let pn = format!("r{}_{}", rfi, k);
            params.add(&pn, lrows[*t].id_b64.clone()).map_err(|e| e.to_string())?;
            parts.push(format!("{{id: ${}}}", pn));
        }
        if rd.array {
            text.push_str(&format!("{}: [{}] ", rd.name, parts.join(", ")));
        } else {
            text.push_str(&format!("{}: {} ", rd.name, parts[0]));
        }
    }
    text.push_str("} }");
    Ok((text, params))
}

struct Env {
    models: Vec<MDef>,
    /// per model: the DataModel of every version, derived once per process (short names stay aligned
    /// with the cached parsed queries)
    dms: Vec<Vec<DataModel>>,
    cache: HashMap<(usize, String), Result<(Arc<QueryParser>, Arc<PreparedQueries>), String>>,
    reads: u64,
    /// (model, serialised query) of every generated single query case: a refusal is attributed to a
    /// simpler query only when that simpler query is itself a generated case (so nothing is lost)
    known: std::collections::HashSet<(usize, String)>,
    rt: tokio::runtime::Runtime,
    root: std::path::PathBuf,
}

impl Env {
    fn new() -> Result<Env, String> {
        let models = models();
        let mut dms = vec![];
        for m in &models {
            let mut v = vec![];
            let mut dm = new_model(&m.text(0)).map_err(|e| format!("model {} v0: {}", m.id, e))?;
            v.push(dm.clone());
            for ver in 1..m.nver {
                dm.update(&m.text(ver)).map_err(|e| format!("model {} v{}: {}\n{}", m.id, ver, e, m.text(ver)))?;
                v.push(dm.clone());
            }
            dms.push(v);
        }
        Ok(Env {
            models,
            dms,
            cache: HashMap::new(),
            reads: 0,
            known: Default::default(),
            rt: crate::world::runtime(),
            root: scratch_root(),
        })
    }

    fn load(&self, mi: usize, ds: &DataSet, ns: u64) -> Result<Loaded, String> {
        let m = &self.models[mi];
        discret::verif_hooks::set_uid_namespace(ns.max(1));
        let mut peer = LPeer {
            conn: new_conn(),
            auth: RoomAuthorisations {
                signing_key: signing_key_for(1),
                rooms: HashMap::new(),
                max_node_size: 256 * 1024,
            },
            model: self.dms[mi][0].clone(),
            seed: 1,
        };
        let mut lrows: Vec<LRow> = vec![];
        for (ri, row) in ds.rows.iter().enumerate() {
            peer.model = self.dms[mi][row.ver].clone();
            let (text, params) = row_mutation(m, row, ri, &lrows)?;
            let date = T0 + row.tick;
            set_clock(date);
            let q = peer.mutate(&text, params).map_err(|e| format!("load row {} ({}): {}", ri, text, e))?;
            let id = q.mutate_entities[0].node_to_mutate.id;
            lrows.push(LRow { id: id.to_vec(), id_b64: crate::world::b64(&id), date });
        }
        peer.model = self.dms[mi][m.nver - 1].clone();
        Ok(Loaded { peer, lrows, svc: None })
    }

    /// the same data set in a full world peer: real GraphDatabaseService on a scratch folder, rows
    /// inserted with the service's mutate, model versions applied with update_data_model
    fn load_service(&self, mi: usize, ds: &DataSet, ns: u64) -> Result<Loaded, String> {
        let m = &self.models[mi];
        let mut ld = self.load(mi, &DataSet::default(), ns)?;
        discret::verif_hooks::set_uid_namespace(ns.max(1));
        let res: Result<(crate::world::FPeer, Vec<LRow>), String> = self.rt.block_on(async {
            set_clock(T0);
            let fp = crate::world::FPeer::start("c05", 1, &m.text(0), &self.root).await?;
            let mut ver = 0;
            let mut lrows: Vec<LRow> = vec![];
            for (ri, row) in ds.rows.iter().enumerate() {
                while ver < row.ver {
                    ver += 1;
                    fp.db.update_data_model(&m.text(ver)).await.map_err(|e| format!("model update: {}", e))?;
                }
                let (text, params) = row_mutation(m, row, ri, &lrows)?;
                let date = T0 + row.tick;
                set_clock(date);
                let out = fp.mutate(&text, Some(params)).await.map_err(|e| format!("service mutate {}: {}", text, e))?;
                let v: Value = serde_json::from_str(&out).map_err(|e| e.to_string())?;
                let id_b64 = v
                    .get(m.ents[row.ent].name)
                    .and_then(|o| o.get("id"))
                    .and_then(|i| i.as_str())
                    .ok_or(format!("no id in mutation result {}", out))?
                    .to_string();
                let id = crate::world::uid_from_b64(&id_b64).to_vec();
                lrows.push(LRow { id, id_b64, date });
            }
            while ver < m.nver - 1 {
                ver += 1;
                fp.db.update_data_model(&m.text(ver)).await.map_err(|e| format!("model update: {}", e))?;
            }
            fp.barrier().await;
            Ok((fp, lrows))
        });
        let (fp, lrows) = res?;
        ld.lrows = lrows;
        ld.svc = Some(fp);
        Ok(ld)
    }

    /// one real query: parser + prepared queries (cached per text) + Query::read
    fn exec(&mut self, mi: usize, ld: &Loaded, r: &Rendered) -> Result<Value, String> {
        if let Some(fp) = &ld.svc {
            let mut params = Parameters::new();
            for (n, v) in &r.params {
                match v {
                    PV::I(i) => params.add(n, *i),
                    PV::F(f) => params.add(n, *f),
                    PV::S(s) => params.add(n, s.clone()),
                    PV::B(b) => params.add(n, *b),
                    PV::Null => params.add_null(n),
                }
                .map_err(|e| format!("param: {}", e))?;
            }
            self.reads += 1;
            let s = self.rt.block_on(fp.query(&r.text, Some(params))).map_err(|e| format!("read: {}", e))?;
            return serde_json::from_str(&s).map_err(|e| format!("result is not JSON: {} in {}", e, s));
        }
        let key = (mi, r.text.clone());
        if !self.cache.contains_key(&key) {
            let res = match QueryParser::parse(&r.text, &ld.peer.model) {
                Err(e) => Err(format!("parse: {}", e)),
                Ok(p) => match PreparedQueries::build(&p) {
                    Err(e) => Err(format!("prepare: {}", e)),
                    Ok(pq) => Ok((Arc::new(p), Arc::new(pq))),
                },
            };
            self.cache.insert(key.clone(), res);
        }
        let (parser, prepared) = match self.cache.get(&key).unwrap() {
            Ok((a, b)) => (a.clone(), b.clone()),
            Err(e) => return Err(e.clone()),
        };
        let mut params = Parameters::new();
        for (n, v) in &r.params {
            match v {
                PV::I(i) => params.add(n, *i),
                PV::F(f) => params.add(n, *f),
                PV::S(s) => params.add(n, s.clone()),
                PV::B(b) => params.add(n, *b),
                PV::Null => params.add_null(n),
            }
            .map_err(|e| format!("param: {}", e))?;
        }
        let mut q = Query { parameters: params, parser, sql_queries: prepared };
        self.reads += 1;
        let s = q.read(&ld.peer.conn).map_err(|e| format!("read: {}", e))?;
        serde_json::from_str(&s).map_err(|e| format!("result is not JSON: {} in {}", e, s))
    }
}

// ---------------------------------------------------------------------------------------------
// cases
// ---------------------------------------------------------------------------------------------
#[derive(Clone, Debug, Serialize, Deserialize)]
pub enum Case {
    /// one entity query against QE
    Q { q: EQ },
    /// two entity queries in one query text, each against QE
    Q2 { a: EQ, b: EQ },
    /// two forms of one query (literal / parameter) that must return the same
    Same { a: EQ, b: EQ },
    /// first/after walk with page size k: concatenation == unpaged result
    Walk { q: EQ, k: usize },
    /// around every row of the unpaged result: before(row) ++ [row] ++ after(row) == unpaged result
    Split { q: EQ, k: usize },
}

#[derive(Clone, Debug)]
struct CaseDef {
    class: String,
    case: Case,
}

struct Verdict {
    /// None = satisfied
    symptom: Option<String>,
    /// coarse description of what happened (histogram / distinct outcome)
    shape: String,
    detail: String,
    /// extra class information learnt at run time (e.g. nulls among the keys)
    class_suffix: String,
}

fn ok(shape: impl Into<String>) -> Verdict {
    Verdict { symptom: None, shape: shape.into(), detail: String::new(), class_suffix: String::new() }
}
fn bad(symptom: impl Into<String>, detail: String) -> Verdict {
    let s: String = symptom.into();
    Verdict { shape: format!("viol:{}", s), symptom: Some(s), detail, class_suffix: String::new() }
}

fn error_class(e: &str) -> String {
    let l = e.to_lowercase();
    let c = if l.contains("syntax error") {
        "sql syntax error"
    } else if l.contains("misuse of aggregate") {
        "sql misuse of aggregate"
    } else if l.contains("is not nullable") {
        "null refused"
    } else if l.contains("no such column") {
        "sql no such column"
    } else if l.starts_with("parse:") {
        "query refused by parser"
    } else if l.contains("malformed json") {
        "sql malformed json"
    } else {
        "other"
    };
    format!("engine error ({})", c)
}

fn shape_of(n_ret: usize, n_rows: usize) -> String {
    if n_rows == 0 {
        "ok:no-data".into()
    } else if n_ret == 0 {
        "ok:none".into()
    } else if n_ret >= n_rows {
        "ok:all".into()
    } else {
        "ok:some".into()
    }
}

fn check_q(env: &mut Env, mi: usize, ds: &DataSet, ld: &Loaded, qs: &[&EQ]) -> Verdict {
    let r = render(&env.models[mi], &ld.lrows, qs);
    let res = match env.exec(mi, ld, &r) {
        Ok(v) => v,
        Err(e) => {
            if qs.iter().any(|q| simpler_refused(env, mi, ds, ld, q)) {
                return ok("n/a:simpler-query-refused");
            }
            return bad(error_class(&e), format!("{} -> {}", r.text, e));
        }
    };
    let m = env.models[mi].clone();
    let w = World { m: &m, ds, lrows: &ld.lrows };
    let mut shape = String::new();
    for q in qs {
        let name = result_name(&m, q);
        let arr = match res.get(&name).and_then(|a| a.as_array()) {
            Some(a) => a.clone(),
            None => return bad("wrong value", format!("{} -> no array '{}' in {}", r.text, name, res)),
        };
        let cands = w.rows_of(q.ent);
        let alts = eval_rows(&w, q, &cands, false);
        let good = POLS.iter().any(|p| alts.iter().any(|ls| match_list(ls, &arr, *p)));
        if !good {
            let sym = diagnose(&alts, &arr);
            // a refusal is attributed to the simplest query that shows it: when the same selection
            // without the clauses, or one of its fields alone, is already refused, the clause under
            // test cannot be judged here and the simpler case (generated by its own family) reports it
            if simpler_refused(env, mi, ds, ld, q) {
                return ok("n/a:simpler-query-refused");
            }
            return bad(sym, format!("{} params {:?} -> {}", r.text, r.params, Value::Array(arr)));
        }
        shape = shape_of(arr.len(), cands.len());
    }
    ok(shape)
}

fn has_clause(q: &EQ) -> bool {
    !q.filters.is_empty()
        || !q.jfilters.is_empty()
        || !q.order.is_empty()
        || q.first.is_some()
        || q.skip.is_some()
        || !q.after.is_empty()
        || !q.before.is_empty()
}

/// strictly simpler queries over the same selection: no clause; each selected field alone
/// (aggregates: group fields + one function; group fields + count())
fn simplifications(m: &MDef, q: &EQ) -> Vec<EQ> {
    let mut out = vec![];
    let base = stripped(q);
    if has_clause(q) {
        out.push(base.clone());
    }
    let is_agg = q.fields.iter().any(|f| matches!(f, QF::Agg { .. }));
    let keep_nullable = |s: &mut EQ| {
        let names: Vec<String> = s.fields.iter().map(|f| f.out_name(m, s.ent)).collect();
        s.nullable.retain(|n| names.contains(n));
    };
    if is_agg {
        let groups: Vec<QF> = base.fields.iter().filter(|f| !matches!(f, QF::Agg { .. })).cloned().collect();
        let aggs: Vec<QF> = base.fields.iter().filter(|f| matches!(f, QF::Agg { .. })).cloned().collect();
        let only_count = aggs.len() == 1 && matches!(aggs[0], QF::Agg { func: Func::Count, .. });
        if !only_count {
            let mut s = base.clone();
            s.fields = groups.clone();
            s.fields.push(QF::Agg { alias: "c".into(), func: Func::Count, f: None });
            out.push(s);
        }
        if aggs.len() > 1 {
            for a in aggs {
                let mut s = base.clone();
                s.fields = groups.clone();
                s.fields.push(a);
                out.push(s);
            }
        }
    } else if base.fields.len() > 1 {
        for f in &base.fields {
            let mut s = base.clone();
            s.fields = vec![f.clone()];
            keep_nullable(&mut s);
            out.push(s);
            // and without its alias
            if let QF::Fld { f, alias: Some(_) } = f {
                let mut s = base.clone();
                s.fields = vec![fld(*f)];
                keep_nullable(&mut s);
                out.push(s);
            }
        }
    }
    out
}

fn simpler_refused(env: &mut Env, mi: usize, ds: &DataSet, ld: &Loaded, q: &EQ) -> bool {
    let m = env.models[mi].clone();
    let debug = std::env::var("C05_DEBUG").is_ok();
    for s in simplifications(&m, q) {
        if !env.known.contains(&(mi, serde_json::to_string(&s).unwrap())) {
            continue;
        }
        let refused = match run_arr(env, mi, ld, &s) {
            Err(_) => true,
            Ok(arr) => !accepted(env, mi, ds, ld, &s, &arr),
        };
        if refused {
            if debug {
                println!("attributed to simpler query: {}", render(&m, &ld.lrows, &[&s]).text.replace('\n', " "));
            }
            return true;
        }
    }
    false
}

/// does QE accept `arr` as the result of q
fn accepted(env: &Env, mi: usize, ds: &DataSet, ld: &Loaded, q: &EQ, arr: &[Value]) -> bool {
    let m = &env.models[mi];
    let w = World { m, ds, lrows: &ld.lrows };
    let alts = eval_rows(&w, q, &w.rows_of(q.ent), false);
    POLS.iter().any(|p| alts.iter().any(|ls| match_list(ls, arr, *p)))
}

/// the query without any clause: only what is selected (nullable() kept: it is part of the selection)
fn stripped(q: &EQ) -> EQ {
    let mut s = q.clone();
    s.filters.clear();
    s.jfilters.clear();
    s.order.clear();
    s.first = None;
    s.skip = None;
    s.after.clear();
    s.before.clear();
    s
}

/// name under which the value of an order key appears in the result objects
fn out_name_for_key(m: &MDef, q: &EQ, name: &str) -> Option<String> {
    for f in &q.fields {
        if f.out_name(m, q.ent) == name {
            return Some(name.to_string());
        }
    }
    for f in &q.fields {
        match f {
            QF::Fld { f: fi, alias: Some(a) } if m.ents[q.ent].fields[*fi].name == name => return Some(a.clone()),
            QF::Sys { name: n, alias: Some(a) } if n == name => return Some(a.clone()),
            _ => {}
        }
    }
    None
}

fn cursor_of(m: &MDef, q: &EQ, row: &Value) -> Vec<Operand> {
    q.order
        .iter()
        .map(|(n, _)| {
            let on = out_name_for_key(m, q, n).expect("walk queries select their order keys");
            match row.get(&on) {
                Some(Value::Number(x)) => {
                    if let Some(i) = x.as_i64() {
                        Operand::Var(V::I(i))
                    } else {
                        Operand::Var(V::F(x.as_f64().unwrap()))
                    }
                }
                Some(Value::String(s)) => Operand::Var(V::S(s.clone())),
                Some(Value::Bool(b)) => Operand::Var(V::B(*b)),
                _ => Operand::NullVar,
            }
        })
        .collect()
}

fn run_arr(env: &mut Env, mi: usize, ld: &Loaded, q: &EQ) -> Result<Vec<Value>, String> {
    let r = render(&env.models[mi], &ld.lrows, &[q]);
    let res = env.exec(mi, ld, &r).map_err(|e| format!("{} -> {}", r.text, e))?;
    let name = result_name(&env.models[mi], q);
    res.get(&name).and_then(|a| a.as_array()).cloned().ok_or(format!("no array {}", name))
}

fn seq_symptom(expected: &[Value], actual: &[Value]) -> Option<&'static str> {
    if expected.len() == actual.len() && expected.iter().zip(actual).all(|(a, b)| json_eq(a, b)) {
        return None;
    }
    let mut dup = false;
    for (i, a) in actual.iter().enumerate() {
        if actual[0..i].iter().any(|b| json_eq(a, b)) {
            dup = true;
        }
    }
    if dup {
        return Some("page overlap");
    }
    if actual.iter().any(|a| !expected.iter().any(|e| json_eq(a, e))) {
        return Some("page overlap");
    }
    if expected.iter().any(|e| !actual.iter().any(|a| json_eq(a, e))) {
        return Some("page gap");
    }
    Some("wrong order")
}

/// applicability of walk/split: all matching rows fixed, order key tuples pairwise distinct
fn walk_precondition(env: &Env, mi: usize, ds: &DataSet, ld: &Loaded, q: &EQ) -> Result<bool, &'static str> {
    let m = &env.models[mi];
    let w = World { m, ds, lrows: &ld.lrows };
    let alts = eval_rows(&w, q, &w.rows_of(q.ent), false);
    if alts.len() != 1 {
        return Err("n/a:alternatives");
    }
    let items: Vec<&Item> = alts[0].items.iter().filter(|i| i.must != Tri::False).collect();
    if items.iter().any(|i| i.must == Tri::Opt) {
        return Err("n/a:unfixed-match");
    }
    for a in 0..items.len() {
        for b in 0..a {
            if cmp_keys(&items[a].keys, &items[b].keys, &alts[0].dirs, POLS[0]) != Some(std::cmp::Ordering::Less)
                && cmp_keys(&items[a].keys, &items[b].keys, &alts[0].dirs, POLS[0]) != Some(std::cmp::Ordering::Greater) {
                return Err("n/a:ties");
            }
        }
    }
    Ok(items.iter().any(|i| i.keys.iter().any(|k| k.is_none())))
}

fn check_walk(env: &mut Env, mi: usize, ds: &DataSet, ld: &Loaded, q: &EQ, k: usize) -> Verdict {
    let nulls = match walk_precondition(env, mi, ds, ld, q) {
        Ok(n) => n,
        Err(why) => return ok(why),
    };
    let suffix = if nulls { "null-keys" } else { "no-null-keys" };
    let m = env.models[mi].clone();
    let unpaged = match run_arr(env, mi, ld, q) {
        Ok(a) => a,
        Err(e) => return ok(format!("n/a:unpaged-error:{}", error_class(&e))),
    };
    if !accepted(env, mi, ds, ld, q, &unpaged) {
        // the unpaged result itself is refused: reported by the order / select families
        return ok("n/a:unpaged-refused");
    }
    let mut concat: Vec<Value> = vec![];
    let mut cursor: Option<Vec<Operand>> = None;
    let mut trace = String::new();
    let limit = unpaged.len() + 3;
    let mut v = None;
    for step in 0..=limit {
        if step == limit {
            v = Some(bad("page overlap", format!("walk does not terminate: {}", trace)));
            break;
        }
        let mut qq = q.clone();
        qq.first = Some(Lim { n: k, var: false });
        if let Some(c) = &cursor {
            qq.after = c.clone();
        }
        let page = match run_arr(env, mi, ld, &qq) {
            Ok(p) => p,
            Err(e) => {
                let null_cursor = cursor.as_ref().map(|c| c.iter().any(|o| *o == Operand::NullVar)).unwrap_or(false);
                let sym = if null_cursor {
                    "null cursor refused".to_string()
                } else {
                    error_class(&e)
                };
                v = Some(bad(sym, format!("{} | {}", trace, e)));
                break;
            }
        };
        trace.push_str(&format!("page{}={} ", step, Value::Array(page.clone())));
        if page.is_empty() {
            break;
        }
        cursor = Some(cursor_of(&m, q, page.last().unwrap()));
        concat.extend(page);
    }
    let mut v = match v {
        Some(v) => v,
        None => match seq_symptom(&unpaged, &concat) {
            None => ok(format!("ok:walk:{}rows", unpaged.len().min(3))),
            Some(s) => bad(s, format!("unpaged={} walk: {}", Value::Array(unpaged.clone()), trace)),
        },
    };
    v.class_suffix = suffix.to_string();
    v
}

fn check_split(env: &mut Env, mi: usize, ds: &DataSet, ld: &Loaded, q: &EQ, k: usize) -> Verdict {
    let nulls = match walk_precondition(env, mi, ds, ld, q) {
        Ok(n) => n,
        Err(why) => return ok(why),
    };
    let suffix = if nulls { "null-keys" } else { "no-null-keys" };
    let m = env.models[mi].clone();
    let unpaged = match run_arr(env, mi, ld, q) {
        Ok(a) => a,
        Err(e) => return ok(format!("n/a:unpaged-error:{}", error_class(&e))),
    };
    if !accepted(env, mi, ds, ld, q, &unpaged) {
        return ok("n/a:unpaged-refused");
    }
    let mut result = ok(format!("ok:split:{}rows", unpaged.len().min(3)));
    'rows: for (i, row) in unpaged.iter().enumerate() {
        let cur = cursor_of(&m, q, row);
        if cur.iter().any(|o| *o == Operand::NullVar) {
            continue; // no cursor can name this row: reported by the walk
        }
        let mut variants: Vec<(&str, EQ, Vec<Value>)> = vec![];
        let mut b = q.clone();
        b.before = cur.clone();
        variants.push(("before", b.clone(), unpaged[0..i].to_vec()));
        b.first = Some(Lim { n: k, var: false });
        variants.push(("before+first", b, unpaged[0..i.min(k)].to_vec()));
        let mut a = q.clone();
        a.after = cur.clone();
        variants.push(("after", a, unpaged[i + 1..].to_vec()));
        for (what, qq, expected) in variants {
            match run_arr(env, mi, ld, &qq) {
                Err(e) => {
                    result = bad(format!("{} {}", what, error_class(&e)), e);
                    break 'rows;
                }
                Ok(got) => {
                    if let Some(s) = seq_symptom(&expected, &got) {
                        let s = match s {
                            "page gap" => "missing row",
                            "page overlap" => "extra row",
                            o => o,
                        };
                        result = bad(
                            format!("{} {}", what, s),
                            format!(
                                "unpaged={} cursor row {} -> {} returned {}",
                                Value::Array(unpaged.clone()),
                                i,
                                what,
                                Value::Array(got)
                            ),
                        );
                        break 'rows;
                    }
                }
            }
        }
    }
    result.class_suffix = suffix.to_string();
    result
}

fn check_same(env: &mut Env, mi: usize, _ds: &DataSet, ld: &Loaded, a: &EQ, b: &EQ) -> Verdict {
    let ra = run_arr(env, mi, ld, a);
    let rb = run_arr(env, mi, ld, b);
    match (ra, rb) {
        (Ok(x), Ok(y)) => {
            if x.len() == y.len() && x.iter().zip(&y).all(|(p, q)| json_eq(p, q)) {
                ok(format!("ok:same:{}", x.len().min(3)))
            } else {
                bad(
                    "literal and parameter forms differ",
                    format!("literal -> {} parameter -> {}", Value::Array(x), Value::Array(y)),
                )
            }
        }
        // an engine error is reported by the plain cases of the same queries
        (Err(e), _) | (_, Err(e)) => ok(format!("n/a:{}", error_class(&e))),
    }
}

fn check_case(env: &mut Env, mi: usize, ds: &DataSet, ld: &Loaded, case: &Case) -> Verdict {
    match case {
        Case::Q { q } => check_q(env, mi, ds, ld, &[q]),
        Case::Q2 { a, b } => check_q(env, mi, ds, ld, &[a, b]),
        Case::Same { a, b } => check_same(env, mi, ds, ld, a, b),
        Case::Walk { q, k } => check_walk(env, mi, ds, ld, q, *k),
        Case::Split { q, k } => check_split(env, mi, ds, ld, q, *k),
    }
}

// ---------------------------------------------------------------------------------------------
// scenarios: clause families
// ---------------------------------------------------------------------------------------------
struct Scenario {
    family: &'static str,
    model: usize,
    datasets: Vec<DataSet>,
    cases: Vec<CaseDef>,
}

fn fld(f: usize) -> QF {
    QF::Fld { f, alias: None }
}
fn fld_as(f: usize, a: &str) -> QF {
    QF::Fld { f, alias: Some(a.to_string()) }
}
fn sys(n: &str) -> QF {
    QF::Sys { name: n.to_string(), alias: None }
}
fn q_of(ent: usize, fields: Vec<QF>) -> EQ {
    EQ { ent, fields, ..Default::default() }
}
fn cd(class: String, case: Case) -> CaseDef {
    CaseDef { class, case }
}

/// how the field under test appears in the selection
#[derive(Clone, Copy, PartialEq)]
enum Mode {
    /// not selected, referenced by its model name
    Unselected,
    /// selected, referenced by its model name
    ByName,
    /// selected under the alias "x", referenced by the alias
    Alias,
}
const MODES: [Mode; 3] = [Mode::Unselected, Mode::ByName, Mode::Alias];
impl Mode {
    fn tag(&self) -> &'static str {
        match self {
            Mode::Unselected => "unselected",
            Mode::ByName => "byname",
            Mode::Alias => "alias",
        }
    }
    /// (selection, name to use in clauses)
    fn select(&self, e: &EDef, f: usize, alias: &str) -> (Vec<QF>, String) {
        match self {
            Mode::Unselected => (vec![], e.fields[f].name.to_string()),
            Mode::ByName => (vec![fld(f)], e.fields[f].name.to_string()),
            Mode::Alias => (vec![fld_as(f, alias)], alias.to_string()),
        }
    }
}

fn operands(f: &FDef, with_null: bool) -> Vec<Operand> {
    let mut v = vec![];
    let mut vals = vec![f.v1.clone(), f.v2.clone()];
    if let Some(m) = &f.vm {
        vals.push(m.clone());
    }
    for x in vals {
        v.push(Operand::Lit(x.clone()));
        v.push(Operand::Var(x));
    }
    if with_null && f.nullable {
        v.push(Operand::NullLit);
        v.push(Operand::NullVar);
    }
    v
}

fn scalar_fields(e: &EDef) -> Vec<usize> {
    (0..e.fields.len()).filter(|f| e.fields[*f].kind != K::Json).collect()
}

fn name_or_vary(f: usize) -> Vec<usize> {
    vec![f]
}

fn build_scenarios(tier: Tier) -> Vec<Scenario> {
    let ms = models();
    let thorough = tier == Tier::Thorough;
    let mut out: Vec<Scenario> = vec![];

    // ---------------- selection (MA, MD) ----------------
    for mi in [0usize, 3] {
        let e = &ms[mi].ents[0];
        let fs: Vec<usize> = (1..e.fields.len()).collect();
        for &f in &fs {
            let c = fclass(&e.fields[f]);
            let mut cases = vec![];
            cases.push(cd(format!("{}|alone", c), Case::Q { q: q_of(0, vec![fld(f)]) }));
            cases.push(cd(format!("{}|with-name", c), Case::Q { q: q_of(0, vec![fld(NAME), fld(f)]) }));
            cases.push(cd(format!("{}|aliased", c), Case::Q { q: q_of(0, vec![fld_as(f, "x"), fld(NAME)]) }));
            let mut qa = q_of(0, vec![fld(f), fld(NAME)]);
            qa.alias = Some("al".into());
            cases.push(cd(format!("{}|entity-alias", c), Case::Q { q: qa.clone() }));
            let mut qb = q_of(0, vec![fld_as(f, "y")]);
            qb.alias = Some("other".into());
            cases.push(cd(format!("{}|two-entities", c), Case::Q2 { a: qa, b: qb }));
            cases.push(cd(
                format!("{}|with-system-fields", c),
                Case::Q { q: q_of(0, vec![sys("id"), fld(f), sys("cdate"), sys("mdate"), sys("room_id")]) },
            ));
            out.push(Scenario {
                family: "select",
                model: mi,
                datasets: gen_datasets(&ms[mi], 0, &[f], if thorough { 3 } else { 2 }, true, true),
                cases,
            });
        }
        // pairs and triples of fields, one row (rows are rendered independently)
        for a in 0..fs.len() {
            for b in (a + 1)..fs.len() {
                let (fa, fb) = (fs[a], fs[b]);
                let c = format!("{}+{}", fclass(&e.fields[fa]), fclass(&e.fields[fb]));
                let mut cases = vec![
                    cd(format!("{}|pair", c), Case::Q { q: q_of(0, vec![fld(fa), fld(fb)]) }),
                    cd(format!("{}|pair-reversed", c), Case::Q { q: q_of(0, vec![fld(fb), fld(NAME), fld(fa)]) }),
                    cd(format!("{}|pair-aliased", c), Case::Q { q: q_of(0, vec![fld_as(fa, "x"), fld_as(fb, "y")]) }),
                ];
                if thorough {
                    for cc in (b + 1)..fs.len() {
                        cases.push(cd(
                            format!("{}|triple", c),
                            Case::Q { q: q_of(0, vec![fld(fa), fld_as(fs[cc], "z"), fld(fb)]) },
                        ));
                    }
                }
                out.push(Scenario {
                    family: "select",
                    model: mi,
                    datasets: gen_datasets(&ms[mi], 0, &[fa, fb], if thorough { 2 } else { 1 }, true, true),
                    cases,
                });
            }
        }
    }

    // ---------------- one filter (MA, MD) ----------------
    for mi in [0usize, 3] {
        let e = &ms[mi].ents[0];
        for f in scalar_fields(e) {
            let fdef = &e.fields[f];
            let c = fclass(fdef);
            let mut cases = vec![];
            for mode in MODES {
                let (sel, name) = mode.select(e, f, "x");
                for op in OPS {
                    for val in operands(fdef, true) {
                        let mut fields = sel.clone();
                        if f != NAME || mode == Mode::Unselected {
                            fields.push(if f == NAME { sys("mdate") } else { fld(NAME) });
                        }
                        let mut q = q_of(0, fields);
                        q.filters.push(Filter { name: name.clone(), op, val: val.clone() });
                        cases.push(cd(
                            format!("{}|{}|{}|{}", c, mode.tag(), op.class(), val.class()),
                            Case::Q { q },
                        ));
                    }
                }
            }
            out.push(Scenario {
                family: "filter",
                model: mi,
                datasets: gen_datasets(&ms[mi], 0, &name_or_vary(f), if thorough { 5 } else { 3 }, true, true),
                cases,
            });
        }
    }
    // system fields as filter
    {
        let e = &ms[0].ents[0];
        let mut cases = vec![];
        for op in OPS {
            for row in 0..2usize {
                for var in [false, true] {
                    let v = V::Id(row);
                    let mut q = q_of(0, vec![fld(NAME), sys("id")]);
                    q.filters.push(Filter {
                        name: "id".into(),
                        op,
                        val: if var { Operand::Var(v) } else { Operand::Lit(v) },
                    });
                    cases.push(cd(
                        format!("system-id|byname|{}|{}", op.class(), if var { "var" } else { "lit" }),
                        Case::Q { q },
                    ));
                }
            }
            for t in [T0, T0 + 1] {
                for var in [false, true] {
                    for name in ["mdate", "cdate"] {
                        let mut q = q_of(0, vec![fld(NAME)]);
                        q.filters.push(Filter {
                            name: name.into(),
                            op,
                            val: if var { Operand::Var(V::I(t)) } else { Operand::Lit(V::I(t)) },
                        });
                        cases.push(cd(
                            format!("system-date|unselected|{}|{}", op.class(), if var { "var" } else { "lit" }),
                            Case::Q { q },
                        ));
                    }
                }
            }
        }
        let _ = e;
        out.push(Scenario {
            family: "filter",
            model: 0,
            datasets: gen_datasets(&ms[0], 0, &[1], 3, false, false)
                .into_iter()
                .filter(|d| d.rows.len() >= 2)
                .collect(),
            cases,
        });
    }

    // ---------------- two filters (MA) ----------------
    {
        let e = &ms[0].ents[0];
        let pairs: Vec<(usize, usize)> = if thorough {
            let fs = scalar_fields(e);
            let mut p = vec![];
            for a in 0..fs.len() {
                for b in (a + 1)..fs.len() {
                    p.push((fs[a], fs[b]));
                }
            }
            p
        } else {
            vec![(1, 3), (1, 7), (5, 7), (4, 2), (8, 3)]
        };
        for (fa, fb) in pairs {
            let c = format!("{}+{}", fclass(&e.fields[fa]), fclass(&e.fields[fb]));
            let ops = [Op::Eq, Op::Ne, Op::Lt, Op::Ge];
            let mut cases = vec![];
            for sel in [false, true] {
                for oa in ops {
                    for ob in ops {
                        for (va, vb) in [(0, 0), (0, 1), (1, 0), (1, 1)] {
                            let pick = |f: usize, w: usize, lit: bool| {
                                let v = if w == 0 { e.fields[f].v1.clone() } else { e.fields[f].v2.clone() };
                                if lit {
                                    Operand::Lit(v)
                                } else {
                                    Operand::Var(v)
                                }
                            };
                            let mut fields = vec![fld(NAME)];
                            if sel {
                                if fa != NAME {
                                    fields.push(fld(fa));
                                }
                                fields.push(fld(fb));
                            }
                            let mut q = q_of(0, fields);
                            q.filters.push(Filter { name: e.fields[fa].name.into(), op: oa, val: pick(fa, va, true) });
                            q.filters.push(Filter { name: e.fields[fb].name.into(), op: ob, val: pick(fb, vb, false) });
                            cases.push(cd(
                                format!("{}|{}|{}+{}", c, if sel { "byname" } else { "unselected" }, oa.class(), ob.class()),
                                Case::Q { q },
                            ));
                        }
                    }
                }
            }
            out.push(Scenario {
                family: "filter2",
                model: 0,
                datasets: if thorough {
                    gen_datasets(&ms[0], 0, &[fa, fb], 3, false, false)
                } else {
                    gen_datasets(&ms[0], 0, &[fa, fb], 2, false, true)
                },
                cases,
            });
        }
    }

    // ---------------- order_by, one key (MA, MD) ----------------
    for mi in [0usize, 3] {
        let e = &ms[mi].ents[0];
        for f in scalar_fields(e) {
            let c = fclass(&e.fields[f]);
            let mut cases = vec![];
            for mode in MODES {
                let (sel, name) = mode.select(e, f, "x");
                for asc in [true, false] {
                    let mut fields = sel.clone();
                    if f != NAME {
                        fields.push(fld(NAME));
                    } else if mode == Mode::Unselected {
                        fields.push(sys("id"));
                    }
                    let mut q = q_of(0, fields.clone());
                    q.order = vec![(name.clone(), asc)];
                    cases.push(cd(format!("{}|{}|{}", c, mode.tag(), if asc { "asc" } else { "desc" }), Case::Q { q }));
                    if f != NAME {
                        // with the unique name as second key the whole sequence is fixed
                        for nasc in [true, false] {
                            let mut q = q_of(0, fields.clone());
                            q.order = vec![(name.clone(), asc), ("name".into(), nasc)];
                            cases.push(cd(
                                format!("{}|{}|{}+name", c, mode.tag(), if asc { "asc" } else { "desc" }),
                                Case::Q { q },
                            ));
                        }
                    }
                }
            }
            out.push(Scenario {
                family: "order",
                model: mi,
                datasets: gen_datasets(&ms[mi], 0, &[f], if thorough { 5 } else { 3 }, true, true),
                cases,
            });
        }
    }
    // order by system fields
    {
        let mut cases = vec![];
        for key in ["id", "mdate", "cdate"] {
            for asc in [true, false] {
                let mut q = q_of(0, vec![fld(NAME), sys(key)]);
                q.order = vec![(key.to_string(), asc)];
                cases.push(cd(format!("system-{}|byname|{}", key, if asc { "asc" } else { "desc" }), Case::Q { q: q.clone() }));
                if key != "id" {
                    q.order.push(("id".into(), !asc));
                    cases.push(cd(format!("system-{}|byname|+id", key), Case::Q { q }));
                }
            }
        }
        out.push(Scenario {
            family: "order",
            model: 0,
            datasets: gen_datasets(&ms[0], 0, &[1], if thorough { 4 } else { 3 }, false, false),
            cases,
        });
    }

    // ---------------- order_by, two keys (MA) ----------------
    let key_pairs: Vec<(usize, usize)> = if thorough {
        vec![(1, 3), (3, 1), (5, 7), (7, 1), (4, 2), (8, 1), (2, 6), (1, 5), (3, 7)]
    } else {
        vec![(1, 3), (7, 1), (4, 2), (5, 7)]
    };
    {
        let e = &ms[0].ents[0];
        for &(fa, fb) in &key_pairs {
            let c = format!("{}+{}", fclass(&e.fields[fa]), fclass(&e.fields[fb]));
            let mut cases = vec![];
            for mode in [Mode::Unselected, Mode::ByName, Mode::Alias] {
                let (sa, na) = mode.select(e, fa, "x");
                let (sb, nb) = mode.select(e, fb, "y");
                for da in [true, false] {
                    for db in [true, false] {
                        let mut fields = vec![fld(NAME)];
                        fields.extend(sa.clone());
                        fields.extend(sb.clone());
                        let mut q = q_of(0, fields);
                        q.order = vec![(na.clone(), da), (nb.clone(), db)];
                        cases.push(cd(format!("{}|{}", c, mode.tag()), Case::Q { q }));
                    }
                }
            }
            out.push(Scenario {
                family: "order2",
                model: 0,
                datasets: gen_datasets(&ms[0], 0, &[fa, fb], 3, false, false),
                cases,
            });
        }
    }

    // ---------------- first / skip (MA) ----------------
    {
        let e = &ms[0].ents[0];
        let f = 1usize;
        let mut cases = vec![];
        let orders: Vec<(&str, Vec<(String, bool)>)> = vec![
            ("unordered", vec![]),
            ("ordered-unique", vec![("i".into(), true), ("name".into(), false)]),
            ("ordered-ties", vec![("i".into(), false)]),
            ("ordered-name", vec![("name".into(), false)]),
        ];
        for (otag, order) in &orders {
            for first in [None, Some(0usize), Some(1), Some(2)] {
                for skip in [None, Some(0usize), Some(1), Some(2)] {
                    if first.is_none() && skip.is_none() {
                        continue;
                    }
                    for var in [false, true] {
                        let mut q = q_of(0, vec![fld(NAME), fld(f)]);
                        q.order = order.clone();
                        q.first = first.map(|n| Lim { n, var });
                        q.skip = skip.map(|n| Lim { n, var });
                        let class = format!(
                            "{}|first-{}|skip-{}|{}",
                            otag,
                            match first {
                                None => "none",
                                Some(0) => "0",
                                _ => "n",
                            },
                            match skip {
                                None => "none",
                                Some(0) => "0",
                                _ => "n",
                            },
                            if var { "var" } else { "lit" }
                        );
                        cases.push(cd(class.clone(), Case::Q { q: q.clone() }));
                        if !var {
                            // the parameter form must return the same as the literal form
                            let mut b = q.clone();
                            b.first = first.map(|n| Lim { n, var: true });
                            b.skip = skip.map(|n| Lim { n, var: true });
                            if !order.is_empty() && *otag != "ordered-ties" {
                                cases.push(cd(format!("forms|{}", class), Case::Same { a: q, b }));
                            }
                        }
                    }
                }
            }
            // limit together with a filter
            for first in [1usize, 2] {
                let mut q = q_of(0, vec![fld(NAME)]);
                q.order = order.clone();
                q.first = Some(Lim { n: first, var: false });
                q.filters.push(Filter { name: "i".into(), op: Op::Ne, val: Operand::Lit(V::I(10)) });
                cases.push(cd(format!("{}|first-n|with-filter", otag), Case::Q { q }));
            }
        }
        let _ = e;
        out.push(Scenario {
            family: "limit",
            model: 0,
            datasets: gen_datasets(&ms[0], 0, &[f], if thorough { 5 } else { 3 }, false, true),
            cases,
        });
    }

    // ---------------- after / before with every cursor of the domain (MA) ----------------
    {
        let e = &ms[0].ents[0];
        for f in scalar_fields(e) {
            let fdef = &e.fields[f];
            let c = fclass(fdef);
            let mut cases = vec![];
            for mode in MODES {
                let (sel, name) = mode.select(e, f, "x");
                for asc in [true, false] {
                    for val in operands(fdef, false) {
                        for before in [false, true] {
                            for first in [None, Some(1usize)] {
                                let mut fields = sel.clone();
                                if f != NAME || mode == Mode::Unselected {
                                    fields.push(if f == NAME { sys("mdate") } else { fld(NAME) });
                                }
                                let mut q = q_of(0, fields);
                                q.order = vec![(name.clone(), asc)];
                                if before {
                                    q.before = vec![val.clone()];
                                } else {
                                    q.after = vec![val.clone()];
                                }
                                q.first = first.map(|n| Lim { n, var: false });
                                cases.push(cd(
                                    format!(
                                        "{}|{}|{}|{}|{}",
                                        c,
                                        mode.tag(),
                                        if asc { "asc" } else { "desc" },
                                        if before { "before" } else { "after" },
                                        val.class()
                                    ),
                                    Case::Q { q },
                                ));
                            }
                        }
                    }
                }
            }
            out.push(Scenario {
                family: "cursor",
                model: 0,
                datasets: gen_datasets(&ms[0], 0, &[f], 3, false, true),
                cases,
            });
        }
        // two keys: full and partial cursors
        for &(fa, fb) in &key_pairs {
            let c = format!("{}+{}", fclass(&e.fields[fa]), fclass(&e.fields[fb]));
            let mut cases = vec![];
            for mode in [Mode::Unselected, Mode::ByName] {
                let (sa, na) = mode.select(e, fa, "x");
                let (sb, nb) = mode.select(e, fb, "y");
                for da in [true, false] {
                    for db in [true, false] {
                        let mut cursors: Vec<Vec<V>> = vec![];
                        for va in [&e.fields[fa].v1, &e.fields[fa].v2] {
                            cursors.push(vec![va.clone()]);
                            for vb in [&e.fields[fb].v1, &e.fields[fb].v2] {
                                cursors.push(vec![va.clone(), vb.clone()]);
                            }
                        }
                        for cur in cursors {
                            for before in [false, true] {
                                for lit in [true, false] {
                                    let mut fields = vec![fld(NAME)];
                                    fields.extend(sa.clone());
                                    fields.extend(sb.clone());
                                    let mut q = q_of(0, fields);
                                    q.order = vec![(na.clone(), da), (nb.clone(), db)];
                                    let ops: Vec<Operand> = cur
                                        .iter()
                                        .map(|v| if lit { Operand::Lit(v.clone()) } else { Operand::Var(v.clone()) })
                                        .collect();
                                    let partial = ops.len() == 1;
                                    if before {
                                        q.before = ops;
                                    } else {
                                        q.after = ops;
                                    }
                                    cases.push(cd(
                                        format!(
                                            "{}|{}|{}|{}|{}",
                                            c,
                                            mode.tag(),
                                            if before { "before" } else { "after" },
                                            if partial { "partial" } else { "full" },
                                            if lit { "lit" } else { "var" }
                                        ),
                                        Case::Q { q },
                                    ));
                                }
                            }
                        }
                    }
                }
            }
            out.push(Scenario {
                family: "cursor2",
                model: 0,
                datasets: gen_datasets(&ms[0], 0, &[fa, fb], if thorough { 3 } else { 2 }, false, !thorough),
                cases,
            });
        }
        // cursor on the system id (literal and parameter)
        let mut cases = vec![];
        for asc in [true, false] {
            for row in 0..2usize {
                for before in [false, true] {
                    for lit in [true, false] {
                        let mut q = q_of(0, vec![fld(NAME), sys("id")]);
                        q.order = vec![("id".into(), asc)];
                        let o = if lit { Operand::Lit(V::Id(row)) } else { Operand::Var(V::Id(row)) };
                        if before {
                            q.before = vec![o];
                        } else {
                            q.after = vec![o];
                        }
                        cases.push(cd(
                            format!(
                                "system-id|byname|{}|{}|{}",
                                if asc { "asc" } else { "desc" },
                                if before { "before" } else { "after" },
                                if lit { "lit" } else { "var" }
                            ),
                            Case::Q { q },
                        ));
                    }
                }
            }
        }
        out.push(Scenario {
            family: "cursor",
            model: 0,
            datasets: gen_datasets(&ms[0], 0, &[1], 3, false, false)
                .into_iter()
                .filter(|d| d.rows.len() >= 2)
                .collect(),
            cases,
        });
    }

    // ---------------- paging walk and split (MA) ----------------
    {
        let e = &ms[0].ents[0];
        for f in scalar_fields(e) {
            if f == NAME {
                continue;
            }
            let c = fclass(&e.fields[f]);
            let mut cases = vec![];
            for mode in [Mode::ByName, Mode::Alias] {
                let (sel, name) = mode.select(e, f, "x");
                for asc in [true, false] {
                    for tail in ["name", "id"] {
                        for tasc in [true, false] {
                            if tail == "id" && !tasc {
                                continue;
                            }
                            let mut fields = sel.clone();
                            fields.push(fld(NAME));
                            if tail == "id" {
                                fields.push(sys("id"));
                            }
                            let mut q = q_of(0, fields);
                            q.order = vec![(name.clone(), asc), (tail.to_string(), tasc)];
                            let class = format!("{}|{}|{}|tail-{}", c, mode.tag(), if asc { "asc" } else { "desc" }, tail);
                            for k in [1usize, 2] {
                                cases.push(cd(format!("after|{}", class), Case::Walk { q: q.clone(), k }));
                                cases.push(cd(format!("split|{}", class), Case::Split { q: q.clone(), k }));
                            }
                            if thorough || (mode == Mode::ByName && tail == "name" && tasc) {
                                // the same walk under a filter
                                let mut qf = q.clone();
                                qf.filters.push(Filter {
                                    name: "name".into(),
                                    op: Op::Ne,
                                    val: Operand::Lit(V::S("r1".into())),
                                });
                                cases.push(cd(format!("after+filter|{}", class), Case::Walk { q: qf, k: 1 }));
                            }
                        }
                    }
                }
            }
            out.push(Scenario {
                family: "walk",
                model: 0,
                datasets: gen_datasets(&ms[0], 0, &[f], if thorough { 5 } else { 3 }, false, true),
                cases,
            });
        }
        // single unique keys
        let mut cases = vec![];
        for key in ["name", "id"] {
            for asc in [true, false] {
                let mut q = q_of(0, vec![fld(NAME), sys("id")]);
                q.order = vec![(key.to_string(), asc)];
                let class = format!("required-unique-{}|byname|{}", key, if asc { "asc" } else { "desc" });
                for k in [1usize, 2] {
                    cases.push(cd(format!("after|{}", class), Case::Walk { q: q.clone(), k }));
                    cases.push(cd(format!("split|{}", class), Case::Split { q: q.clone(), k }));
                }
            }
        }
        out.push(Scenario {
            family: "walk",
            model: 0,
            datasets: gen_datasets(&ms[0], 0, &[1], if thorough { 4 } else { 3 }, false, false),
            cases,
        });
    }

    // ---------------- aggregates (MA) ----------------
    {
        let e = &ms[0].ents[0];
        let groups: Vec<Option<usize>> = vec![None, Some(3), Some(7), Some(4)];
        let targets: Vec<usize> = if thorough { vec![1, 2, 5, 6] } else { vec![1, 2, 5] };
        for g in &groups {
            for &x in &targets {
                let gc = g.map(|g| fclass(&e.fields[g])).unwrap_or("nogroup".into());
                let c = format!("group-{}|{}", gc, fclass(&e.fields[x]));
                let mut cases = vec![];
                let base_fields = |extra: Vec<QF>| -> Vec<QF> {
                    let mut v = vec![];
                    if let Some(g) = g {
                        v.push(fld(*g));
                    }
                    v.extend(extra);
                    v
                };
                let agg = |alias: &str, func: Func, f: Option<usize>| QF::Agg { alias: alias.into(), func, f };
                cases.push(cd(format!("{}|count", c), Case::Q { q: q_of(0, base_fields(vec![agg("c", Func::Count, None)])) }));
                for (al, func) in [("av", Func::Avg), ("su", Func::Sum), ("mi", Func::Min), ("ma", Func::Max)] {
                    cases.push(cd(
                        format!("{}|{}", c, func.name()),
                        Case::Q { q: q_of(0, base_fields(vec![agg(al, func, Some(x))])) },
                    ));
                }
                // the grouping key written AFTER an aggregate function, between two of them, and two keys around one:
                // every selected scalar is a key wherever it stands
                if let Some(g) = g {
                    cases.push(cd(format!("{}|count|key-last", c), Case::Q { q: q_of(0, vec![agg("c", Func::Count, None), fld(*g)]) }));
                    cases.push(cd(
                        format!("{}|sum|key-between", c),
                        Case::Q { q: q_of(0, vec![agg("c", Func::Count, None), fld(*g), agg("su", Func::Sum, Some(x))]) },
                    ));
                    // second key: one without a default (grouping on a key that reads as its default is a known defect,
                    // keyed by the data tag of the first key only)
                    if let Some(other) = [3usize, 7, 4].into_iter().find(|o| o != g && *o != x && e.fields[*o].default.is_none()) {
                        cases.push(cd(
                            format!("{}|count|two-keys-around", c),
                            Case::Q { q: q_of(0, vec![fld(*g), agg("c", Func::Count, None), fld(other)]) },
                        ));
                    }
                }
                // all at once, ordered by an aggregate, then by the group key
                let all = base_fields(vec![
                    agg("c", Func::Count, None),
                    agg("av", Func::Avg, Some(x)),
                    agg("su", Func::Sum, Some(x)),
                    agg("mi", Func::Min, Some(x)),
                    agg("ma", Func::Max, Some(x)),
                ]);
                let mut q = q_of(0, all.clone());
                q.order = vec![("c".into(), false)];
                if let Some(g) = g {
                    q.order.push((e.fields[*g].name.into(), true));
                }
                cases.push(cd(format!("{}|all+order", c), Case::Q { q }));
                // having filters on aggregate aliases
                for op in [Op::Eq, Op::Gt, Op::Le] {
                    for (n, var) in [(1i64, false), (2, true)] {
                        let mut q = q_of(0, base_fields(vec![agg("c", Func::Count, None), agg("su", Func::Sum, Some(x))]));
                        q.filters.push(Filter {
                            name: "c".into(),
                            op,
                            val: if var { Operand::Var(V::I(n)) } else { Operand::Lit(V::I(n)) },
                        });
                        cases.push(cd(format!("{}|having-count|{}", c, op.class()), Case::Q { q }));
                    }
                    let mut q = q_of(0, base_fields(vec![agg("ma", Func::Max, Some(x))]));
                    q.filters.push(Filter { name: "ma".into(), op, val: Operand::Lit(e.fields[x].v1.clone()) });
                    cases.push(cd(format!("{}|having-max|{}", c, op.class()), Case::Q { q }));
                }
                // row filter before grouping
                let mut q = q_of(0, base_fields(vec![agg("c", Func::Count, None), agg("mi", Func::Min, Some(x))]));
                q.filters.push(Filter { name: e.fields[x].name.into(), op: Op::Ge, val: Operand::Lit(e.fields[x].v1.clone()) });
                cases.push(cd(format!("{}|row-filter", c), Case::Q { q }));
                // first / skip over groups
                if g.is_some() {
                    let mut q = q_of(0, base_fields(vec![agg("c", Func::Count, None)]));
                    q.order = vec![(e.fields[g.unwrap()].name.into(), false)];
                    q.first = Some(Lim { n: 1, var: false });
                    cases.push(cd(format!("{}|first-over-groups", c), Case::Q { q: q.clone() }));
                    q.first = None;
                    q.after = vec![Operand::Lit(e.fields[g.unwrap()].v1.clone())];
                    if e.fields[g.unwrap()].kind != K::Bool {
                        cases.push(cd(format!("{}|after-over-groups", c), Case::Q { q }));
                    }
                }
                let vary: Vec<usize> = match g {
                    Some(g) => vec![*g, x],
                    None => vec![x],
                };
                // the data sets are split by what they contain, so that a finding names the simplest
                // kind of data that shows it
                let all = gen_datasets(&ms[0], 0, &vary, if thorough && g.is_none() { 4 } else { 3 }, true, false);
                let tag_of = |d: &DataSet| -> &'static str {
                    let absent_default = |f: usize| {
                        e.fields[f].default.is_some() && d.rows.iter().any(|r| r.cells[f] == Cell::Absent)
                    };
                    let gabs = g.map(|g| absent_default(g)).unwrap_or(false);
                    let xabs = absent_default(x);
                    let xnull = d.rows.iter().any(|r| r.cells[x] == Cell::Null);
                    match (gabs, xabs, xnull) {
                        (false, false, false) => "plain-data",
                        (false, false, true) => "explicit-null-in-target",
                        (true, false, false) => "absent-default-in-group",
                        (false, true, false) => "absent-default-in-target",
                        _ => "mixed-data",
                    }
                };
                for tag in [
                    "plain-data",
                    "explicit-null-in-target",
                    "absent-default-in-target",
                    "absent-default-in-group",
                    "mixed-data",
                ] {
                    let dsets: Vec<DataSet> = all.iter().filter(|d| tag_of(d) == tag).cloned().collect();
                    if dsets.is_empty() {
                        continue;
                    }
                    out.push(Scenario {
                        family: "aggregate",
                        model: 0,
                        datasets: dsets,
                        cases: cases
                            .iter()
                            .map(|c| CaseDef { class: format!("{}|{}", tag, c.class), case: c.case.clone() })
                            .collect(),
                    });
                }
            }
        }
    }

    // ---------------- nested entities, nullable() (MB) ----------------
    out.push(nested_scenario(&ms[1], thorough));

    // ---------------- json selectors (MC) ----------------
    {
        let e = &ms[2].ents[0];
        let mut cases = vec![];
        let sels = vec![
            Sel::Path("$.val".into()),
            Sel::Path("$.n".into()),
            Sel::Path("$.arr".into()),
            Sel::Path("$.arr[1].k".into()),
            Sel::Path("$".into()),
            Sel::Idx(0),
            Sel::Idx(1),
        ];
        for (f, fname) in [(1usize, "nullable-json"), (2, "default-json")] {
            cases.push(cd(format!("{}|whole", fname), Case::Q { q: q_of(0, vec![fld(f)]) }));
            cases.push(cd(format!("{}|whole", fname), Case::Q { q: q_of(0, vec![fld(NAME), fld(f)]) }));
            for sel in &sels {
                let st = match sel {
                    Sel::Path(_) => "path",
                    Sel::Idx(_) => "index",
                };
                let js = QF::JSel { alias: "x".into(), f, sel: sel.clone() };
                cases.push(cd(format!("{}|select-{}", fname, st), Case::Q { q: q_of(0, vec![js.clone()]) }));
                cases.push(cd(format!("{}|select-{}", fname, st), Case::Q { q: q_of(0, vec![fld(NAME), js.clone()]) }));
                let mut q = q_of(0, vec![fld(NAME), js.clone(), fld(f)]);
                q.order = vec![("x".into(), true), ("name".into(), true)];
                cases.push(cd(format!("{}|select-{}+order", fname, st), Case::Q { q }));
            }
            // json filters on scalar leaves
            let leaves: Vec<(Sel, V)> = vec![
                (Sel::Path("$.val".into()), V::S("a".into())),
                (Sel::Path("$.val".into()), V::S("b".into())),
                (Sel::Path("$.n".into()), V::I(2)),
                (Sel::Path("$.arr[1].k".into()), V::S("z".into())),
                (Sel::Idx(1), V::I(2)),
                (Sel::Idx(0), V::I(5)),
            ];
            for (sel, v) in leaves {
                for op in OPS {
                    for lit in [true, false] {
                        let mut q = q_of(0, vec![fld(NAME)]);
                        q.jfilters.push(JFilter {
                            f,
                            sel: sel.clone(),
                            op,
                            val: if lit { Operand::Lit(v.clone()) } else { Operand::Var(v.clone()) },
                        });
                        cases.push(cd(
                            format!("{}|filter|{}|{}", fname, op.class(), if lit { "lit" } else { "var" }),
                            Case::Q { q },
                        ));
                    }
                }
            }
            let mut q = q_of(0, vec![fld(NAME)]);
            q.jfilters.push(JFilter { f, sel: Sel::Path("$.val".into()), op: Op::Eq, val: Operand::NullLit });
            cases.push(cd(format!("{}|filter|eq|nulllit", fname), Case::Q { q: q.clone() }));
            q.jfilters[0].op = Op::Ne;
            cases.push(cd(format!("{}|filter|ne|nulllit", fname), Case::Q { q }));
        }
        let _ = e;
        out.push(Scenario {
            family: "json",
            model: 2,
            datasets: gen_datasets(&ms[2], 0, &[1, 2], if thorough { 3 } else { 2 }, true, true),
            cases,
        });
    }
    out
}

fn nested_scenario(m: &MDef, thorough: bool) -> Scenario {
    // rows: R0, Q0 (n=2), Q1 (n absent), P0, P1 ; edges: every subset of the edge universe up to the bound
    let (p, q_, r) = (0usize, 1usize, 2usize);
    let mk = |ent: usize, name: &str, n: Option<i64>, nrefs: usize| DRow {
        ent,
        ver: 0,
        cells: if ent == r {
            vec![Cell::Val(V::S(name.into()))]
        } else {
            vec![Cell::Val(V::S(name.into())), n.map(|n| Cell::Val(V::I(n))).unwrap_or(Cell::Absent)]
        },
        refs: vec![vec![]; nrefs],
        tick: 0,
    };
    let mut datasets = vec![];
    let max_edges = if thorough { 3 } else { 2 };
    for np in 1..=2usize {
        let mut base = vec![mk(r, "r0", None, 0), mk(q_, "q0", Some(2), 1), mk(q_, "q1", None, 1)];
        for i in 0..np {
            base.push(mk(p, &format!("p{}", i), if i == 0 { Some(10) } else { None }, 5));
        }
        // edge universe: (row, ref index, target row)
        let mut uni: Vec<(usize, usize, usize)> = vec![(1, 0, 0), (2, 0, 0)];
        for i in 0..np {
            let pr = 3 + i;
            for rf in 0..4usize {
                for t in [1usize, 2] {
                    uni.push((pr, rf, t));
                }
            }
            if i == 1 {
                uni.push((pr, 4, 3));
            }
        }
        let n = uni.len();
        let mut subsets: Vec<Vec<usize>> = vec![vec![]];
        for size in 1..=max_edges {
            let mut idx: Vec<usize> = (0..size).collect();
            loop {
                subsets.push(idx.clone());
                let mut i = size;
                let mut done = true;
                while i > 0 {
                    i -= 1;
                    if idx[i] != i + n - size {
                        idx[i] += 1;
                        for j in i + 1..size {
                            idx[j] = idx[j - 1] + 1;
                        }
                        done = false;
                        break;
                    }
                }
                if done {
                    break;
                }
            }
        }
        for s in subsets {
            let mut rows = base.clone();
            let mut valid = true;
            for ei in &s {
                let (row, rf, t) = uni[*ei];
                let rd = &m.ents[rows[row].ent].refs[rf];
                if !rd.array && !rows[row].refs[rf].is_empty() {
                    valid = false; // a single reference holds one target
                }
                rows[row].refs[rf].push(t);
            }
            // with two P rows only keep data sets where the second one matters
            if np == 2 && !s.iter().any(|ei| uni[*ei].0 == 4) {
                valid = false;
            }
            if valid {
                datasets.push(DataSet { rows });
            }
        }
    }

    // a chain of three rows through the self reference (P2 -> P1 -> P0), alone and next to another reference
    for extra in [None, Some((4usize, 2usize, 1usize))] {
        let mut rows = vec![mk(r, "r0", None, 0), mk(q_, "q0", Some(2), 1), mk(q_, "q1", None, 1)];
        for i in 0..3 {
            rows.push(mk(p, &format!("p{}", i), if i == 0 { Some(10) } else { None }, 5));
        }
        rows[4].refs[4].push(3);
        rows[5].refs[4].push(4);
        if let Some((row, rf, t)) = extra {
            rows[row].refs[rf].push(t);
        }
        datasets.push(DataSet { rows });
    }

    let e = &m.ents[p];
    let rix = |n: &str| e.refs.iter().position(|r| r.name == n).unwrap();
    let sub = |rn: &str, alias: Option<&str>, q: EQ| QF::Sub { r: rix(rn), alias: alias.map(|s| s.to_string()), q: Box::new(q) };
    let qn = |fields: Vec<QF>| q_of(q_, fields);
    let mut cases = vec![];
    let mut add = |class: &str, q: EQ| cases.push(cd(class.to_string(), Case::Q { q }));
    for rn in ["q", "qn", "qs", "qsn"] {
        let kind = match rn {
            "q" => "single-required",
            "qn" => "single-nullable",
            "qs" => "array-required",
            _ => "array-nullable",
        };
        add(&format!("{}|plain", kind), q_of(p, vec![fld(NAME), sub(rn, None, qn(vec![fld(NAME)]))]));
        add(&format!("{}|aliased", kind), q_of(p, vec![fld(NAME), sub(rn, Some("x"), qn(vec![fld(NAME), fld(1)]))]));
        let mut q = q_of(p, vec![fld(NAME), sub(rn, None, qn(vec![fld(NAME)]))]);
        q.nullable = vec![rn.to_string()];
        add(&format!("{}|nullable()", kind), q);
        let mut q = q_of(p, vec![fld(NAME), sub(rn, Some("x"), qn(vec![fld(NAME)]))]);
        q.nullable = vec!["x".to_string()];
        add(&format!("{}|aliased+nullable()", kind), q);
        // two levels
        let rsub = QF::Sub { r: 0, alias: None, q: Box::new(q_of(r, vec![fld(NAME)])) };
        add(&format!("{}|two-levels", kind), q_of(p, vec![fld(NAME), sub(rn, None, qn(vec![fld(NAME), rsub.clone()]))]));
        let mut inner = qn(vec![fld(NAME), rsub.clone()]);
        inner.nullable = vec!["r".into()];
        add(&format!("{}|two-levels+inner-nullable()", kind), q_of(p, vec![fld(NAME), sub(rn, None, inner)]));
        // filters inside the sub selection
        for (op, val, tag) in [
            (Op::Eq, Operand::Lit(V::I(2)), "eq"),
            (Op::Ne, Operand::Var(V::I(2)), "ne"),
            (Op::Eq, Operand::NullLit, "isnull"),
        ] {
            let mut sq = qn(vec![fld(NAME)]);
            sq.filters.push(Filter { name: "n".into(), op, val: val.clone() });
            add(&format!("{}|sub-filter-{}", kind, tag), q_of(p, vec![fld(NAME), sub(rn, None, sq.clone())]));
            let mut q = q_of(p, vec![fld(NAME), sub(rn, None, sq)]);
            q.nullable = vec![rn.to_string()];
            add(&format!("{}|sub-filter-{}+nullable()", kind, tag), q);
        }
        let mut sq = qn(vec![fld(NAME)]);
        sq.filters.push(Filter { name: "name".into(), op: Op::Eq, val: Operand::Lit(V::S("q1".into())) });
        add(&format!("{}|sub-filter-name", kind), q_of(p, vec![fld(NAME), sub(rn, None, sq)]));
        // filter of the parent on the reference itself
        for (op, tag) in [(Op::Eq, "isnull"), (Op::Ne, "notnull")] {
            let mut q = q_of(p, vec![fld(NAME)]);
            q.filters.push(Filter { name: rn.into(), op, val: Operand::NullLit });
            add(&format!("{}|ref-filter-{}|unselected", kind, tag), q);
            let mut q = q_of(p, vec![fld(NAME), sub(rn, None, qn(vec![fld(NAME)]))]);
            q.filters.push(Filter { name: rn.into(), op, val: Operand::NullLit });
            q.nullable = vec![rn.to_string()];
            add(&format!("{}|ref-filter-{}|selected+nullable()", kind, tag), q);
            let mut q = q_of(p, vec![fld(NAME), sub(rn, Some("x"), qn(vec![fld(NAME)]))]);
            q.filters.push(Filter { name: "x".into(), op, val: Operand::NullLit });
            q.nullable = vec!["x".to_string()];
            add(&format!("{}|ref-filter-{}|alias+nullable()", kind, tag), q);
        }
        if rn.starts_with("qs") {
            // order / limits inside an array
            for asc in [true, false] {
                let mut sq = qn(vec![fld(NAME)]);
                sq.order = vec![("name".into(), asc)];
                add(&format!("{}|sub-order", kind), q_of(p, vec![fld(NAME), sub(rn, None, sq.clone())]));
                sq.first = Some(Lim { n: 1, var: false });
                let mut q = q_of(p, vec![fld(NAME), sub(rn, None, sq.clone())]);
                q.nullable = vec![rn.to_string()];
                add(&format!("{}|sub-order+first", kind), q);
                sq.skip = Some(Lim { n: 1, var: false });
                let mut q = q_of(p, vec![fld(NAME), sub(rn, None, sq.clone())]);
                q.nullable = vec![rn.to_string()];
                add(&format!("{}|sub-order+first+skip", kind), q);
                // the same limits under a REQUIRED reference: the parent is kept only when the nested selection,
                // limits included, returns something
                if rn == "qs" {
                    add(&format!("{}|sub-order+first+skip|required", kind), q_of(p, vec![fld(NAME), sub(rn, None, sq.clone())]));
                    let mut s2 = qn(vec![fld(NAME)]);
                    s2.order = vec![("name".into(), asc)];
                    s2.skip = Some(Lim { n: 1, var: false });
                    add(&format!("{}|sub-order+skip|required", kind), q_of(p, vec![fld(NAME), sub(rn, None, s2.clone())]));
                    s2.skip = Some(Lim { n: 2, var: true });
                    add(&format!("{}|sub-order+skip2|required", kind), q_of(p, vec![fld(NAME), sub(rn, None, s2.clone())]));
                    let mut s3 = qn(vec![fld(NAME)]);
                    s3.order = vec![("name".into(), asc)];
                    s3.first = Some(Lim { n: 1, var: false });
                    add(&format!("{}|sub-order+first|required", kind), q_of(p, vec![fld(NAME), sub(rn, None, s3)]));
                }
                let mut sq = qn(vec![fld(NAME), sys("id")]);
                sq.order = vec![("n".into(), asc), ("name".into(), true)];
                add(&format!("{}|sub-order-nullable-key", kind), q_of(p, vec![fld(NAME), sub(rn, None, sq)]));
            }
            // the same reference twice under aliases
            let mut s1 = qn(vec![fld(NAME)]);
            s1.filters.push(Filter { name: "n".into(), op: Op::Eq, val: Operand::Lit(V::I(2)) });
            let mut q = q_of(p, vec![fld(NAME), sub(rn, Some("a"), s1), sub(rn, Some("b"), qn(vec![fld(NAME)]))]);
            q.nullable = vec!["a".into()];
            add(&format!("{}|twice-aliased", kind), q);
        }
        // ordered parent
        let mut q = q_of(p, vec![fld(NAME), sub(rn, None, qn(vec![fld(NAME)]))]);
        q.order = vec![("name".into(), false)];
        q.nullable = vec![rn.to_string()];
        add(&format!("{}|parent-ordered", kind), q);
    }
    // self reference, one and two levels
    let s1 = QF::Sub { r: rix("slf"), alias: None, q: Box::new(q_of(p, vec![fld(NAME)])) };
    add("self|one-level", q_of(p, vec![fld(NAME), s1.clone()]));
    let s2 = QF::Sub { r: rix("slf"), alias: None, q: Box::new(q_of(p, vec![fld(NAME), s1.clone()])) };
    add("self|two-levels", q_of(p, vec![fld(NAME), s2]));
    // the same reference followed twice, each level under its own alias
    let a2 = QF::Sub { r: rix("slf"), alias: Some("b2".into()), q: Box::new(q_of(p, vec![fld(NAME)])) };
    let a1 = QF::Sub { r: rix("slf"), alias: Some("b1".into()), q: Box::new(q_of(p, vec![fld(NAME), a2])) };
    let mut q = q_of(p, vec![fld(NAME), a1]);
    q.nullable = vec!["b1".into()];
    add("self|two-levels-aliased", q);
    let mut q = q_of(p, vec![fld(NAME)]);
    q.filters.push(Filter { name: "slf".into(), op: Op::Ne, val: Operand::NullLit });
    add("self|ref-filter-notnull|unselected", q);
    // several references at once
    add(
        "mixed|all-four",
        {
            let mut q = q_of(
                p,
                vec![
                    fld(NAME),
                    sub("q", None, qn(vec![fld(NAME)])),
                    sub("qn", None, qn(vec![fld(NAME)])),
                    sub("qs", None, qn(vec![fld(NAME)])),
                    sub("qsn", None, qn(vec![fld(NAME)])),
                ],
            );
            q.nullable = vec!["q".into(), "qs".into()];
            q
        },
    );
    Scenario { family: "nested", model: 1, datasets, cases }
}

// ---------------------------------------------------------------------------------------------
// driver
// ---------------------------------------------------------------------------------------------
const CHUNK: usize = 12;

fn explore(env: &mut Env, scenarios: &[Scenario], shard: (usize, usize), thorough: bool, out: &mut Outcome) {
    let mut unit = 0usize;
    let (mut svc_load, mut svc_total) = (0f64, 0f64);
    fill_known(env, scenarios);
    for (si, sc) in scenarios.iter().enumerate() {
        for (ci, chunk) in sc.datasets.chunks(CHUNK).enumerate() {
            unit += 1;
            if unit % shard.1 != shard.0 {
                continue;
            }
            // parsed queries are kept for the scenario chunk only
            env.cache.clear();
            for (di, ds) in chunk.iter().enumerate() {
                let dsi = ci * CHUNK + di;
                let ld = match env.load(sc.model, ds, (si * 100_000 + dsi + 1) as u64) {
                    Ok(l) => l,
                    Err(e) => {
                        out.machinery_errors.push(format!("{} data set {}: {}", sc.family, dsi, e));
                        return;
                    }
                };
                out.transitions += ds.rows.len() as u64;
                let mut light_verdicts: Vec<(usize, Option<String>)> = vec![];
                // service conformance sample: last (largest) data set of every scenario (quick: of every
                // third scenario), about a dozen evenly spaced cases each
                let sample_here = dsi == sc.datasets.len() - 1 && (thorough || si % 3 == 0);
                let stride = (sc.cases.len() / 12).max(1);
                for (cidx, c) in sc.cases.iter().enumerate() {
                    let before = env.reads;
                    let v = check_case(env, sc.model, ds, &ld, &c.case);
                    if sample_here && cidx % stride == 0 {
                        light_verdicts.push((cidx, v.symptom.clone()));
                    }
                    out.evaluations += 1;
                    out.transitions += env.reads - before;
                    let class = if v.class_suffix.is_empty() {
                        c.class.clone()
                    } else {
                        format!("{}|{}", c.class, v.class_suffix)
                    };
                    out.count(&format!("{}:{}", sc.family, v.shape));
                    out.state(&(sc.family, &class, &v.shape));
                    out.nontrivial(&(sc.family, &c.class, &v.shape, ds.rows.len().min(2)));
                    if let Some(sym) = &v.symptom {
                        let key = format!("{}|{}|{}", sc.family, key_class(sc.family, &class), sym);
                        let replay = json!({
                            "model": env.models[sc.model].id,
                            "dataset": ds,
                            "case": c.case,
                            "class": c.class,
                            "family": sc.family,
                        });
                        out.violation(key, format!("{} :: {}", sym, truncate(&v.detail, 900)), replay);
                    } else if dsi == sc.datasets.len() - 1
                        && ds.rows.len() > 1
                        && !v.shape.starts_with("n/a")
                        && !out.samples.iter().any(|s| s["family"] == sc.family)
                    {
                        // one explored case per clause family and shard, on the largest data set
                        out.sample(json!({"family": sc.family, "class": c.class, "outcome": v.shape,
                            "rows": ds.rows.iter().map(|r| json!(r.cells)).collect::<Vec<_>>(),
                            "query": render_for_sample(env, sc.model, &ld, &c.case)}));
                    }
                }
                if sample_here {
                    // conformance sample: the same cases through the service API of a full world peer
                    let t_svc = Instant::now();
                    let r_svc = env.load_service(sc.model, ds, (si * 100_000 + dsi + 1) as u64);
                    svc_load += t_svc.elapsed().as_secs_f64();
                    match r_svc {
                        Err(e) => out.machinery_errors.push(format!("{} service load: {}", sc.family, e)),
                        Ok(sld) => {
                            out.transitions += ds.rows.len() as u64;
                            for (cidx, light) in &light_verdicts {
                                let c = &sc.cases[*cidx];
                                let before = env.reads;
                                env.cache.clear();
                                let v = check_case(env, sc.model, ds, &sld, &c.case);
                                out.transitions += env.reads - before;
                                // the service must satisfy the oracle, or fail exactly as the direct path does
                                // (ids differ between the two worlds, so an id dependent case may legitimately
                                // pass here and fail there)
                                if v.symptom.is_none() || v.symptom == *light {
                                    out.traces_validated += 1;
                                    out.count("service-sample:conforms");
                                } else {
                                    out.count("service-sample:differs");
                                    let class = if v.class_suffix.is_empty() {
                                        c.class.clone()
                                    } else {
                                        format!("{}|{}", c.class, v.class_suffix)
                                    };
                                    out.violation(
                                        format!("{}|{}|{}", sc.family, key_class(sc.family, &class), v.symptom.clone().unwrap()),
                                        format!("through the service API only (direct path: {:?}) :: {}", light, truncate(&v.detail, 600)),
                                        json!({"model": env.models[sc.model].id, "dataset": ds, "case": c.case, "class": c.class, "family": sc.family, "service": true}),
                                    );
                                }
                            }
                        }
                    }
                    env.cache.clear();
                    svc_total += t_svc.elapsed().as_secs_f64();
                }
            }
        }
    }
    if std::env::var("C05_DEBUG").is_ok() {
        eprintln!("shard {:?}: service sample load {:.1}s total {:.1}s", shard, svc_load, svc_total);
    }
}

fn fill_known(env: &mut Env, scenarios: &[Scenario]) {
    for sc in scenarios {
        for c in &sc.cases {
            if let Case::Q { q } = &c.case {
                env.known.insert((sc.model, serde_json::to_string(q).unwrap()));
            }
        }
    }
}

fn strip_kind(s: &str) -> String {
    let mut o = s.to_string();
    for k in ["int", "float", "str", "bool", "b64", "json"] {
        for a in ["nullable", "default", "required"] {
            o = o.replace(&format!("{}-{}", a, k), a);
        }
    }
    o
}

/// the part of a case class that goes into the finding key: coarse enough that one defect keeps one
/// key per clause it breaks, fine enough that another clause or field class gives another key
fn key_class(family: &str, class: &str) -> String {
    let p: Vec<&str> = class.split('|').collect();
    match family {
        "select" => p[0].to_string(),
        "filter" => {
            if p[0].starts_with("system") {
                // field | mode | operand form
                format!("{}|{}|{}", p[0], p[1], p[3])
            } else {
                class.to_string()
            }
        }
        "filter2" => format!("{}|{}", p[0], p[1]),
        "order" => format!("{}|{}", strip_kind(p[0]), p[1]),
        "order2" | "cursor2" => {
            // two keys: what matters is whether a field with a default / a nullable field is among them
            let k = strip_kind(p[0]);
            let tag = if k.contains("default") {
                "with-default-key"
            } else if k.contains("nullable") {
                "with-nullable-key"
            } else {
                "required-keys"
            };
            format!("{}|{}", tag, p[1])
        }
        "limit" => {
            if p[0] == "forms" {
                format!("forms|{}|{}", p[2], p[3])
            } else {
                p[1..].join("|")
            }
        }
        "cursor" => {
            if p[0].starts_with("system") {
                format!("{}|{}|{}", p[0], p[1], p[4])
            } else {
                format!("{}|{}", strip_kind(p[0]), p[1])
            }
        }
        "walk" => {
            // kind | field | mode | dir | tail [| null-keys]
            let tail = match p.last() {
                Some(l) if l.ends_with("null-keys") => format!("|{}", l),
                _ => String::new(),
            };
            let kind = if p[0].starts_with("after") { "after" } else { p[0] };
            format!("{}|{}|{}{}", kind, strip_kind(p[1]), p[2], tail)
        }
        "aggregate" => {
            // data tag | group class | target class | clause ...
            let clause = match p[3] {
                "min" | "max" => "min-max",
                "having-count" | "having-max" => "having",
                "first-over-groups" | "after-over-groups" => "limits-over-groups",
                o => o,
            };
            format!("{}|{}", p[0], clause)
        }
        "nested" => {
            if p[1].starts_with("ref-filter") {
                format!("ref-filter|{}", p[2])
            } else {
                class.to_string()
            }
        }
        "json" => {
            let what = if p[1] == "filter" {
                "filter".to_string()
            } else if p[1].starts_with("select-") {
                "selector".to_string()
            } else {
                p[1].to_string()
            };
            format!("{}|{}", p[0], what)
        }
        _ => class.to_string(),
    }
}

fn truncate(s: &str, n: usize) -> String {
    if s.len() <= n {
        s.to_string()
    } else {
        let mut e = n;
        while !s.is_char_boundary(e) {
            e -= 1;
        }
        format!("{}…", &s[0..e])
    }
}

fn render_for_sample(env: &Env, mi: usize, ld: &Loaded, case: &Case) -> String {
    let q = match case {
        Case::Q { q } | Case::Walk { q, .. } | Case::Split { q, .. } => q,
        Case::Q2 { a, .. } | Case::Same { a, .. } => a,
    };
    render(&env.models[mi], &ld.lrows, &[q]).text.replace('\n', " ")
}

fn replay(path: &str) -> i32 {
    let text = match std::fs::read_to_string(path) {
        Ok(t) => t,
        Err(e) => {
            eprintln!("cannot read {}: {}", path, e);
            return 2;
        }
    };
    let v: Value = serde_json::from_str(&text).expect("replay json");
    let rp = v.get("replay").unwrap_or(&v);
    let model_id = rp["model"].as_str().unwrap_or("");
    let ds: DataSet = serde_json::from_value(rp["dataset"].clone()).expect("dataset");
    let case: Case = serde_json::from_value(rp["case"].clone()).expect("case");
    let mut env = match Env::new() {
        Ok(e) => e,
        Err(e) => {
            eprintln!("machinery: {}", e);
            return 2;
        }
    };
    let mi = env.models.iter().position(|m| m.id == model_id).expect("model");
    let tier = if v.get("tier").and_then(|t| t.as_str()) == Some("thorough") { Tier::Thorough } else { Tier::Quick };
    fill_known(&mut env, &build_scenarios(tier));
    let mut seen = vec![];
    let _g = ScratchGuard(scratch_root());
    let service = rp.get("service").and_then(|s| s.as_bool()).unwrap_or(false);
    for run in 0..2 {
        let loaded = if service { env.load_service(mi, &ds, 7) } else { env.load(mi, &ds, 7) };
        let ld = match loaded {
            Ok(l) => l,
            Err(e) => {
                eprintln!("machinery: {}", e);
                return 2;
            }
        };
        let v = check_case(&mut env, mi, &ds, &ld, &case);
        println!("--- run {} ---", run + 1);
        if run == 0 {
            println!("model:\n{}", env.models[mi].text(env.models[mi].nver - 1));
            println!("rows: {}", serde_json::to_string(&ds.rows).unwrap());
            println!("query: {}", render_for_sample(&env, mi, &ld, &case));
        }
        match &v.symptom {
            Some(s) => println!("VIOLATED: {} [{}] :: {}", s, v.class_suffix, v.detail),
            None => println!("satisfied ({})", v.shape),
        }
        seen.push((v.symptom.clone(), v.shape.clone()));
    }
    if seen[0] != seen[1] {
        eprintln!("machinery error: replay diverges");
        return 2;
    }
    if seen[0].0.is_some() {
        1
    } else {
        0
    }
}

pub fn run(args: &Args) -> i32 {
    if let Some(p) = &args.replay {
        return replay(p);
    }
    let start = Instant::now();
    let scenarios = build_scenarios(args.tier);
    if let Some(shard) = args.shard {
        let mut out = Outcome::default();
        let _g = ScratchGuard(scratch_root());
        match Env::new() {
            Ok(mut env) => explore(&mut env, &scenarios, shard, args.tier == Tier::Thorough, &mut out),
            Err(e) => out.machinery_errors.push(e),
        }
        emit_shard_outcome(&out);
        return 0;
    }
    let mut out = run_sharded(args, ncpu().min(16));
    let mut fam: Vec<(String, usize, usize)> = vec![];
    for s in &scenarios {
        if let Some(f) = fam.iter_mut().find(|f| f.0 == s.family) {
            f.1 += s.datasets.len();
            f.2 += s.datasets.len() * s.cases.len();
        } else {
            fam.push((s.family.to_string(), s.datasets.len(), s.datasets.len() * s.cases.len()));
        }
    }
    let fam_json: Vec<Value> = fam.iter().map(|f| json!({"family": f.0, "data_sets": f.1, "cases": f.2})).collect();
    println!("outcomes:");
    for (k, v) in &out.outcomes {
        println!("  {:60} {}", k, v);
    }
    let meta = CheckMeta {
        prop: "C05",
        level: "model_checking",
        rule: "E-SHAPE: for every clause family, every query of the family x every data set over the value domains of the fields the family touches (absent / null / two values, so ties and nulls occur), through the real QueryParser + PreparedQueries + Query::read, compared structurally with the reference evaluator QE; ordered queries are also walked with first/after (page sizes 1, 2) and split with before/after around every row. evaluations = (case, data set) pairs decided by the oracle, transitions = real mutations + real reads, states = distinct (family, input class, outcome), non trivial = distinct (family, query class, outcome, data size class)".into(),
        bounds: json!({
            "models": models().iter().map(|m| m.id).collect::<Vec<_>>(),
            "families": fam_json,
            "value_domains": "Integer {2,10}, Float {2.5,10.5}, String {a,b}, Boolean {true,false}, Base64 {AQ,Ag}, Json {object, array}; every nullable field also absent and null, every default field also absent (row created under the previous model version)",
            "rows_per_entity": if args.tier == Tier::Thorough { "<= 5 (one varied field: filter, order, limit, walk), <= 4 (ungrouped aggregates), <= 3 (two varied fields)" } else { "<= 3 (one varied field), <= 2..3 (two varied fields)" },
            "page_sizes": [1, 2],
        }),
        assumptions: vec![
            "the reference evaluator QE (c05_qe.rs), written from the documentation, is the reference; it accepts any order among ties, any placement of null keys (the same in the unpaged result and in the pages), both readings of `first 0`, of `!=` on a null value and of a comparison with a null parameter".into(),
            "a query reads only the fields it names: data sets vary the named fields, other fields hold fixed values".into(),
            "data is inserted through the real mutation pipeline of the light world; absent default fields are produced by a real data model update".into(),
            "a paging walk is required to visit every row only when the order keys identify the rows (no cursor can separate rows that tie on every key)".into(),
        ],
        exhaustive_claim: true,
    };
    finish(args, &meta, &out, start)
}
