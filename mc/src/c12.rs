//! C12 — local acceptance and peer acceptance give the same verdict.
//! Same enumeration as C01 (room histories x callers x operation catalogue). For a locally ACCEPTED
//! operation the rows, references and deletion records it actually produced are handed to an honest peer
//! holding the same room definition and the same earlier rows, through the ingestion sequence of a room
//! synchronisation (deletion records, then nodes via filter_existing -> signature check -> add_nodes, then
//! references). For a locally REFUSED operation of a simple shape, what the local path would have written
//! is built (same ids, dates, author key, correctly signed) and handed over the same way.
use crate::c01::*;
use crate::common::*;
use crate::light::signing_key_for;
use crate::rooms::*;
use crate::world::*;
use discret::verif::database::edge::{Edge, EdgeDeletionEntry};
use discret::verif::database::node::{Node, NodeDeletionEntry, NodeIdentifier};
use discret::verif::security::Uid;
use serde_json::{json, Value};
use std::collections::{BTreeSet, HashSet};
use std::time::Instant;

fn uid(v: &Sv) -> Uid {
    let b = v.blob().expect("blob");
    let mut u = [0u8; 16];
    u.copy_from_slice(b);
    u
}

#[derive(Debug, Default)]
struct Produced {
    nodes: Vec<Node>,
    edges: Vec<(Uid, Edge)>, // (room of the source row, edge)
    ntomb: Vec<NodeDeletionEntry>,
    etomb: Vec<EdgeDeletionEntry>,
}

/// everything dated `now` that device `x` holds in the three rooms
async fn dated_items(peer: &FPeer, rooms: &[Uid], now: i64) -> Result<Produced, String> {
    let mut p = Produced::default();
    let inlist = rooms.iter().map(|r| format!("x'{}'", hex::encode_upper(r))).collect::<Vec<_>>().join(",");
    for r in peer
        .sql(&format!("SELECT id, room_id, cdate, mdate, _entity, _json, _binary, verifying_key, _signature FROM _node WHERE mdate = {} AND room_id IN ({}) ORDER BY id", now, inlist))
        .await?
    {
        p.nodes.push(Node {
            id: uid(&r[0]),
            room_id: Some(uid(&r[1])),
            cdate: r[2].int().unwrap(),
            mdate: r[3].int().unwrap(),
            _entity: r[4].text().unwrap().to_string(),
            _json: r[5].text().map(|s| s.to_string()),
            _binary: r[6].blob().cloned(),
            verifying_key: r[7].blob().cloned().unwrap_or_default(),
            _signature: r[8].blob().cloned().unwrap_or_default(),
            _local_id: None,
        });
    }
    for r in peer
        .sql(&format!("SELECT e.src, e.src_entity, e.label, e.dest, e.cdate, e.verifying_key, e.signature, s.room_id FROM _edge e JOIN _node s ON s.id = e.src WHERE e.cdate = {} AND s.room_id IN ({}) ORDER BY e.src, e.label, e.dest", now, inlist))
        .await?
    {
        p.edges.push((
            uid(&r[7]),
            Edge {
                src: uid(&r[0]),
                src_entity: r[1].text().unwrap().to_string(),
                label: r[2].text().unwrap().to_string(),
                dest: uid(&r[3]),
                cdate: r[4].int().unwrap(),
                verifying_key: r[5].blob().cloned().unwrap_or_default(),
                signature: r[6].blob().cloned().unwrap_or_default(),
            },
        ));
    }
    for r in peer
        .sql(&format!("SELECT room_id, id, entity, mdate, deletion_date, verifying_key, signature FROM _node_deletion_log WHERE deletion_date = {} AND room_id IN ({}) ORDER BY id", now, inlist))
        .await?
    {
        p.ntomb.push(NodeDeletionEntry {
            room_id: uid(&r[0]),
            id: uid(&r[1]),
            entity: r[2].text().unwrap().to_string(),
            mdate: r[3].int().unwrap(),
            deletion_date: r[4].int().unwrap(),
            verifying_key: r[5].blob().cloned().unwrap_or_default(),
            signature: r[6].blob().cloned().unwrap_or_default(),
            entity_name: None,
        });
    }
    for r in peer
        .sql(&format!("SELECT room_id, src, src_entity, dest, label, cdate, deletion_date, verifying_key, signature FROM _edge_deletion_log WHERE deletion_date = {} AND room_id IN ({}) ORDER BY src, label, dest", now, inlist))
        .await?
    {
        p.etomb.push(EdgeDeletionEntry {
            room_id: uid(&r[0]),
            src: uid(&r[1]),
            src_entity: r[2].text().unwrap().to_string(),
            dest: uid(&r[3]),
            label: r[4].text().unwrap().to_string(),
            cdate: r[5].int().unwrap(),
            deletion_date: r[6].int().unwrap(),
            verifying_key: r[7].blob().cloned().unwrap_or_default(),
            signature: r[8].blob().cloned().unwrap_or_default(),
            entity_name: None,
        });
    }
    Ok(p)
}

fn minus(after: Produced, before: &Produced) -> Produced {
    let bn: HashSet<Vec<u8>> = before.nodes.iter().map(|n| n._signature.clone()).collect();
    let be: HashSet<Vec<u8>> = before.edges.iter().map(|e| e.1.signature.clone()).collect();
    let bt: HashSet<Vec<u8>> = before.ntomb.iter().map(|e| e.signature.clone()).collect();
    let bet: HashSet<Vec<u8>> = before.etomb.iter().map(|e| e.signature.clone()).collect();
    Produced {
        nodes: after.nodes.into_iter().filter(|n| !bn.contains(&n._signature)).collect(),
        edges: after.edges.into_iter().filter(|e| !be.contains(&e.1.signature)).collect(),
        ntomb: after.ntomb.into_iter().filter(|e| !bt.contains(&e.signature)).collect(),
        etomb: after.etomb.into_iter().filter(|e| !bet.contains(&e.signature)).collect(),
    }
}

fn wire<T: serde::Serialize + serde::de::DeserializeOwned>(t: &T) -> T {
    bincode::deserialize(&bincode::serialize(t).unwrap()).unwrap()
}

/// hand `items` to peer `y` in the order and through the entry points a room synchronisation uses.
/// Returns the kinds of items that were NOT stored/applied.
async fn peer_ingest(y: &FPeer, items: &Produced) -> Result<Vec<&'static str>, String> {
    let sv = &y.services.signature_verification;
    let mut refused = vec![];
    // 1. reference deletion records, 2. node deletion records
    if !items.etomb.is_empty() {
        let log: Vec<EdgeDeletionEntry> = items.etomb.iter().map(wire).collect();
        match sv.verify_edge_log(log).await {
            Ok(l) => y.db.delete_edges(l).await.map_err(|e| e.to_string())?,
            Err(_) => refused.push("reference-deletion-signature"),
        }
    }
    if !items.ntomb.is_empty() {
        let log: Vec<NodeDeletionEntry> = items.ntomb.iter().map(wire).collect();
        match sv.verify_node_log(log).await {
            Ok(l) => y.db.delete_nodes(l).await.map_err(|e| e.to_string())?,
            Err(_) => refused.push("node-deletion-signature"),
        }
    }
    // 3. nodes, per room: identifiers -> filter_existing -> fetch -> signature check -> add_nodes
    let rooms: BTreeSet<Uid> = items.nodes.iter().filter_map(|n| n.room_id).collect();
    for room in rooms {
        let nodes: Vec<&Node> = items.nodes.iter().filter(|n| n.room_id == Some(room)).collect();
        let ids: HashSet<NodeIdentifier> = nodes
            .iter()
            .map(|n| NodeIdentifier { id: n.id, mdate: n.mdate, signature: n._signature.clone() })
            .collect();
        let mut to_insert = y.db.filter_existing_node(ids).await.map_err(|e| e.to_string())?;
        let fetched: Vec<Node> = nodes.iter().map(|n| wire(*n)).collect();
        let fetched = match sv.verify_nodes(fetched).await {
            Ok(f) => f,
            Err(_) => {
                refused.push("node-signature");
                continue;
            }
        };
        let mut batch = vec![];
        for mut node in fetched {
            if let Some(pos) = to_insert.iter().position(|t| t.id == node.id) {
                let mut nti = to_insert.remove(pos);
                node._local_id = nti.old_local_id;
                nti.node = Some(node);
                batch.push(nti);
            }
        }
        let _rejected = y.db.add_nodes(room, batch).await.map_err(|e| e.to_string())?;
    }
    // 4. references, per room of the source row
    let erooms: BTreeSet<Uid> = items.edges.iter().map(|e| e.0).collect();
    for room in erooms {
        let edges: Vec<Edge> = items.edges.iter().filter(|e| e.0 == room).map(|e| wire(&e.1)).collect();
        match sv.verify_edges(edges).await {
            Ok(e) => {
                let _ = y.db.add_edges(room, e).await.map_err(|e| e.to_string())?;
            }
            Err(_) => refused.push("reference-signature"),
        }
    }
    y.barrier().await;
    // what is there now?
    for n in &items.nodes {
        let r = y.sql(&format!("SELECT count(*) FROM _node WHERE id = x'{}' AND _signature = x'{}'", hex::encode_upper(n.id), hex::encode_upper(&n._signature))).await?;
        if r[0][0].int().unwrap_or(0) == 0 && !refused.contains(&"node") {
            refused.push("node");
        }
    }
    for (_, e) in &items.edges {
        let r = y.sql(&format!("SELECT count(*) FROM _edge WHERE src = x'{}' AND label = '{}' AND dest = x'{}' AND signature = x'{}'", hex::encode_upper(e.src), e.label, hex::encode_upper(e.dest), hex::encode_upper(&e.signature))).await?;
        if r[0][0].int().unwrap_or(0) == 0 && !refused.contains(&"reference") {
            refused.push("reference");
        }
    }
    for t in &items.ntomb {
        let r = y.sql(&format!("SELECT count(*) FROM _node_deletion_log WHERE id = x'{}' AND signature = x'{}'", hex::encode_upper(t.id), hex::encode_upper(&t.signature))).await?;
        if r[0][0].int().unwrap_or(0) == 0 && !refused.contains(&"node-deletion") {
            refused.push("node-deletion");
        }
    }
    for t in &items.etomb {
        let r = y.sql(&format!("SELECT count(*) FROM _edge_deletion_log WHERE src = x'{}' AND dest = x'{}' AND signature = x'{}'", hex::encode_upper(t.src), hex::encode_upper(t.dest), hex::encode_upper(&t.signature))).await?;
        if r[0][0].int().unwrap_or(0) == 0 && !refused.contains(&"reference-deletion") {
            refused.push("reference-deletion");
        }
    }
    Ok(refused)
}

/// what the local path would have written for a refused operation of a simple shape
fn forge(ctx: &Ctx<'_>, x: usize, op: &str) -> Option<Produced> {
    let u = ctx.u;
    let fx = ctx.last_fixtures.borrow();
    let key = signing_key_for((x + 1) as u8);
    let mut p = Produced::default();
    let pj = |name: &str| json!({ u.p_name.clone(): name }).to_string();
    let new_version = |old: &Node, room: Uid, name: &str| -> Node {
        let mut n = old.clone();
        n.room_id = Some(room);
        n.mdate = ctx.now;
        n._json = Some(pj(name));
        n._local_id = None;
        n.sign(&key).unwrap();
        n
    };
    match op {
        "create_P" => p.nodes.push(u.make_p(Some(ctx.r1.id), x, ctx.now, "c")),
        "create_Q" => p.nodes.push(u.make_q(Some(ctx.r1.id), x, ctx.now, "c")),
        "update_own_P" | "update_foreign_P" => p.nodes.push(new_version(fx.0.first()?, ctx.r1.id, "u")),
        "move_own_R1_R2" | "move_foreign_R1_R2" => p.nodes.push(new_version(fx.0.first()?, ctx.r2.id, "m")),
        "move_own_R2_R1" | "move_foreign_R2_R1" | "move_own_R3_R1" | "move_foreign_R3_R1" => {
            p.nodes.push(new_version(fx.0.first()?, ctx.r1.id, "m"))
        }
        "delete_own_P" | "delete_foreign_P" => {
            p.ntomb.push(NodeDeletionEntry::build(ctx.r1.id, fx.0.first()?, ctx.now, &key));
        }
        _ => return None,
    }
    Some(p)
}

fn histories12(tier: Tier) -> Vec<History> {
    let mut res = vec![];
    for (ti, (_, groups)) in templates().iter().enumerate() {
        let g = groups.len();
        res.push(History { template: ti, events: vec![] });
        for e in alphabet(g, false) {
            res.push(History { template: ti, events: vec![e] });
        }
        if tier == Tier::Thorough {
            let red = alphabet(g, true);
            for e1 in &red {
                for e2 in &red {
                    res.push(History { template: ti, events: vec![e1.clone(), e2.clone()] });
                }
            }
        }
    }
    res
}

const SKIP_OPS: [&str; 9] = [
    "sys_userauth_direct",
    "sys_right_direct",
    "sys_auth_direct",
    "sys_userauth_in_room",
    "delete_sys_room",
    "delete_sys_auth",
    "room_add_user_D",
    "room_add_right_wildcard",
    "room_add_self_admin",
];

async fn explore12(u: &Universe, r2: &URoom, r3: &URoom, h: &History, out: &mut Outcome, only: Option<(usize, &str)>) -> Result<(), String> {
    let tpls = templates();
    let (tname, groups) = &tpls[h.template];
    let mut r1 = u.create_room(0, tick(0), groups).await?;
    u.spread_room(&r1, 0).await;
    for (i, ev) in h.events.iter().enumerate() {
        let date = tick(4 * (i as i64 + 1));
        if u.apply_event(&mut r1, ev, 0, date).await? {
            u.spread_room(&r1, 0).await;
        }
        out.transitions += 1;
    }
    let now = tick(4 * h.events.len() as i64) + DAY / 4;
    let rooms = [r1.id, r2.id, r3.id];
    for x in [2usize, 1, 0] {
        let y = if x == 0 { 1 } else { 0 };
        let ctx = Ctx { u, r1: r1.clone(), r2, r3, now, fdate: tick(1) - 60_000, mirror: Some(y), last_fixtures: Default::default() };
        for op in OPS {
            if SKIP_OPS.contains(op) {
                continue;
            }
            if op.starts_with("create_P_size_") && !h.events.is_empty() {
                continue; // rows around the size limit: on the initial definitions only
            }
            if let Some((ox, oop)) = only {
                if ox != x || oop != *op {
                    continue;
                }
            }
            let pre = ctx.prepare_op(x, op).await?;
            let before = dated_items(&u.peers[x], &rooms, now).await?;
            let r = ctx.exec_op(x, pre).await;
            out.evaluations += 1;
            out.transitions += 1;
            let replay = json!({"template": tname, "events": h.events, "caller": x, "op": op});
            set_clock(now + 1000);
            if r.accepted {
                let after = dated_items(&u.peers[x], &rooms, now).await?;
                let produced = minus(after, &before);
                let n_items = produced.nodes.len() + produced.edges.len() + produced.ntomb.len() + produced.etomb.len();
                let refused = peer_ingest(&u.peers[y], &produced).await?;
                out.transitions += n_items as u64;
                if only.is_some() {
                    println!("  {} {} locally accepted, produced {} items, peer refused {:?}", NAMES[x], op, n_items, refused);
                }
                if refused.is_empty() {
                    out.count("agree:accepted");
                } else {
                    for k in &refused {
                        out.violation(
                            format!("op={} local=accepted peer=refused item={}", op, k),
                            format!("{} was accepted on {}'s device but the honest peer {} did not store the {} it produced", op, NAMES[x], NAMES[y], k),
                            replay.clone(),
                        );
                    }
                    out.count("disagree:local-accepted-peer-refused");
                }
                out.nontrivial(&(op, "accepted", refused.is_empty()));
                out.state(&(op, x, h.template, h.events.len(), "acc", refused.len()));
            } else {
                match forge(&ctx, x, op) {
                    Some(f) => {
                        let refused = peer_ingest(&u.peers[y], &f).await?;
                        if only.is_some() {
                            println!("  {} {} locally refused ({:?}); forged equivalent: peer refused {:?}", NAMES[x], op, r.error, refused);
                        }
                        if refused.is_empty() {
                            out.violation(
                                format!("op={} local=refused peer=accepted", op),
                                format!("{} was refused on {}'s device but the honest peer {} stores the same write when it arrives by synchronisation", op, NAMES[x], NAMES[y]),
                                replay.clone(),
                            );
                            out.count("disagree:local-refused-peer-accepted");
                        } else {
                            out.count("agree:refused");
                        }
                        out.nontrivial(&(op, "refused", refused.is_empty()));
                        out.state(&(op, x, h.template, h.events.len(), "ref", refused.len()));
                    }
                    None => out.count("refused-not-forged"),
                }
            }
            if out.samples.len() < 6 && out.evaluations % 53 == 1 {
                out.sample(json!({"case": replay, "local": if r.accepted { "accepted" } else { "refused" }}));
            }
        }
    }
    Ok(())
}

fn replay(path: &str) -> i32 {
    let text = std::fs::read_to_string(path).expect("replay file");
    let v: Value = serde_json::from_str(&text).expect("json");
    let r = &v["replay"];
    let ti = templates().iter().position(|t| t.0 == r["template"].as_str().unwrap()).unwrap();
    let h = History { template: ti, events: serde_json::from_value(r["events"].clone()).unwrap() };
    let x = r["caller"].as_u64().unwrap() as usize;
    let op = r["op"].as_str().unwrap().to_string();
    let root = scratch_root();
    let _g = ScratchGuard(root.clone());
    for round in 0..2 {
        let rt = runtime();
        let mut out = Outcome::default();
        let res: Result<(), String> = rt.block_on(async {
            set_clock(tick(0));
            let u = Universe::start(&root).await?;
            let r2 = u.create_room(0, tick(0), &[(vec![("*", true, true)], vec![1, 2], vec![])]).await?;
            u.spread_room(&r2, 0).await;
            let r3 = u.create_room(0, tick(0), &[(vec![("*", true, true)], vec![], vec![])]).await?;
            u.spread_room(&r3, 0).await;
            explore12(&u, &r2, &r3, &h, &mut out, Some((x, &op))).await
        });
        println!("replay round {}: {:?}", round, res);
        for v in &out.violations {
            println!("  {} :: {}", v.key, v.what);
        }
    }
    0
}

pub fn run(args: &Args) -> i32 {
    if let Some(p) = &args.replay {
        return replay(p);
    }
    let start = Instant::now();
    let hs = histories12(args.tier);
    if let Some((i, n)) = args.shard {
        let root = scratch_root();
        let _g = ScratchGuard(root.clone());
        let mut out = Outcome::default();
        let mine: Vec<&History> = hs.iter().enumerate().filter(|(k, _)| k % n == i).map(|(_, h)| h).collect();
        for chunk in mine.chunks(12) {
            let rt = runtime();
            let r: Result<(), String> = rt.block_on(async {
                set_clock(tick(0));
                let u = Universe::start(&root).await?;
                let r2 = u.create_room(0, tick(0), &[(vec![("*", true, true)], vec![1, 2], vec![])]).await?;
                u.spread_room(&r2, 0).await;
                let r3 = u.create_room(0, tick(0), &[(vec![("*", true, true)], vec![], vec![])]).await?;
                u.spread_room(&r3, 0).await;
                for h in chunk {
                    explore12(&u, &r2, &r3, h, &mut out, None).await?;
                }
                Ok(())
            });
            drop(rt);
            if let Err(e) = r {
                out.machinery_errors.push(e);
                break;
            }
        }
        emit_shard_outcome(&out);
        return 0;
    }
    let mut out = run_sharded(args, ncpu().min(16));
    out.traces_validated = out.evaluations;
    let meta = CheckMeta {
        prop: "C12",
        level: "model_checking",
        rule: "C01's enumeration (room histories x callers A,B,C x 24 data operations on fixtures planted on the caller's device and on an honest peer); accepted operations: the produced rows/references/deletion records go through the peer's ingestion entry points in synchronisation order; refused simple operations: the equivalent correctly signed write is forged and ingested; states = distinct (operation, caller, template, history length, local verdict, peer refusals); non-trivial = distinct (operation, local verdict, agreement)".into(),
        bounds: json!({"histories": hs.len(), "callers": 3, "ops": OPS.len() - SKIP_OPS.len(), "depth": args.tier.pick(1, 2)}),
        assumptions: vec![
            "the peer side is the ingestion sequence of synchronise_day composed by the harness from the real entry points (delete_edges, delete_nodes, filter_existing_node, verify_*, add_nodes, add_edges), not the log-driven pull (whose stalls are C03's subject)".into(),
            "the honest peer holds the same room definition (real export/import) and the same earlier rows".into(),
            "refused operations are forged only for create / update / move / delete shapes".into(),
        ],
        exhaustive_claim: true,
    };
    finish(args, &meta, &out, start)
}
