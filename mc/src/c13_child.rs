//! C13 child processes.
//!  * `mc C13 --child <workload> <point> <k> <mode> <dir> [skip=i,j]` runs one deterministic workload on
//!    a real `GraphDatabaseService` in `<dir>/db`, logging every acknowledgement / reported failure
//!    to `<dir>/log.jsonl` BEFORE it continues, with one fault armed (mode abort | error | interrupt)
//!    or none (mode dry = real batching, counts the hits; mode ref = one request per batch, records
//!    the canonical state after every request, optionally skipping some requests).
//!  * `mc C13 --verify <dir>` reopens the folder with a normal start (same seed / model), waits for
//!    the start-up recompute pass, dumps the canonical state and the log checks to `<dir>/verify.json`.
//!
//! Batches are driven in LOCKSTEP through the `writer.before_batch` gate: the gate stays closed, the
//! driver waits until the writer thread is parked there, lets exactly one batch through (spinning
//! synchronously, so no tokio task can enqueue anything meanwhile) and closes it again. At most one
//! writer message is in flight unless the workload holds several on purpose, so the composition of
//! every batch - and therefore the meaning of "k-th hit of point p" - is the same in every run.
use crate::light::signing_key_for;
use crate::rooms::MODEL;
use crate::world::*;
use discret::verif::database::edge::{Edge, EdgeDeletionEntry};
use discret::verif::database::graph_database::DbMessage;
use discret::verif::database::node::{Node, NodeDeletionEntry, NodeIdentifier, NodeToInsert};
use discret::verif::database::query_language::data_model_parser::DataModel;
use discret::verif::database::query_language::parameter::{Parameters, ParametersAdd};
use discret::verif::database::sqlite_database::Writeable;
use discret::verif::database::Error as DbError;
use discret::verif::security::{Ed25519SigningKey, Uid};
use discret::verif_hooks::{self as vh, FaultMode};
use serde_json::{json, Value};
use std::collections::{BTreeMap, HashMap, HashSet};
use std::io::Write;
use std::path::{Path, PathBuf};
use std::sync::atomic::{AtomicBool, AtomicU64, Ordering};
use std::sync::Mutex;
use std::time::{Duration, Instant};
use tokio::sync::oneshot;

pub const GATE: &str = "writer.before_batch";
pub const POINTS: [&str; 6] = [
    "batch.begin",
    "batch.item",
    "batch.before_marks",
    "batch.before_commit",
    "batch.after_commit",
    "ack.before",
];
/// pseudo point: a REAL statement of the batch is made to fail (SQLITE_INTERRUPT) by a progress
/// handler installed on the writer connection, at its k-th callback
pub const PROGRESS_POINT: &str = "stmt.progress";
/// pseudo point: the k-th COMMIT really fails (a commit hook on the writer connection vetoes it,
/// SQLite turns it into a rollback and reports SQLITE_CONSTRAINT_COMMITHOOK)
pub const COMMIT_POINT: &str = "stmt.commit";
pub const SEED: u8 = 1;
pub const PEER_NAME: &str = "c13";

// ---------------------------------------------------------------------------------------------
// log file
// ---------------------------------------------------------------------------------------------
lazy_static::lazy_static! {
    static ref LOG: Mutex<Option<std::fs::File>> = Mutex::new(None);
}
static ARMED: AtomicBool = AtomicBool::new(false);
static BATCHES: AtomicU64 = AtomicU64::new(0);
static PROGRESS_CALLS: AtomicU64 = AtomicU64::new(0);
static PROGRESS_FIRE_AT: AtomicU64 = AtomicU64::new(0);
static PROGRESS_PERIOD: AtomicU64 = AtomicU64::new(0);
static COMMIT_CALLS: AtomicU64 = AtomicU64::new(0);
static COMMIT_FIRE_AT: AtomicU64 = AtomicU64::new(0);
static COMMIT_HOOKED: AtomicBool = AtomicBool::new(false);
/// batches let through the gate since the fault was armed
static STEPS: AtomicU64 = AtomicU64::new(0);

fn log_open(dir: &Path) {
    let f = std::fs::OpenOptions::new()
        .create(true)
        .append(true)
        .open(dir.join("log.jsonl"))
        .expect("log file");
    *LOG.lock().unwrap() = Some(f);
}

/// one line, one write(2): the line is in the page cache when this returns, which is what survives
/// the death of the process (not a power loss - neither does tmpfs)
pub fn log(v: Value) {
    let mut s = v.to_string();
    s.push('\n');
    if let Some(f) = LOG.lock().unwrap().as_mut() {
        let _ = f.write_all(s.as_bytes());
    }
}

// ---------------------------------------------------------------------------------------------
// canonical state
// ---------------------------------------------------------------------------------------------
fn sv_str(v: &Sv) -> String {
    match v {
        Sv::Null => "null".to_string(),
        Sv::Int(i) => format!("{}", i),
        Sv::Real(r) => format!("r{}", r),
        Sv::Text(t) => format!("'{}'", t),
        Sv::Blob(b) => format!("x{}", hex::encode(b)),
    }
}

pub type Raw = BTreeMap<String, Vec<Vec<Sv>>>;

pub async fn dump_raw(p: &FPeer) -> Result<Raw, String> {
    let names = p
        .sql("SELECT name FROM sqlite_schema WHERE type='table' ORDER BY name")
        .await?;
    let mut raw = Raw::new();
    for n in names {
        let name = n[0].text().unwrap_or("").to_string();
        if name.starts_with("sqlite_") {
            continue;
        }
        if name.starts_with("_node_fts") && name != "_node_fts_docsize" {
            continue;
        }
        let sql = if name == "_node" {
            "SELECT rowid, id, room_id, cdate, mdate, _entity, _json, _binary, verifying_key, _signature FROM _node".to_string()
        } else {
            format!("SELECT * FROM {}", name)
        };
        let mut rows = p.sql(&sql).await?;
        rows.sort();
        raw.insert(name, rows);
    }
    Ok(raw)
}

/// Canonical, id-free form of a database state, comparable ACROSS processes.
/// Row identifiers are allocated by discret while it walks `HashMap`s, so which nested row gets which
/// identifier differs from run to run: every identifier is replaced by the label
/// (entity, creation date, content) of the row it designates, signatures (which cover identifiers)
/// are dropped, local rowids are replaced by the label of their row. Daily-log hashes are replaced by
/// the verdict of `log_problems` (they cover signatures).
#[derive(Clone, Debug, Default, serde::Serialize, serde::Deserialize, PartialEq, Eq)]
pub struct Canon {
    /// every table except `_daily_log`
    pub data: BTreeMap<String, Vec<String>>,
    /// `_daily_log`: room label, entity, date, entry_number, need_recompute, has daily hash
    pub daily_log: Vec<String>,
    /// rows of `_daily_log` without a history hash (information only: the chain is C09's subject)
    pub history_missing: u64,
    /// rows of `_daily_log` waiting for a recompute pass
    pub pending_marks: u64,
    /// independent check of `_daily_log` against the stored rows (empty = consistent)
    pub log_problems: Vec<String>,
    /// canonicalisation problems (ambiguous labels): machinery errors
    pub problems: Vec<String>,
}

fn canon_json(s: &str) -> String {
    match serde_json::from_str::<Value>(s) {
        Ok(v) => v.to_string(),
        Err(_) => s.to_string(),
    }
}

fn day_of(ms: i64) -> i64 {
    ms.div_euclid(DAY) * DAY
}

pub fn canon(raw: &Raw) -> Canon {
    let mut c = Canon::default();
    let empty = vec![];
    let nodes = raw.get("_node").unwrap_or(&empty);
    // labels
    let mut label_of: HashMap<Vec<u8>, String> = HashMap::new();
    let mut label_of_rowid: HashMap<i64, String> = HashMap::new();
    let mut seen: HashSet<String> = HashSet::new();
    for r in nodes {
        let id = r[1].blob().cloned().unwrap_or_default();
        let lab = format!(
            "<{} c{} {}>",
            sv_str(&r[5]),
            sv_str(&r[3]),
            match &r[6] {
                Sv::Text(t) => canon_json(t),
                o => sv_str(o),
            }
        );
        if !seen.insert(lab.clone()) {
            c.problems.push(format!("ambiguous node label {}", lab));
        }
        label_of.insert(id, lab.clone());
        if let Some(rowid) = r[0].int() {
            label_of_rowid.insert(rowid, lab);
        }
    }
    let lab = |v: &Sv| -> String {
        match v {
            Sv::Blob(b) => label_of
                .get(b)
                .cloned()
                .unwrap_or_else(|| "<gone>".to_string()),
            o => sv_str(o),
        }
    };
    for (name, rows) in raw {
        let mut out: Vec<String> = vec![];
        match name.as_str() {
            "_daily_log" => continue,
            "_node" => {
                for r in rows {
                    out.push(format!(
                        "room={} cdate={} mdate={} ent={} json={} bin={} vk={}",
                        lab(&r[2]),
                        sv_str(&r[3]),
                        sv_str(&r[4]),
                        sv_str(&r[5]),
                        match &r[6] {
                            Sv::Text(t) => canon_json(t),
                            o => sv_str(o),
                        },
                        sv_str(&r[7]),
                        sv_str(&r[8])
                    ));
                }
            }
            "_edge" => {
                // src, src_entity, label, dest, cdate, verifying_key, signature
                for r in rows {
                    out.push(format!(
                        "src={} ent={} label={} dest={} cdate={} vk={}",
                        lab(&r[0]),
                        sv_str(&r[1]),
                        sv_str(&r[2]),
                        lab(&r[3]),
                        sv_str(&r[4]),
                        sv_str(&r[5])
                    ));
                }
            }
            "_node_deletion_log" => {
                // room_id, id, mdate, entity, deletion_date, verifying_key, signature
                for r in rows {
                    out.push(format!(
                        "room={} mdate={} ent={} ddate={} vk={}",
                        lab(&r[0]),
                        sv_str(&r[2]),
                        sv_str(&r[3]),
                        sv_str(&r[4]),
                        sv_str(&r[5])
                    ));
                }
            }
            "_edge_deletion_log" => {
                // room_id, src, src_entity, dest, label, cdate, deletion_date, verifying_key, signature
                for r in rows {
                    out.push(format!(
                        "room={} src={} ent={} dest={} label={} cdate={} ddate={} vk={}",
                        lab(&r[0]),
                        lab(&r[1]),
                        sv_str(&r[2]),
                        lab(&r[3]),
                        sv_str(&r[4]),
                        sv_str(&r[5]),
                        sv_str(&r[6]),
                        sv_str(&r[7])
                    ));
                }
            }
            "_room_changelog" => {
                for r in rows {
                    out.push(format!("room={} mdate={}", lab(&r[0]), sv_str(&r[1])));
                }
            }
            "_node_fts_docsize" => {
                for r in rows {
                    let l = r[0]
                        .int()
                        .and_then(|i| label_of_rowid.get(&i).cloned())
                        .unwrap_or_else(|| "<orphan>".to_string());
                    out.push(format!("row={} sz={}", l, sv_str(&r[1])));
                }
            }
            "_configuration" => {
                for r in rows {
                    out.push(format!(
                        "{}={}",
                        sv_str(&r[0]),
                        match &r[1] {
                            Sv::Text(t) => canon_json(t),
                            o => sv_str(o),
                        }
                    ));
                }
            }
            _ => {
                for r in rows {
                    out.push(r.iter().map(sv_str).collect::<Vec<_>>().join(","));
                }
            }
        }
        out.sort();
        c.data.insert(name.clone(), out);
    }

    // daily log + independent check
    let nlog = raw.get("_node_deletion_log").unwrap_or(&empty);
    let elog = raw.get("_edge_deletion_log").unwrap_or(&empty);
    // (room, entity, day) -> signatures
    let mut content: BTreeMap<(Vec<u8>, String, i64), Vec<Vec<u8>>> = BTreeMap::new();
    for r in nodes {
        if let (Some(room), Some(m), Some(ent), Some(sig)) =
            (r[2].blob(), r[4].int(), r[5].text(), r[9].blob())
        {
            content
                .entry((room.clone(), ent.to_string(), day_of(m)))
                .or_default()
                .push(sig.clone());
        }
    }
    for r in nlog {
        if let (Some(room), Some(ent), Some(d), Some(sig)) =
            (r[0].blob(), r[3].text(), r[4].int(), r[6].blob())
        {
            content
                .entry((room.clone(), ent.to_string(), day_of(d)))
                .or_default()
                .push(sig.clone());
        }
    }
    for r in elog {
        if let (Some(room), Some(ent), Some(d), Some(sig)) =
            (r[0].blob(), r[2].text(), r[6].int(), r[8].blob())
        {
            content
                .entry((room.clone(), ent.to_string(), day_of(d)))
                .or_default()
                .push(sig.clone());
        }
    }
    let dl = raw.get("_daily_log").unwrap_or(&empty);
    let mut logged: HashSet<(Vec<u8>, String, i64)> = HashSet::new();
    // room_id, entity, date, entry_number, daily_hash, history_hash, need_recompute
    for r in dl {
        let room = r[0].blob().cloned().unwrap_or_default();
        let ent = r[1].text().unwrap_or("").to_string();
        let date = r[2].int().unwrap_or(0);
        let entries = r[3].int().unwrap_or(-1);
        let need = r[6].int().unwrap_or(0);
        let rl = lab(&r[0]);
        c.daily_log.push(format!(
            "room={} ent={} date={} entries={} need={} daily={}",
            rl,
            ent,
            date,
            entries,
            need,
            r[4].blob().is_some()
        ));
        if r[5].blob().is_none() {
            c.history_missing += 1;
        }
        logged.insert((room.clone(), ent.clone(), date));
        if need != 0 {
            c.pending_marks += 1;
            continue;
        }
        let mut sigs = content
            .get(&(room.clone(), ent.clone(), date))
            .cloned()
            .unwrap_or_default();
        sigs.sort();
        let expect_hash = if sigs.is_empty() {
            None
        } else {
            let mut h = blake3::Hasher::new();
            for s in &sigs {
                h.update(s);
            }
            Some(h.finalize().as_bytes().to_vec())
        };
        if entries != sigs.len() as i64 {
            c.log_problems.push(format!(
                "entry_number {} != {} stored rows/tombstones for room={} ent={} date={}",
                entries,
                sigs.len(),
                rl,
                ent,
                date
            ));
        } else if r[4].blob().cloned() != expect_hash {
            c.log_problems.push(format!(
                "daily_hash differs from the hash of the stored signatures for room={} ent={} date={}",
                rl, ent, date
            ));
        }
    }
    for (k, _) in &content {
        // room definitions (system namespace 0.*) are deliberately outside the daily log
        if k.1.starts_with("0.") {
            continue;
        }
        if !logged.contains(k) {
            c.log_problems.push(format!(
                "no _daily_log row for room={} ent={} date={} which has stored rows",
                label_of.get(&k.0).cloned().unwrap_or_else(|| "<gone>".into()),
                k.1,
                k.2
            ));
        }
    }
    c.daily_log.sort();
    c.log_problems.sort();
    c
}

pub async fn dump_canon(p: &FPeer) -> Result<Canon, String> {
    let mut c = canon(&dump_raw(p).await?);
    // what the RUNNING instance believes, beyond what is stored: the rooms the second identity belongs to according
    // to the in-memory definitions (a room mutation that is reported failed must not be honoured there either)
    let mut rx = p.db.get_rooms_for_peer(crate::light::verifying_key_for(2)).await;
    let mut live = vec![];
    while let Some(r) = rx.recv().await {
        if let Ok(ids) = r {
            for id in ids {
                let rows = p.sql(&format!("SELECT cdate FROM _node WHERE id = x'{}'", hex::encode_upper(id))).await?;
                live.push(match rows.first().and_then(|r| r[0].int()) {
                    Some(d) => format!("room created at {}", d),
                    None => "room that is not stored".to_string(),
                });
            }
        }
    }
    live.sort();
    c.data.insert("live:rooms_of_second_identity".into(), live);
    Ok(c)
}

pub fn data_hash(c: &Canon) -> String {
    format!("{:016x}", crate::common::hash64(&c.data))
}

// ---------------------------------------------------------------------------------------------
// workloads
// ---------------------------------------------------------------------------------------------
#[derive(Clone)]
pub enum Kind {
    /// `db.mutate_raw` (the public path: request, acknowledgement, then a recompute request)
    Mutate(String, Vec<(String, String)>),
    /// `db.delete`
    Delete(String, Vec<(String, String)>),
    /// one mutation through `db.mutation_stream()`
    Stream(String, Vec<(String, String)>),
    /// rows as delivered by a peer: `filter_existing_node` + `db.add_nodes`
    AddNodes(Uid, Vec<Node>),
    AddEdges(Uid, Vec<Edge>),
    /// (room, deleted row, deletion date): the tombstone is built and signed when the request is issued
    DeleteNodes(Vec<(Uid, Node, i64)>),
    DeleteEdges(Vec<(Uid, Edge, i64)>),
    /// `db.compute_daily_log()` (never acknowledged to the caller)
    Recompute,
}

#[derive(Clone)]
pub struct Req {
    pub label: &'static str,
    /// clock of the request: day and a per request offset
    pub day: i64,
    pub kind: Kind,
    /// store the id of the first mutated row under this name when acknowledged
    pub capture: Option<&'static str>,
}

pub struct Workload {
    pub reqs: Vec<Req>,
    /// consecutive requests held by the gate so that they share ONE transaction
    pub groups: Vec<Vec<usize>>,
}

pub const WORKLOADS: [(&str, &str); 6] = [
    ("W1", "nested-mutation"),
    ("W2", "deletion"),
    ("W3", "room-mutation"),
    ("W4", "ingested-batch"),
    ("W5", "mixed-shared-batch"),
    ("W6", "recompute"),
];

pub fn class_of(w: &str) -> &'static str {
    WORKLOADS
        .iter()
        .find(|(n, _)| *n == w)
        .map(|(_, c)| *c)
        .unwrap_or("unknown")
}

pub struct Ctx {
    pub key: Ed25519SigningKey,
    pub r: Uid,
    pub g0: Uid,
    pub r2: Uid,
    pub p0: Uid,
    pub q0: Uid,
    pub qa: Uid,
    pub p1: Uid,
    pub p2: Uid,
    pub qc: Uid,
    pub p3: Uid,
    pub x1: Node,
    pub y1: Node,
    pub z1: Node,
    pub e_xy: Edge,
    pub p_short: String,
    pub q_short: String,
    pub f_pname: String,
    pub f_qname: String,
    pub l_q: String,
    pub l_qs: String,
    pub b_key: String,
}

fn pr(k: &str, v: String) -> (String, String) {
    (k.to_string(), v)
}

fn params(list: &[(String, String)], dynamic: &HashMap<String, String>) -> Parameters {
    let mut p = Parameters::default();
    for (k, v) in list {
        let v = if let Some(name) = v.strip_prefix('@') {
            dynamic
                .get(name)
                .cloned()
                .unwrap_or_else(|| b64(&[0u8; 16]))
        } else {
            v.clone()
        };
        p.add(k, v).unwrap();
    }
    p
}

pub fn req_clock(day: i64, i: usize) -> i64 {
    T0 + day * DAY + 3_600_000 + (i as i64) * 1000
}

fn make_node(ctx_key: &Ed25519SigningKey, short: &str, room: Uid, date: i64, field: &str, name: &str) -> Node {
    set_clock(date);
    let mut n = Node {
        room_id: Some(room),
        cdate: date,
        mdate: date,
        _entity: short.to_string(),
        _json: Some(json!({ field: name }).to_string()),
        ..Default::default()
    };
    n.sign(ctx_key).expect("sign node");
    n
}

fn make_edge(key: &Ed25519SigningKey, src: &Node, label: &str, dest: &Node, date: i64) -> Edge {
    let mut e = Edge {
        src: src.id,
        src_entity: src._entity.clone(),
        label: label.to_string(),
        dest: dest.id,
        cdate: date,
        ..Default::default()
    };
    e.sign(key).expect("sign edge");
    e
}

/// rows as the synchronisation client prepares them before `add_nodes`
async fn prepare_nodes(p: &FPeer, nodes: &[Node]) -> Result<Vec<NodeToInsert>, String> {
    let mut ids = HashSet::new();
    for n in nodes {
        ids.insert(NodeIdentifier {
            id: n.id,
            mdate: n.mdate,
            signature: n._signature.clone(),
        });
    }
    let mut filtered = p
        .db
        .filter_existing_node(ids)
        .await
        .map_err(|e| e.to_string())?;
    // the client iterates a HashSet: any order is a legal one, the harness fixes it
    filtered.sort_by(|a, b| {
        let ia = nodes.iter().position(|n| n.id == a.id);
        let ib = nodes.iter().position(|n| n.id == b.id);
        ia.cmp(&ib)
    });
    let mut res = vec![];
    for mut nti in filtered {
        if let Some(n) = nodes.iter().find(|n| n.id == nti.id) {
            let mut node = n.clone();
            node._local_id = nti.old_local_id;
            nti.node = Some(node);
            res.push(nti);
        }
    }
    Ok(res)
}

fn first_id(q: &discret::verif::database::mutation_query::MutationQuery) -> Uid {
    q.mutate_entities[0].node_to_mutate.id
}

fn sub_ids(
    q: &discret::verif::database::mutation_query::MutationQuery,
    field: &str,
) -> Vec<Uid> {
    q.mutate_entities[0]
        .sub_nodes
        .get(field)
        .map(|v| v.iter().map(|e| e.node_to_mutate.id).collect())
        .unwrap_or_default()
}

/// common fixture: two rooms, rows on day 0 created through the public API, rows delivered "by a peer"
pub async fn setup(p: &FPeer) -> Result<Ctx, String> {
    let key = signing_key_for(SEED);
    let dm_json = p.db.datamodel().await.map_err(|e| e.to_string())?;
    let model: DataModel = serde_json::from_str(&dm_json).map_err(|e| e.to_string())?;
    let pe = model.get_entity("ns.P").map_err(|e| e.to_string())?;
    let qe = model.get_entity("ns.Q").map_err(|e| e.to_string())?;
    let p_short = pe.short_name.clone();
    let q_short = qe.short_name.clone();
    let f_pname = pe.get_field("name").map_err(|e| e.to_string())?.short_name.clone();
    let f_qname = qe.get_field("name").map_err(|e| e.to_string())?.short_name.clone();
    let l_q = pe.get_field("q").map_err(|e| e.to_string())?.short_name.clone();
    let l_qs = pe.get_field("qs").map_err(|e| e.to_string())?.short_name.clone();

    let room_text = "mutate { sys.Room { admin:[{verif_key:$adm}] authorisations:[{ name:\"g0\" rights:[{entity:\"*\" mutate_self:true mutate_all:true}] }] } }";
    let mut step = 0u64;
    let mut mk = |day: i64| {
        step += 1;
        set_clock(T0 + day * DAY + 60_000 * step as i64);
        vh::set_uid_namespace(1000 + step);
    };
    mk(0);
    let mut pa = Parameters::default();
    pa.add("adm", p.key_b64()).unwrap();
    let q = p.db.mutate_raw(room_text, Some(pa)).await.map_err(|e| format!("room R: {}", e))?;
    let r = first_id(&q);
    let g0 = sub_ids(&q, "authorisations")[0];
    p.barrier().await;
    mk(0);
    let mut pa = Parameters::default();
    pa.add("adm", p.key_b64()).unwrap();
    let q = p.db.mutate_raw(room_text, Some(pa)).await.map_err(|e| format!("room R2: {}", e))?;
    let r2 = first_id(&q);
    p.barrier().await;

    mk(0);
    let mut pa = Parameters::default();
    pa.add("r", b64(&r)).unwrap();
    let q = p
        .db
        .mutate_raw(
            "mutate { ns.P { room_id:$r name:\"p0\" n:1 qs:[{name:\"p0.qa\"},{name:\"p0.qb\"}] } }",
            Some(pa),
        )
        .await
        .map_err(|e| format!("p0: {}", e))?;
    let p0 = first_id(&q);
    let qs = sub_ids(&q, "qs");
    let qa = qs[0];
    p.barrier().await;
    mk(0);
    let mut pa = Parameters::default();
    pa.add("p", b64(&p0)).unwrap();
    let q = p
        .db
        .mutate_raw("mutate { ns.P { id:$p q:{name:\"p0.q0\"} } }", Some(pa))
        .await
        .map_err(|e| format!("q0: {}", e))?;
    let q0 = sub_ids(&q, "q")[0];
    p.barrier().await;
    mk(0);
    let mut pa = Parameters::default();
    pa.add("r", b64(&r)).unwrap();
    let q = p
        .db
        .mutate_raw("mutate { ns.P { room_id:$r name:\"p1\" } }", Some(pa))
        .await
        .map_err(|e| format!("p1: {}", e))?;
    let p1 = first_id(&q);
    p.barrier().await;
    mk(0);
    let mut pa = Parameters::default();
    pa.add("r", b64(&r)).unwrap();
    let q = p
        .db
        .mutate_raw(
            "mutate { ns.P { room_id:$r name:\"p2\" qs:[{name:\"p2.qc\"}] } }",
            Some(pa),
        )
        .await
        .map_err(|e| format!("p2: {}", e))?;
    let p2 = first_id(&q);
    let qc = sub_ids(&q, "qs")[0];
    p.barrier().await;
    mk(0);
    let mut pa = Parameters::default();
    pa.add("r", b64(&r)).unwrap();
    let q = p
        .db
        .mutate_raw("mutate { ns.P { room_id:$r name:\"p3\" } }", Some(pa))
        .await
        .map_err(|e| format!("p3: {}", e))?;
    let p3 = first_id(&q);
    p.barrier().await;

    // rows "delivered by a peer" on day 0 (same author: the only member of the room)
    mk(0);
    let d = T0 + 70_000_000;
    let x1 = make_node(&key, &p_short, r, d, &f_pname, "x1");
    let y1 = make_node(&key, &q_short, r, d + 1, &f_qname, "y1");
    let z1 = make_node(&key, &p_short, r, d + 2, &f_pname, "z1");
    let e_xy = make_edge(&key, &x1, &l_qs, &y1, d + 3);
    let nti = prepare_nodes(p, &[x1.clone(), y1.clone(), z1.clone()]).await?;
    let rej = p.db.add_nodes(r, nti).await.map_err(|e| e.to_string())?;
    if !rej.is_empty() {
        return Err("setup: delivered rows rejected".into());
    }
    let rej = p.db.add_edges(r, vec![e_xy.clone()]).await.map_err(|e| e.to_string())?;
    if !rej.is_empty() {
        return Err("setup: delivered reference rejected".into());
    }
    p.db.compute_daily_log().await;
    p.barrier().await;

    Ok(Ctx {
        key,
        r,
        g0,
        r2,
        p0,
        q0,
        qa,
        p1,
        p2,
        qc,
        p3,
        x1,
        y1,
        z1,
        e_xy,
        p_short,
        q_short,
        f_pname,
        f_qname,
        l_q,
        l_qs,
        b_key: b64(&crate::light::verifying_key_for(2)),
    })
}

pub fn build(w: &str, c: &Ctx) -> Result<Workload, String> {
    let r = b64(&c.r);
    let r2 = b64(&c.r2);
    let m = |label: &'static str, day: i64, text: &str, ps: Vec<(String, String)>| Req {
        label,
        day,
        kind: Kind::Mutate(text.to_string(), ps),
        capture: None,
    };
    let d = |label: &'static str, day: i64, text: &str, ps: Vec<(String, String)>| Req {
        label,
        day,
        kind: Kind::Delete(text.to_string(), ps),
        capture: None,
    };
    let s = |label: &'static str, day: i64, text: &str, ps: Vec<(String, String)>| Req {
        label,
        day,
        kind: Kind::Stream(text.to_string(), ps),
        capture: None,
    };
    let singles = |n: usize| (0..n).map(|i| vec![i]).collect::<Vec<_>>();
    // delivered rows of the later days
    let n1 = make_node(&c.key, &c.p_short, c.r, req_clock(1, 90), &c.f_pname, "n1");
    let n2 = make_node(&c.key, &c.q_short, c.r, req_clock(1, 91), &c.f_qname, "n2");
    let mut x1b = c.x1.clone();
    x1b.mdate = req_clock(1, 92);
    x1b._json = Some(json!({ c.f_pname.clone(): "x1 changed by the peer" }).to_string());
    x1b.sign(&c.key).map_err(|e| e.to_string())?;
    let e1 = make_edge(&c.key, &n1, &c.l_q, &n2, req_clock(1, 93));
    let e2 = make_edge(&c.key, &n1, &c.l_qs, &c.y1, req_clock(1, 94));
    let del_z1 = (c.r, c.z1.clone(), req_clock(2, 95));
    let del_exy = (c.r, c.e_xy.clone(), req_clock(2, 96));

    let wl = match w {
        "W1" => {
            let reqs = vec![
                m(
                    "create P with nested q and qs (4 rows, 3 references)",
                    1,
                    "mutate { ns.P { room_id:$r name:\"a\" n:1 q:{name:\"a.q\"} qs:[{name:\"a.s1\"},{name:\"a.s2\"}] } }",
                    vec![pr("r", r.clone())],
                ),
                m(
                    "update P0 of day 0, nested update of its q, new member of qs",
                    1,
                    "mutate { ns.P { id:$p name:\"p0 changed\" q:{id:$q name:\"q0 changed\"} qs:[{name:\"p0.new\"}] } }",
                    vec![pr("p", b64(&c.p0)), pr("q", b64(&c.q0))],
                ),
                m(
                    "two top level rows in one mutation",
                    2,
                    "mutate { ns.P { room_id:$r name:\"b\" } ns.Q { room_id:$r name:\"c\" } }",
                    vec![pr("r", r.clone())],
                ),
                m(
                    "move P1 to the second room",
                    2,
                    "mutate { ns.P { id:$p room_id:$to name:\"p1 moved\" } }",
                    vec![pr("p", b64(&c.p1)), pr("to", r2.clone())],
                ),
                m(
                    "replace the single reference q of P0 by null and drop nothing else",
                    2,
                    "mutate { ns.P { id:$p q:null } }",
                    vec![pr("p", b64(&c.p0))],
                ),
            ];
            Workload { groups: singles(reqs.len()), reqs }
        }
        "W2" => {
            let reqs = vec![
                d(
                    "delete P1",
                    1,
                    "delete { ns.P { $p } }",
                    vec![pr("p", b64(&c.p1))],
                ),
                d(
                    "delete the reference P2.qs -> qc",
                    1,
                    "delete { ns.P { $p qs[$q] } }",
                    vec![pr("p", b64(&c.p2)), pr("q", b64(&c.qc))],
                ),
                d(
                    "delete P0 which has references",
                    2,
                    "delete { ns.P { $p } }",
                    vec![pr("p", b64(&c.p0))],
                ),
                d(
                    "delete two rows of two entities in one request",
                    2,
                    "delete { ns.Q { $a } ns.P { $b } }",
                    vec![pr("a", b64(&c.qa)), pr("b", b64(&c.p3))],
                ),
            ];
            Workload { groups: singles(reqs.len()), reqs }
        }
        "W3" => {
            let mut create = m(
                "create a room with three groups: rights and a user, rights only, a user only",
                1,
                "mutate { sys.Room { admin:[{verif_key:$adm}] authorisations:[{ name:\"ga\" rights:[{entity:\"ns.P\" mutate_self:true mutate_all:true},{entity:\"ns.Q\" mutate_self:true mutate_all:false}] },{ name:\"gb\" rights:[{entity:\"*\" mutate_self:true mutate_all:false}] },{ name:\"gc\" users:[{verif_key:$b}] }] } }",
                vec![pr("adm", b64(&c.key_vk())), pr("b", c.b_key.clone())],
            );
            create.capture = Some("r3");
            let reqs = vec![
                create,
                m(
                    "add a user to the group of room R",
                    1,
                    "mutate { sys.Room { id:$room authorisations:[{ id:$g users:[{verif_key:$k enabled:true}] }] } }",
                    vec![pr("room", r.clone()), pr("g", b64(&c.g0)), pr("k", c.b_key.clone())],
                ),
                m(
                    "row in the room created by the first request",
                    2,
                    "mutate { ns.P { room_id:$r name:\"in r3\" qs:[{name:\"in r3 too\"}] } }",
                    vec![pr("r", "@r3".to_string())],
                ),
                m(
                    "restrict a right and add a second administrator",
                    2,
                    "mutate { sys.Room { id:$room admin:[{verif_key:$k enabled:true}] authorisations:[{ id:$g rights:[{entity:\"ns.Q\" mutate_self:true mutate_all:false}] }] } }",
                    vec![pr("room", r.clone()), pr("g", b64(&c.g0)), pr("k", c.b_key.clone())],
                ),
                m(
                    "one request holding a room mutation AND a row of that room",
                    2,
                    "mutate { sys.Room { id:$room authorisations:[{ id:$g rights:[{entity:\"ns.P\" mutate_self:true mutate_all:true}] }] } ns.P { room_id:$rr name:\"with the room mutation\" } }",
                    vec![pr("room", r.clone()), pr("rr", r.clone()), pr("g", b64(&c.g0))],
                ),
            ];
            Workload { groups: singles(reqs.len()), reqs }
        }
        "W4" => {
            let reqs = vec![
                Req {
                    label: "delivered rows: two new, one newer version of a stored row",
                    day: 1,
                    kind: Kind::AddNodes(c.r, vec![n1.clone(), n2.clone(), x1b.clone()]),
                    capture: None,
                },
                Req {
                    label: "delivered references",
                    day: 1,
                    kind: Kind::AddEdges(c.r, vec![e1.clone(), e2.clone()]),
                    capture: None,
                },
                Req {
                    label: "delivered row deletion",
                    day: 2,
                    kind: Kind::DeleteNodes(vec![del_z1.clone()]),
                    capture: None,
                },
                Req {
                    label: "delivered reference deletion",
                    day: 2,
                    kind: Kind::DeleteEdges(vec![del_exy.clone()]),
                    capture: None,
                },
                Req { label: "recompute after the synchronisation", day: 2, kind: Kind::Recompute, capture: None },
            ];
            Workload { groups: singles(reqs.len()), reqs }
        }
        "W5" => {
            let reqs = vec![
                // N = 1
                s(
                    "stream: create P with qs",
                    1,
                    "mutate { ns.P { room_id:$r name:\"s1\" qs:[{name:\"s1.a\"}] } }",
                    vec![pr("r", r.clone())],
                ),
                // N = 2
                m(
                    "update P1",
                    1,
                    "mutate { ns.P { id:$p name:\"p1 changed\" n:7 } }",
                    vec![pr("p", b64(&c.p1))],
                ),
                d("delete P3", 1, "delete { ns.P { $p } }", vec![pr("p", b64(&c.p3))]),
                // N = 5
                s(
                    "stream: create P with q",
                    2,
                    "mutate { ns.P { room_id:$r name:\"s2\" q:{name:\"s2.q\"} } }",
                    vec![pr("r", r.clone())],
                ),
                s(
                    "stream: room mutation, new user",
                    2,
                    "mutate { sys.Room { id:$room authorisations:[{ id:$g users:[{verif_key:$k enabled:true}] }] } }",
                    vec![pr("room", r.clone()), pr("g", b64(&c.g0)), pr("k", c.b_key.clone())],
                ),
                Req {
                    label: "delivered rows",
                    day: 2,
                    kind: Kind::AddNodes(c.r, vec![n1.clone(), n2.clone()]),
                    capture: None,
                },
                d(
                    "delete the reference P2.qs -> qc",
                    2,
                    "delete { ns.P { $p qs[$q] } }",
                    vec![pr("p", b64(&c.p2)), pr("q", b64(&c.qc))],
                ),
                Req {
                    label: "delivered row deletion",
                    day: 2,
                    kind: Kind::DeleteNodes(vec![del_z1.clone()]),
                    capture: None,
                },
            ];
            Workload { groups: vec![vec![0], vec![1, 2], vec![3, 4, 5, 6, 7]], reqs }
        }
        "W6" => {
            let reqs = vec![
                s(
                    "stream: new row on day 1 (no recompute before the stream is closed)",
                    1,
                    "mutate { ns.P { room_id:$r name:\"d1\" } }",
                    vec![pr("r", r.clone())],
                ),
                s(
                    "stream: row of day 0 re-dated to day 3",
                    3,
                    "mutate { ns.P { id:$p name:\"p2 on day 3\" } }",
                    vec![pr("p", b64(&c.p2))],
                ),
                s(
                    "stream: new row in the second room on day 2",
                    2,
                    "mutate { ns.Q { room_id:$r name:\"d2 r2\" } }",
                    vec![pr("r", r2.clone())],
                ),
                Req { label: "recompute: three rooms/entities, four days pending", day: 3, kind: Kind::Recompute, capture: None },
                d("delete P1 of day 0 on day 3", 3, "delete { ns.P { $p } }", vec![pr("p", b64(&c.p1))]),
                Req { label: "recompute with nothing pending", day: 3, kind: Kind::Recompute, capture: None },
            ];
            // the three stream mutations are separate batches but share one stream: the recompute
            // request is only issued when it is closed
            Workload { groups: singles(reqs.len()), reqs }
        }
        other => return Err(format!("unknown workload {}", other)),
    };
    Ok(wl)
}

impl Ctx {
    pub fn key_vk(&self) -> Vec<u8> {
        use discret::verif::security::SigningKey;
        self.key.export_verifying_key()
    }
}

// ---------------------------------------------------------------------------------------------
// lockstep driver
// ---------------------------------------------------------------------------------------------
struct Noop;
impl Writeable for Noop {
    fn write(&mut self, _c: &rusqlite::Connection) -> Result<(), rusqlite::Error> {
        Ok(())
    }
}

pub struct Stuck(pub String);

/// wait loops: let the tokio tasks run, then give the CPU away for a short while (waiting, not timing)
async fn idle() {
    tokio::task::yield_now().await;
    std::thread::sleep(Duration::from_micros(150));
}

/// generous: the machine may be heavily loaded and a time-out would read as a hang
const PATIENCE: Duration = Duration::from_secs(180);

/// wait until the writer thread is parked at the gate with the next batch
async fn wait_gate(what: &str) -> Result<(), Stuck> {
    let deadline = Instant::now() + PATIENCE;
    loop {
        if vh::gate_status(GATE).0 >= 1 {
            return Ok(());
        }
        if Instant::now() > deadline {
            return Err(Stuck(format!("no batch reached the writer: {}", what)));
        }
        idle().await;
    }
}

/// let exactly one batch through. Synchronous: no tokio task runs meanwhile, so nothing can be
/// handed to the writer thread before the gate is closed again.
fn step() {
    let (_, passed) = vh::gate_status(GATE);
    STEPS.fetch_add(1, Ordering::SeqCst);
    vh::open_gate(GATE);
    let mut spins = 0u32;
    loop {
        if vh::gate_status(GATE).1 > passed {
            break;
        }
        spins += 1;
        if spins < 200 {
            std::thread::yield_now();
        } else {
            std::thread::sleep(Duration::from_micros(50));
        }
    }
    vh::close_gate(GATE);
}

async fn step_next(what: &str) -> Result<(), Stuck> {
    wait_gate(what).await?;
    step();
    Ok(())
}

/// step every batch that shows up until the task is finished; returns the number of batches
async fn pump<T>(h: &tokio::task::JoinHandle<T>, what: &str) -> Result<u64, Stuck> {
    let deadline = Instant::now() + PATIENCE;
    let mut n = 0;
    loop {
        if h.is_finished() {
            return Ok(n);
        }
        if vh::gate_status(GATE).0 >= 1 {
            step();
            n += 1;
        }
        if Instant::now() > deadline {
            return Err(Stuck(format!("request never completed: {}", what)));
        }
        idle().await;
    }
}

/// quiescence in lockstep, without putting anything more through the writer: every batch that was let
/// through has left `process_batch_write` (the `ack.before` point is counted for every batch, armed
/// or not), so its commit - or its rollback - is visible to the reader connections
async fn lock_barrier(p: &FPeer) -> Result<bool, Stuck> {
    let deadline = Instant::now() + PATIENCE;
    loop {
        let done = vh::fault_hits().get("ack.before").copied().unwrap_or(0);
        if done >= STEPS.load(Ordering::SeqCst) {
            break;
        }
        if Instant::now() > deadline {
            return Err(Stuck("a batch never left the writer".into()));
        }
        idle().await;
    }
    let _ = p.db.datamodel().await;
    let _ = p.events.subcribe().await;
    Ok(true)
}

/// round trips through every sequential actor before the writer: everything sent before is in the
/// writer's buffer when this returns
async fn sequence(p: &FPeer) {
    let _ = p.db.datamodel().await;
    let _ = p.sql("SELECT 1").await;
    let _ = p.db.sign(vec![1]).await;
    for _ in 0..4 {
        tokio::task::yield_now().await;
    }
}

fn outcome_json(i: usize, r: &Result<(), DbError>) -> Value {
    match r {
        Ok(()) => json!({"t":"ack","i":i}),
        Err(e) => json!({"t":"fail","i":i,"write": matches!(e, DbError::DatabaseWrite(_)),"err": e.to_string()}),
    }
}

pub struct Runner<'a> {
    pub p: &'a FPeer,
    pub dynamic: HashMap<String, String>,
}

type Out = (Result<(), DbError>, Option<Uid>);

impl<'a> Runner<'a> {
    fn arm_request(&self, i: usize, req: &Req) {
        set_clock(req_clock(req.day, i));
        vh::set_uid_namespace(5000 + i as u64);
    }

    /// start one request as a task which logs its outcome the moment it has it
    async fn start(&self, i: usize, req: &Req, direct: bool) -> Result<tokio::task::JoinHandle<Out>, String> {
        let db = self.p.db.clone();
        let h = match &req.kind {
            Kind::Mutate(text, ps) => {
                let pa = params(ps, &self.dynamic);
                let text = text.clone();
                if direct {
                    // same message as mutate_raw; the recompute request that mutate_raw sends after
                    // the acknowledgement is issued by the driver once the whole group is acknowledged
                    let (reply, receive) = oneshot::channel();
                    let _ = db.sender.send(DbMessage::Mutate(text, pa, reply)).await;
                    tokio::spawn(async move {
                        let r = match receive.await {
                            Ok(r) => r,
                            Err(e) => Err(DbError::from(e)),
                        };
                        let id = r.as_ref().ok().map(first_id);
                        let r = r.map(|_| ());
                        log(outcome_json(i, &r));
                        (r, id)
                    })
                } else {
                    tokio::spawn(async move {
                        let r = db.mutate_raw(&text, Some(pa)).await;
                        let id = r.as_ref().ok().map(first_id);
                        let r = r.map(|_| ());
                        log(outcome_json(i, &r));
                        (r, id)
                    })
                }
            }
            Kind::Delete(text, ps) => {
                let pa = params(ps, &self.dynamic);
                let text = text.clone();
                if direct {
                    let (reply, receive) = oneshot::channel();
                    let _ = db.sender.send(DbMessage::Delete(text, pa, reply)).await;
                    tokio::spawn(async move {
                        let r = match receive.await {
                            Ok(r) => r,
                            Err(e) => Err(DbError::from(e)),
                        };
                        let r = r.map(|_| ());
                        log(outcome_json(i, &r));
                        (r, None)
                    })
                } else {
                    tokio::spawn(async move {
                        let r = db.delete(&text, Some(pa)).await.map(|_| ());
                        log(outcome_json(i, &r));
                        (r, None)
                    })
                }
            }
            Kind::AddNodes(room, nodes) => {
                let nti = prepare_nodes(self.p, nodes).await?;
                let room = *room;
                tokio::spawn(async move {
                    let r = match db.add_nodes(room, nti).await {
                        Ok(rejected) if rejected.is_empty() => Ok(()),
                        Ok(rejected) => Err(DbError::InvalidNode(format!("{} rejected", rejected.len()))),
                        Err(e) => Err(e),
                    };
                    log(outcome_json(i, &r));
                    (r, None)
                })
            }
            Kind::AddEdges(room, edges) => {
                let room = *room;
                let edges = edges.clone();
                tokio::spawn(async move {
                    let r = match db.add_edges(room, edges).await {
                        Ok(rejected) if rejected.is_empty() => Ok(()),
                        Ok(rejected) => Err(DbError::InvalidNode(format!("{} rejected", rejected.len()))),
                        Err(e) => Err(e),
                    };
                    log(outcome_json(i, &r));
                    (r, None)
                })
            }
            Kind::DeleteNodes(entries) => {
                let entries: Vec<NodeDeletionEntry> = entries
                    .iter()
                    .map(|(room, n, d)| NodeDeletionEntry::build(*room, n, *d, &signing_key_for(SEED)))
                    .collect();
                tokio::spawn(async move {
                    let r = db.delete_nodes(entries).await;
                    log(outcome_json(i, &r));
                    (r, None)
                })
            }
            Kind::DeleteEdges(entries) => {
                let entries: Vec<EdgeDeletionEntry> = entries
                    .iter()
                    .map(|(room, e, d)| EdgeDeletionEntry::build(*room, e, *d, &signing_key_for(SEED)))
                    .collect();
                tokio::spawn(async move {
                    let r = db.delete_edges(entries).await;
                    log(outcome_json(i, &r));
                    (r, None)
                })
            }
            Kind::Stream(..) | Kind::Recompute => return Err("not a task request".into()),
        };
        Ok(h)
    }

    fn captured(&mut self, req: &Req, out: &Out) {
        if let (Some(name), Some(id), Ok(())) = (req.capture, out.1, &out.0) {
            self.dynamic.insert(name.to_string(), b64(&id));
        }
    }

    /// one request alone in its batch(es)
    pub async fn run_single(&mut self, i: usize, req: &Req) -> Result<(), Stuck> {
        self.arm_request(i, req);
        log(json!({"t":"req","i":i}));
        match &req.kind {
            Kind::Recompute => {
                self.p.db.compute_daily_log().await;
                let _ = self.p.db.datamodel().await;
                log(json!({"t":"sent","i":i}));
                step_next("recompute request").await?;
            }
            Kind::Stream(text, ps) => {
                let (tx, mut rx) = self.p.db.mutation_stream();
                let pa = params(ps, &self.dynamic);
                let _ = tx.send((text.clone(), Some(pa))).await;
                let h: tokio::task::JoinHandle<Out> = tokio::spawn(async move {
                    let r = match rx.recv().await {
                        Some(r) => r,
                        None => Err(DbError::ChannelSend("stream closed".into())),
                    };
                    let id = r.as_ref().ok().map(first_id);
                    let r = r.map(|_| ());
                    log(outcome_json(i, &r));
                    (r, id)
                });
                pump(&h, req.label).await?;
                let out = h.await.map_err(|e| Stuck(e.to_string()))?;
                self.captured(req, &out);
                // closing the stream issues the recompute request
                drop(tx);
                step_next("recompute after stream").await?;
            }
            Kind::Mutate(..) | Kind::Delete(..) => {
                let h = self.start(i, req, false).await.map_err(Stuck)?;
                let mut stepped = pump(&h, req.label).await?;
                let out = h.await.map_err(|e| Stuck(e.to_string()))?;
                self.captured(req, &out);
                // the public call has sent its recompute request: it is behind this round trip
                let _ = self.p.db.datamodel().await;
                let reached = matches!(&out.0, Ok(()) | Err(DbError::DatabaseWrite(_)));
                let expected = reached as u64 + 1;
                while stepped < expected {
                    step_next("recompute after request").await?;
                    stepped += 1;
                }
            }
            _ => {
                let h = self.start(i, req, false).await.map_err(Stuck)?;
                pump(&h, req.label).await?;
                let out = h.await.map_err(|e| Stuck(e.to_string()))?;
                self.captured(req, &out);
            }
        }
        Ok(())
    }

    /// N requests held so that they share one transaction
    pub async fn run_group(&mut self, idx: &[usize], reqs: &[Req]) -> Result<(), Stuck> {
        // park the writer thread on a no-op: everything sent now accumulates in the buffer
        let w = self.p.db.db.writer.clone();
        let h0 = tokio::spawn(async move { w.write(Box::new(Noop)).await.is_ok() });
        wait_gate("group head no-op").await?;
        let mut handles: Vec<(usize, tokio::task::JoinHandle<Out>)> = vec![];
        let mut stream: Option<(
            tokio::sync::mpsc::Sender<(String, Option<Parameters>)>,
            Vec<usize>,
        )> = None;
        let mut stream_rx = None;
        let mut recomputes = 0;
        for &i in idx {
            let req = &reqs[i];
            self.arm_request(i, req);
            log(json!({"t":"req","i":i}));
            match &req.kind {
                Kind::Stream(text, ps) => {
                    if stream.is_none() {
                        let (tx, rx) = self.p.db.mutation_stream();
                        stream = Some((tx, vec![]));
                        stream_rx = Some(rx);
                    }
                    let pa = params(ps, &self.dynamic);
                    let st = stream.as_mut().unwrap();
                    let _ = st.0.send((text.clone(), Some(pa))).await;
                    st.1.push(i);
                }
                Kind::Recompute => {
                    return Err(Stuck("recompute cannot be held in a group".into()));
                }
                Kind::Mutate(..) | Kind::Delete(..) => {
                    recomputes += 1;
                    handles.push((i, self.start(i, req, true).await.map_err(Stuck)?));
                }
                _ => handles.push((i, self.start(i, req, true).await.map_err(Stuck)?)),
            }
            sequence(self.p).await;
        }
        // stream answers come back in order
        let stream_task = if let (Some(mut rx), Some((_, ids))) = (stream_rx, stream.as_ref()) {
            let ids = ids.clone();
            Some(tokio::spawn(async move {
                let mut res: Vec<(usize, Out)> = vec![];
                for i in ids {
                    let r = match rx.recv().await {
                        Some(r) => r,
                        None => Err(DbError::ChannelSend("stream closed".into())),
                    };
                    let id = r.as_ref().ok().map(first_id);
                    let r = r.map(|_| ());
                    log(outcome_json(i, &r));
                    res.push((i, (r, id)));
                }
                res
            }))
        } else {
            None
        };
        // the no-op goes, then the held requests arrive as one batch
        step();
        let deadline = Instant::now() + PATIENCE;
        while !h0.is_finished() {
            if Instant::now() > deadline {
                return Err(Stuck("group head never acknowledged".into()));
            }
            idle().await;
        }
        let _ = h0.await;
        let items_before = vh::fault_hits().get("batch.item").copied().unwrap_or(0);
        let begins_before = vh::fault_hits().get("batch.begin").copied().unwrap_or(0);
        // requests refused before the writer never reach it: wait for a batch or for all answers
        let deadline = Instant::now() + PATIENCE;
        loop {
            let all_done = handles.iter().all(|(_, h)| h.is_finished())
                && stream_task.as_ref().map(|t| t.is_finished()).unwrap_or(true);
            if all_done {
                break;
            }
            if vh::gate_status(GATE).0 >= 1 {
                step();
            }
            if Instant::now() > deadline {
                return Err(Stuck("held requests never completed".into()));
            }
            idle().await;
        }
        for (i, h) in handles {
            let out = h.await.map_err(|e| Stuck(e.to_string()))?;
            self.captured(&reqs[i], &out);
        }
        if let Some(t) = stream_task {
            for (i, out) in t.await.map_err(|e| Stuck(e.to_string()))? {
                self.captured(&reqs[i], &out);
            }
        }
        let items = vh::fault_hits().get("batch.item").copied().unwrap_or(0) - items_before;
        let begins = vh::fault_hits().get("batch.begin").copied().unwrap_or(0) - begins_before;
        log(json!({"t":"group","n":idx.len(),"batches":begins,"items":items}));
        // the recompute requests of the public calls, one at a time
        for _ in 0..recomputes {
            self.p.db.compute_daily_log().await;
            let _ = self.p.db.datamodel().await;
            step_next("recompute after group").await?;
        }
        if let Some((tx, _)) = stream {
            drop(tx);
            step_next("recompute after stream of group").await?;
        }
        Ok(())
    }
}

// ---------------------------------------------------------------------------------------------
// child entry points
// ---------------------------------------------------------------------------------------------
fn install_hook(count_progress: bool) {
    vh::set_writer_conn_hook(Some(Box::new(move |conn: &rusqlite::Connection| {
        if !COMMIT_HOOKED.swap(true, Ordering::SeqCst) {
            conn.commit_hook(Some(|| {
                if !ARMED.load(Ordering::SeqCst) {
                    return false;
                }
                let c = COMMIT_CALLS.fetch_add(1, Ordering::SeqCst) + 1;
                let at = COMMIT_FIRE_AT.load(Ordering::SeqCst);
                if at != 0 && c == at {
                    log(json!({"t":"interrupt","call":c,"place":"commit-hook"}));
                    true
                } else {
                    false
                }
            }));
        }
        if !ARMED.load(Ordering::SeqCst) {
            conn.progress_handler(0, None::<fn() -> bool>);
            return;
        }
        let n = BATCHES.fetch_add(1, Ordering::SeqCst) + 1;
        let items = vh::fault_hits().get("batch.item").copied().unwrap_or(0);
        log(json!({"t":"batch","n":n,"items_before":items}));
        if count_progress {
            let period = PROGRESS_PERIOD.load(Ordering::SeqCst) as i32;
            conn.progress_handler(
                period,
                Some(|| {
                    let c = PROGRESS_CALLS.fetch_add(1, Ordering::SeqCst) + 1;
                    let at = PROGRESS_FIRE_AT.load(Ordering::SeqCst);
                    if at != 0 && c == at {
                        let h = vh::fault_hits();
                        let g = |k: &str| h.get(k).copied().unwrap_or(0);
                        // where in the batch the failing statement is: the points already passed
                        let place = if g("batch.before_commit") == g("batch.begin") {
                            "commit"
                        } else if g("batch.before_marks") == g("batch.begin") {
                            "marks"
                        } else {
                            "item"
                        };
                        log(json!({"t":"interrupt","call":c,"place":place,"batch":g("batch.begin"),"item":g("batch.item")}));
                        true
                    } else {
                        false
                    }
                }),
            );
        }
    })));
}

pub fn child_main(extra: &[String]) -> i32 {
    if extra.len() < 6 {
        eprintln!("usage: mc C13 --child <workload> <point> <k> <mode> <dir> [skip=..] [period=..]");
        return 2;
    }
    let wname = extra[1].clone();
    let point = extra[2].clone();
    let k: u64 = extra[3].parse().unwrap_or(0);
    let mode = extra[4].clone();
    let dir = PathBuf::from(&extra[5]);
    let mut skip: Vec<usize> = vec![];
    let mut period: u64 = 200;
    for e in &extra[6..] {
        if let Some(s) = e.strip_prefix("skip=") {
            skip = s.split(',').filter_map(|x| x.parse().ok()).collect();
        }
        if let Some(s) = e.strip_prefix("period=") {
            period = s.parse().unwrap_or(200);
        }
    }
    std::fs::create_dir_all(&dir).expect("dir");
    log_open(&dir);
    log(json!({"t":"start","workload":wname,"point":point,"k":k,"mode":mode}));
    PROGRESS_PERIOD.store(period, Ordering::SeqCst);
    let rt = runtime();
    let code = rt.block_on(async {
        match child_async(&wname, &point, k, &mode, &dir, &skip).await {
            Ok(()) => 0,
            Err(e) => {
                log(json!({"t":"machinery","err":e}));
                eprintln!("child: {}", e);
                3
            }
        }
    });
    // no orderly shutdown: the folder is reopened by the verifier anyway
    std::process::exit(code);
}

async fn child_async(
    wname: &str,
    point: &str,
    k: u64,
    mode: &str,
    dir: &Path,
    skip: &[usize],
) -> Result<(), String> {
    set_clock(T0);
    vh::set_uid_namespace(900);
    let p = FPeer::start_in(PEER_NAME, SEED, MODEL, dir.join("db"), small_config()).await?;
    let ctx = setup(&p).await?;
    let wl = build(wname, &ctx)?;
    let c0 = dump_canon(&p).await?;
    if !c0.problems.is_empty() {
        return Err(format!("canonical form: {:?}", c0.problems));
    }
    log(json!({"t":"setup","data":data_hash(&c0),"pending":c0.pending_marks,"log_problems":c0.log_problems}));
    let is_ref = mode == "ref";
    let mut states: Vec<Canon> = vec![c0];

    // from here on every batch is let through by the driver
    vh::close_gate(GATE);
    install_hook(mode == "dry" || mode == "interrupt");
    match mode {
        "abort" => vh::arm_fault(point, k, FaultMode::Abort),
        "error" => vh::arm_fault(point, k, FaultMode::Error),
        "interrupt" => {
            vh::reset_fault_hits();
            PROGRESS_FIRE_AT.store(k, Ordering::SeqCst);
        }
        "commitfail" => {
            vh::reset_fault_hits();
            COMMIT_FIRE_AT.store(k, Ordering::SeqCst);
        }
        _ => vh::reset_fault_hits(),
    }
    PROGRESS_CALLS.store(0, Ordering::SeqCst);
    COMMIT_CALLS.store(0, Ordering::SeqCst);
    STEPS.store(0, Ordering::SeqCst);
    ARMED.store(true, Ordering::SeqCst);
    log(json!({"t":"armed"}));

    let mut runner = Runner { p: &p, dynamic: HashMap::new() };
    let groups: Vec<Vec<usize>> = if is_ref {
        (0..wl.reqs.len()).map(|i| vec![i]).collect()
    } else {
        wl.groups.clone()
    };
    let mut stuck: Option<String> = None;
    'outer: for g in &groups {
        let g: Vec<usize> = g.iter().copied().filter(|i| !skip.contains(i)).collect();
        if g.is_empty() {
            // a skipped request leaves the state as it is
            if is_ref {
                let last = states.last().unwrap().clone();
                states.push(last);
            }
            continue;
        }
        let r = if g.len() == 1 {
            runner.run_single(g[0], &wl.reqs[g[0]]).await
        } else {
            runner.run_group(&g, &wl.reqs).await
        };
        if let Err(Stuck(e)) = r {
            stuck = Some(e);
            break 'outer;
        }
        match lock_barrier(&p).await {
            Ok(ok) => {
                if !ok {
                    log(json!({"t":"barrier_failed","i":g[g.len()-1]}));
                }
            }
            Err(Stuck(e)) => {
                stuck = Some(e);
                break 'outer;
            }
        }
        let c = dump_canon(&p).await?;
        log(json!({"t":"vis","i":g[g.len()-1],"data":data_hash(&c),"pending":c.pending_marks,"log_problems":c.log_problems, "problems": c.problems}));
        if is_ref {
            states.push(c);
        }
    }
    // end of the faultable part
    ARMED.store(false, Ordering::SeqCst);
    let hits = vh::fault_hits();
    let mut hv = serde_json::Map::new();
    for pnt in POINTS {
        hv.insert(pnt.to_string(), json!(hits.get(pnt).copied().unwrap_or(0)));
    }
    hv.insert(PROGRESS_POINT.to_string(), json!(PROGRESS_CALLS.load(Ordering::SeqCst)));
    hv.insert(COMMIT_POINT.to_string(), json!(COMMIT_CALLS.load(Ordering::SeqCst)));
    log(json!({"t":"hits","hits":hv,"fired":vh::faults_fired(),"batches":BATCHES.load(Ordering::SeqCst)}));
    vh::disarm_faults();
    PROGRESS_FIRE_AT.store(0, Ordering::SeqCst);
    COMMIT_FIRE_AT.store(0, Ordering::SeqCst);
    vh::open_gate(GATE);
    if let Some(e) = stuck {
        log(json!({"t":"stuck","what":e}));
        return Ok(());
    }

    // one more request after the workload: the instance must still serve
    set_clock(req_clock(4, 99));
    vh::set_uid_namespace(7000);
    let mut pa = Parameters::default();
    pa.add("r", b64(&ctx.r2)).unwrap();
    let post = tokio::time::timeout(
        Duration::from_secs(120),
        p.db.mutate_raw("mutate { ns.Q { room_id:$r name:\"after the workload\" } }", Some(pa)),
    )
    .await;
    let (post_ok, post_err) = match post {
        Ok(Ok(_)) => (true, String::new()),
        Ok(Err(e)) => (false, e.to_string()),
        Err(_) => (false, "timeout".to_string()),
    };
    let q = tokio::time::timeout(
        Duration::from_secs(120),
        p.query("query { ns.Q(order_by(name asc)) { name } }", None),
    )
    .await;
    let query_ok = matches!(q, Ok(Ok(_)));
    let _ = tokio::time::timeout(Duration::from_secs(120), p.barrier()).await;
    let c = dump_canon(&p).await?;
    log(json!({"t":"post","ok":post_ok,"err":post_err,"query_ok":query_ok,"data":data_hash(&c),"pending":c.pending_marks,"log_problems":c.log_problems}));
    if is_ref || mode == "dry" {
        states.push(c);
        let body = json!({"states": states});
        std::fs::write(dir.join("states.json"), serde_json::to_string(&body).unwrap())
            .map_err(|e| e.to_string())?;
    }
    log(json!({"t":"end"}));
    Ok(())
}

/// reopen the folder as the application would after a crash
pub fn verify_main(extra: &[String]) -> i32 {
    if extra.len() < 2 {
        eprintln!("usage: mc C13 --verify <dir>");
        return 2;
    }
    let dir = PathBuf::from(&extra[1]);
    let rt = runtime();
    let out = rt.block_on(async { verify_async(&dir).await });
    let body = match out {
        Ok(v) => v,
        Err(e) => json!({"start_ok": false, "err": e}),
    };
    let _ = std::fs::write(dir.join("verify.json"), serde_json::to_string(&body).unwrap());
    std::process::exit(0);
}

async fn verify_async(dir: &Path) -> Result<Value, String> {
    set_clock(req_clock(5, 0));
    vh::set_uid_namespace(8000);
    let p = match tokio::time::timeout(
        Duration::from_secs(180),
        FPeer::start_in(PEER_NAME, SEED, MODEL, dir.join("db"), small_config()),
    )
    .await
    {
        Ok(Ok(p)) => p,
        Ok(Err(e)) => return Err(e),
        Err(_) => return Err("restart timed out".into()),
    };
    // start_in ends with the barrier: the start-up recompute pass has run
    let raw = dump_raw(&p).await?;
    let c = dump_canon(&p).await?;
    // from-scratch recomputation by the real pass: every log row marked, hashes wiped
    p.raw_write(vec![
        "UPDATE _daily_log SET need_recompute = 1, daily_hash = NULL, history_hash = NULL, entry_number = 0".to_string(),
    ])
    .await?;
    p.db.compute_daily_log().await;
    p.barrier().await;
    let raw2 = dump_raw(&p).await?;
    let scratch_equal = raw.get("_daily_log") == raw2.get("_daily_log");
    let mut scratch_diff = vec![];
    let mut history_only = 0u64;
    if !scratch_equal {
        let e = vec![];
        let a = raw.get("_daily_log").unwrap_or(&e);
        let b = raw2.get("_daily_log").unwrap_or(&e);
        for (x, y) in a.iter().zip(b.iter()) {
            if x != y {
                let cols = ["room", "entity", "date", "entry_number", "daily_hash", "history_hash", "need_recompute"];
                let which: Vec<&str> = (0..x.len().min(y.len()))
                    .filter(|i| x[*i] != y[*i])
                    .map(|i| cols.get(i).copied().unwrap_or("?"))
                    .collect();
                if which == vec!["history_hash"] {
                    history_only += 1;
                } else {
                    scratch_diff.push(format!(
                        "ent={} date={} differs in {}",
                        x[1].text().unwrap_or(""),
                        x[2].int().unwrap_or(0),
                        which.join("+")
                    ));
                }
            }
        }
        if a.len() != b.len() {
            scratch_diff.push(format!("{} rows vs {} rows", a.len(), b.len()));
        }
    }
    // the restarted instance serves
    let m = p
        .mutate("mutate { ns.Q { name:\"after the restart\" } }", None)
        .await;
    let q = p.query("query { ns.Q(order_by(name asc)) { name } }", None).await;
    Ok(json!({
        "start_ok": true,
        "canon": c,
        "scratch_equal": scratch_equal,
        "scratch_diff": scratch_diff,
        "scratch_history_only": history_only,
        "serves": m.is_ok() && q.is_ok(),
        "serve_err": format!("{:?} {:?}", m.err(), q.err()),
    }))
}
